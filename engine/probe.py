"""dev helper: python3 engine/probe.py <script.py>  — runs a script with F (default facts), prov, etc. in scope"""
import os, sys
HERE = os.path.dirname(os.path.abspath(__file__))
sys.path.insert(0, os.path.join(HERE, 'rules')); sys.path.insert(0, os.path.join(HERE, 'rules', 'props')); sys.path.insert(0, HERE)
import harness, prov, arms, combin, cfg, fieldidx, callgraph, entries  # noqa
from common import *  # noqa
F = harness.get_facts(os.environ.get('CFG', 'default'))
exec(open(sys.argv[1]).read())
