#!/bin/bash
# usage: run_driver.sh <out_dir> [cargo check args...]   (cwd-independent; analyses /repo or $RPP_REPO)
set -e
OUT="$1"; shift
REPO="${RPP_REPO:-/repo}"
DRV=/verif/engine/driver/target/debug/rpp-facts
T=$(mktemp -d /tmp/rppfacts.XXXXXX)
trap 'rm -rf "$T"' EXIT
mkdir -p "$OUT"
cd "$REPO"
LD_LIBRARY_PATH=$(rustc +nightly --print sysroot)/lib RPP_FACTS_OUT="$OUT" \
 RUSTFLAGS="-Zmir-opt-level=0 -Awarnings" RUSTC_WORKSPACE_WRAPPER=$DRV CARGO_NET_OFFLINE=true \
 CARGO_TARGET_DIR=$T/target cargo +nightly check --offline --lib "$@" 2>&1
