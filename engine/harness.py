"""Check harness: fact extraction + caching, rule context, evidence / known findings / replay."""
import fcntl
import hashlib
import importlib
import json
import os
import shutil
import subprocess
import sys
import tempfile
import time

VERIF = os.path.dirname(os.path.dirname(os.path.abspath(__file__)))
REPO = os.environ.get('RPP_REPO', '/repo')
DRIVER_DIR = os.path.join(VERIF, 'engine', 'driver')
DRIVER = os.path.join(DRIVER_DIR, 'target', 'debug', 'rpp-facts')
CACHE = os.environ.get('RPP_CACHE', os.path.join(VERIF, '.cache'))
FIXTURE = os.path.join(VERIF, 'fixtures', 'positive')

CONFIGS = {
    'default': [],
    'raw_strains': ['raw_strains'],
    'sync': ['sync'],
    'raw_strains+sync': ['raw_strains', 'sync'],
}

PROPERTIES = ['C01', 'C02', 'C03', 'C04', 'C05', 'C06', 'C07', 'C08', 'C10', 'C11', 'C12', 'C14', 'C15',
              'C16', 'C17', 'C18', 'C19', 'C20']


def sh(cmd, **kw):
    return subprocess.run(cmd, shell=isinstance(cmd, str), stdout=subprocess.PIPE, stderr=subprocess.STDOUT,
                          text=True, **kw)


def nightly_sysroot():
    r = sh('rustc +nightly --print sysroot')
    return r.stdout.strip()


def hash_tree(root, rels):
    h = hashlib.sha256()
    files = []
    for rel in rels:
        p = os.path.join(root, rel)
        if os.path.isdir(p):
            for d, dn, fn in os.walk(p):
                dn.sort()
                if 'target' in dn:
                    dn.remove('target')
                for f in sorted(fn):
                    files.append(os.path.join(d, f))
        elif os.path.exists(p):
            files.append(p)
    for f in sorted(files):
        h.update(os.path.relpath(f, root).encode())
        h.update(b'\0')
        with open(f, 'rb') as fh:
            h.update(fh.read())
        h.update(b'\0')
    return h.hexdigest()[:24]


def ensure_driver():
    src_hash = hash_tree(DRIVER_DIR, ['src', 'Cargo.toml', 'rust-toolchain.toml'])
    stamp = os.path.join(DRIVER_DIR, 'target', 'built.stamp')
    if os.path.exists(DRIVER) and os.path.exists(stamp) and open(stamp).read() == src_hash:
        return src_hash
    os.makedirs(os.path.join(DRIVER_DIR, 'target'), exist_ok=True)
    lock = open(os.path.join(DRIVER_DIR, 'target', 'build.lock'), 'w')
    fcntl.flock(lock, fcntl.LOCK_EX)
    try:
        if os.path.exists(DRIVER) and os.path.exists(stamp) and open(stamp).read() == src_hash:
            return src_hash
        env = dict(os.environ, CARGO_NET_OFFLINE='true')
        r = sh('cargo +nightly build --offline', cwd=DRIVER_DIR, env=env)
        if r.returncode != 0:
            sys.stderr.write(r.stdout)
            raise SystemExit('driver build failed')
        with open(stamp, 'w') as fh:
            fh.write(src_hash)
    finally:
        fcntl.flock(lock, fcntl.LOCK_UN)
    return src_hash


def run_driver(repo, out_dir, features, crates='rosu_pp', release=False, all_crates=False):
    """run `cargo +nightly check` with the driver as wrapper in a fresh target dir"""
    t = tempfile.mkdtemp(prefix='rppfacts.')
    try:
        env = dict(os.environ)
        env['LD_LIBRARY_PATH'] = nightly_sysroot() + '/lib'
        env['RPP_FACTS_OUT'] = out_dir
        env['RPP_FACTS_CRATES'] = crates
        env['RUSTFLAGS'] = '-Zmir-opt-level=0 -Awarnings'
        env['CARGO_NET_OFFLINE'] = 'true'
        env['CARGO_TARGET_DIR'] = os.path.join(t, 'target')
        if all_crates:
            env['RUSTC_WRAPPER'] = DRIVER
        else:
            env['RUSTC_WORKSPACE_WRAPPER'] = DRIVER
        cmd = ['cargo', '+nightly', 'check', '--offline', '--lib']
        if features:
            cmd += ['--features', ','.join(features)]
        if release:
            cmd += ['--release']
        os.makedirs(out_dir, exist_ok=True)
        r = sh(cmd, cwd=repo, env=env)
        return r
    finally:
        shutil.rmtree(t, ignore_errors=True)


class FactsError(Exception):
    pass


_LOADED = {}


def get_facts(config='default', release=False, repo=None):
    """Facts of the current working tree of the repository for one feature configuration."""
    import facts as factsmod
    repo = repo or REPO
    key = (config, release, repo)
    if key in _LOADED:
        return _LOADED[key]
    dh = ensure_driver()
    th = hash_tree(repo, ['src', 'Cargo.toml', 'Cargo.lock'])
    d = os.path.join(CACHE, 'facts', '%s-%s' % (th, dh[:8]), config + ('-release' if release else ''))
    path = os.path.join(d, 'rosu_pp.json')
    os.makedirs(d, exist_ok=True)
    lock = open(os.path.join(d, 'lock'), 'w')
    fcntl.flock(lock, fcntl.LOCK_EX)
    try:
        if not os.path.exists(path):
            r = run_driver(repo, d, CONFIGS[config], release=release)
            if r.returncode != 0 or not os.path.exists(path):
                with open(os.path.join(d, 'build.log'), 'w') as fh:
                    fh.write(r.stdout)
                raise FactsError('cargo check failed for config %s:\n%s' % (config, r.stdout[-3000:]))
    finally:
        fcntl.flock(lock, fcntl.LOCK_UN)
    F = factsmod.load(path)
    if F.crate != 'rosu_pp':
        raise FactsError('unexpected crate %s' % F.crate)
    F.config = config
    _LOADED[key] = F
    prune_cache()
    return F


def get_dep_facts(repo=None):
    """Facts of the two runtime dependencies at their locked versions (thorough tier)."""
    import facts as factsmod
    repo = repo or REPO
    dh = ensure_driver()
    th = hash_tree(repo, ['Cargo.toml', 'Cargo.lock'])
    d = os.path.join(CACHE, 'facts', 'deps-%s-%s' % (th, dh[:8]))
    os.makedirs(d, exist_ok=True)
    lock = open(os.path.join(d, 'lock'), 'w')
    fcntl.flock(lock, fcntl.LOCK_EX)
    try:
        if not (os.path.exists(os.path.join(d, 'rosu_map.json')) and os.path.exists(os.path.join(d, 'rosu_mods.json'))):
            r = run_driver(repo, d, [], crates='rosu_map,rosu_mods', all_crates=True)
            if r.returncode != 0:
                raise FactsError('dependency scan failed:\n%s' % r.stdout[-2000:])
    finally:
        fcntl.flock(lock, fcntl.LOCK_UN)
    out = []
    for c in ('rosu_map', 'rosu_mods'):
        F = factsmod.load(os.path.join(d, c + '.json'))
        F.config = 'dep'
        out.append(F)
    return out


def prune_cache(keep=6):
    base = os.path.join(CACHE, 'facts')
    try:
        ents = [(os.path.getmtime(os.path.join(base, e)), e) for e in os.listdir(base)]
    except OSError:
        return
    ents.sort(reverse=True)
    for _, e in ents[keep:]:
        shutil.rmtree(os.path.join(base, e), ignore_errors=True)


def get_fixture_facts():
    """Facts of the positive-control fixture crate (seeded instances every expected-zero rule
    must find)."""
    import facts as factsmod
    key = ('fixture',)
    if key in _LOADED:
        return _LOADED[key]
    dh = ensure_driver()
    th = hash_tree(FIXTURE, ['src', 'Cargo.toml'])
    d = os.path.join(CACHE, 'facts', 'fixture-%s-%s' % (th, dh[:8]))
    path = os.path.join(d, 'rpp_fixture.json')
    os.makedirs(d, exist_ok=True)
    lock = open(os.path.join(d, 'lock'), 'w')
    fcntl.flock(lock, fcntl.LOCK_EX)
    try:
        if not os.path.exists(path):
            r = run_driver(FIXTURE, d, [], crates='rpp_fixture')
            if r.returncode != 0 or not os.path.exists(path):
                raise FactsError('fixture check failed:\n%s' % r.stdout[-3000:])
    finally:
        fcntl.flock(lock, fcntl.LOCK_UN)
    F = factsmod.load(path)
    F.config = 'fixture'
    _LOADED[key] = F
    return F


class Ctx:
    def __init__(self, prop, tier):
        self.prop = prop
        self.tier = tier
        self.obs = []          # dicts: rule, key, status, detail, loc
        self.notes = []
        self.assumptions = []
        self.configs = set()
        self.fns_analysed = set()
        self.call_sites = 0
        self.undecided = []
        self.selftests = []

    # -- facts ------------------------------------------------------------------------------
    def facts(self, config='default', release=False):
        F = get_facts(config, release)
        self.configs.add(config + ('-release' if release else ''))
        return F

    def fixture(self):
        return get_fixture_facts()

    # -- obligations ------------------------------------------------------------------------
    def _ob(self, status, rule, key, detail, loc):
        self.obs.append({'rule': rule, 'key': key, 'status': status, 'detail': detail, 'loc': loc})

    def ok(self, rule, key, detail='', loc=None):
        self._ob('ok', rule, key, detail, loc)

    def violation(self, rule, key, detail='', loc=None):
        self._ob('violation', rule, key, detail, loc)

    def assumed(self, rule, key, detail='', loc=None):
        self._ob('assumed', rule, key, detail, loc)

    def require(self, cond, rule, key, detail='', loc=None, bad=None):
        if cond:
            self.ok(rule, key, detail, loc)
        else:
            self.violation(rule, key, bad if bad is not None else detail, loc)
        return cond

    def floor(self, rule, found, minimum, what):
        """fail closed when a rule matches fewer instances than were confirmed by reading"""
        if found < minimum:
            self.violation(rule, 'anchor-missing:' + what,
                           'rule matched %d instance(s) of %s, at least %d expected (reason=anchor-missing)'
                           % (found, what, minimum))
            return False
        self.ok(rule, 'floor:' + what, '%d instance(s) of %s (floor %d)' % (found, what, minimum))
        return True

    def control(self, rule, found, what):
        """positive control: the rule must match the seeded instance in the fixture crate"""
        if not found:
            self.violation(rule, 'control-missing:' + what,
                           'positive control not matched: %s (the rule is broken, not the code)' % what)
            return False
        self.ok(rule, 'control:' + what, 'positive control matched: %s' % what)
        return True

    def note(self, text):
        self.notes.append(text)

    def assume(self, text):
        if text not in self.assumptions:
            self.assumptions.append(text)

    def not_decided(self, text):
        self.undecided.append(text)

    def saw(self, fn):
        self.fns_analysed.add(fn.path)


def load_known():
    p = os.path.join(VERIF, 'known_findings.json')
    if not os.path.exists(p):
        return []
    with open(p) as fh:
        return json.load(fh)['findings']


def run_property(prop, tier):
    mod = importlib.import_module('props.' + prop)
    ctx = Ctx(prop, tier)
    mod.run(ctx)
    return ctx, mod


def main(argv):
    import argparse
    ap = argparse.ArgumentParser()
    ap.add_argument('prop')
    ap.add_argument('--tier', default=os.environ.get('VERIF_TIER', 'quick'))
    ap.add_argument('--replay')
    ap.add_argument('--verbose', '-v', action='store_true')
    ap.add_argument('--no-evidence', action='store_true')
    a = ap.parse_args(argv)
    prop = a.prop
    tier = a.tier if a.tier in ('quick', 'thorough') else 'quick'
    if prop == 'all':
        rc = 0
        for p in PROPERTIES:
            rc |= main([p, '--tier', tier] + (['-v'] if a.verbose else []))
        return rc
    seed = int(os.environ.get('VERIF_SEED', '0') or 0)
    t0 = time.time()
    replay_key = None
    if a.replay:
        with open(a.replay) as fh:
            rj = json.load(fh)
        replay_key = (rj['rule'], rj['key'])
        print('replaying %s / %s on the current tree' % replay_key)
    try:
        ctx, mod = run_property(prop, tier)
    except FactsError as e:
        return facts_failure(prop, tier, seed, t0, e)
    except Exception:  # a rule could not digest the tree it was given: fail closed, never silently pass
        import traceback
        tb = traceback.format_exc()
        os.makedirs(os.path.join(VERIF, 'replay'), exist_ok=True)
        rp = os.path.join(VERIF, 'replay', '%s-analysis-error.json' % prop)
        with open(rp, 'w') as fh:
            json.dump({'property': prop, 'rule': 'analysis-error', 'key': 'exception', 'detail': tb}, fh, indent=1)
        print(tb[-3000:])
        print('-: rule=analysis-error instance=exception')
        print('    the rule library raised an exception on this tree (an unexpected program shape): nothing was decided, failing closed')
        print('VIOLATION property=%s replay=%s' % (prop, rp))
        write_evidence(prop, tier, seed, None, time.time() - t0, 1, [], error='analysis error: ' + tb[-1200:], mod=None)
        return 1
    if tier == 'thorough' and not a.replay and not os.environ.get('RPP_NO_SELFTEST') and REPO == '/repo':
        # E5: every rule must fire on its seeded mutant (scratch copies outside /repo and /verif, removed at once)
        try:
            sys.path.insert(0, os.path.join(VERIF, 'selftest'))
            import run as selftest_run
            res = selftest_run.run(props=[prop], jobs=min(12, os.cpu_count() or 4))
            for r in res:
                ctx.selftests.append({'mutant': r['id'], 'status': r['status'], 'detail': (r.get('how') or r.get('why') or '')[:200]})
                if r['status'] in ('MISSED', 'broken-mutant'):
                    print('SELFTEST-WARNING: mutant %s was not reported (%s) — the rule is weaker than designed' % (r['id'], r.get('why', '')[:200]))
            print('self-test mutants for %s: %d caught, %d skipped, %d missed' % (
                prop, sum(r['status'] == 'caught' for r in res), sum(r['status'] == 'skipped' for r in res),
                sum(r['status'] in ('MISSED', 'broken-mutant') for r in res)))
            # false-alarm guard: behaviour-preserving refactors of this property's area must leave this check silent
            import run_refactors as rf_run
            from refactors import REFACTORS
            mine = [r for r in REFACTORS if (r.get('props') and prop in r['props']) or r['id'].startswith('agent-%s-' % prop)]
            import concurrent.futures as _cf
            def _one(rf):
                return rf_run.run_one(dict(rf, props=[prop]))
            with _cf.ThreadPoolExecutor(max_workers=6) as ex:
                rres = list(ex.map(_one, mine))
            for r in rres:
                ctx.selftests.append({'mutant': 'refactor:' + r['id'], 'status': r['status'], 'detail': (r.get('why') or '')[:200]})
                if r['status'] == 'FALSE-ALARM':
                    print('SELFTEST-WARNING: behaviour-preserving refactor %s is reported (%s) — the rule is tied to code shape' % (r['id'], r.get('why', '')[:200]))
            print('refactor guard for %s: %d silent, %d reported, %d not applicable' % (
                prop, sum(r['status'] == 'silent' for r in rres), sum(r['status'] == 'FALSE-ALARM' for r in rres),
                sum(r['status'] not in ('silent', 'FALSE-ALARM') for r in rres)))
        except Exception as e:  # noqa
            print('self-test runner unavailable: %s' % e)
    known = load_known()
    kf = {(k['rule'], k['key']): k for k in known if k['property'] == prop and k.get('status') == 'finding'}
    viol = [o for o in ctx.obs if o['status'] == 'violation']
    unlisted = []
    listed = []
    for o in viol:
        if (o['rule'], o['key']) in kf:
            listed.append(o)
        else:
            unlisted.append(o)
    if replay_key:
        hit = [o for o in viol if (o['rule'], o['key']) == replay_key]
        for o in hit:
            print('still violated: %s %s — %s' % (o['rule'], o['key'], o['detail']))
        if not hit:
            print('not violated on the current tree: %s %s' % replay_key)
        unlisted = [o for o in unlisted if (o['rule'], o['key']) == replay_key]
    for o in listed:
        print('KNOWN-FINDING: property=%s %s [%s] %s — %s' % (prop, o['rule'], o['key'], o['loc'] or '', o['detail']))
    rc = 0
    os.makedirs(os.path.join(VERIF, 'replay'), exist_ok=True)
    for i, o in enumerate(unlisted):
        rp = os.path.join(VERIF, 'replay', '%s-%s-%d.json' % (prop, o['rule'], i))
        with open(rp, 'w') as fh:
            json.dump(dict(o, property=prop, replay_cmd='./check %s --replay %s' % (prop, rp)), fh, indent=1)
        print('%s: rule=%s instance=%s' % (o['loc'] or '-', o['rule'], o['key']))
        print('    %s' % o['detail'])
        print('VIOLATION property=%s replay=%s' % (prop, rp))
        rc = 1
    wall = time.time() - t0
    if a.verbose:
        for o in ctx.obs:
            print('  [%s] %s %s  %s  %s' % (o['status'], o['rule'], o['key'], o['loc'] or '', o['detail'][:200]))
        for n in ctx.notes:
            print('  note:', n)
    nok = sum(1 for o in ctx.obs if o['status'] == 'ok')
    print('%s %s: %d rule instances, %d discharged, %d assumed, %d violations (%d known), %.1fs' % (
        prop, tier, len(ctx.obs), nok, sum(1 for o in ctx.obs if o['status'] == 'assumed'), len(viol),
        len(listed), wall))
    if not a.no_evidence and not a.replay:
        write_evidence(prop, tier, seed, ctx, wall, len(viol), listed, mod=mod)
    return rc



def facts_failure(prop, tier, seed, t0, e):
    """the tree does not build in some configuration: for C10 that is itself the finding, for every other property
    nothing could be analysed -> fail closed"""
    os.makedirs(os.path.join(VERIF, 'replay'), exist_ok=True)
    rp = os.path.join(VERIF, 'replay', '%s-build.json' % prop)
    with open(rp, 'w') as fh:
        json.dump({'property': prop, 'rule': 'build', 'key': 'cargo-check', 'detail': str(e)}, fh, indent=1)
    print(str(e)[-2000:])
    print('-: rule=build instance=cargo-check')
    print('VIOLATION property=%s replay=%s' % (prop, rp))
    write_evidence(prop, tier, seed, None, time.time() - t0, 1, [], error=str(e)[-1500:], mod=None)
    return 1


def write_evidence(prop, tier, seed, ctx, wall, nviol, listed, error=None, mod=None):
    if '--no-evidence' in sys.argv:          # runs on scratch copies (self-tests, first looks at seeds) never touch the evidence of /repo — not on the failure paths either
        return
    os.makedirs(os.path.join(VERIF, 'evidence'), exist_ok=True)
    path = os.path.join(VERIF, 'evidence', '%s.json' % prop)
    if ctx is None:
        ev = {
            'property_id': prop, 'tier': tier, 'seed': seed, 'level': 'other',
            'coverage': {'explanation': 'fact extraction failed, nothing analysed: ' + (error or ''),
                         'obligations': 1, 'discharged': 0, 'evaluations': 1, 'distinct_nontrivial': 0,
                         'samples': []},
            'assumptions': [], 'wall_s': round(wall, 2), 'violations': nviol,
        }
    else:
        obs = ctx.obs
        nok = sum(1 for o in obs if o['status'] == 'ok')
        rules = {}
        for o in obs:
            r = rules.setdefault(o['rule'], {'instances': 0, 'ok': 0, 'violation': 0, 'assumed': 0})
            r['instances'] += 1
            r[o['status']] += 1
        distinct = len(set((o['rule'], o['key']) for o in obs
                           if not o['key'].startswith(('floor:', 'control:'))))
        samples = []
        seen_rules = {}
        for o in obs:
            c = seen_rules.get(o['rule'], 0)
            if c < 3:
                samples.append({'rule': o['rule'], 'instance': o['key'], 'status': o['status'],
                                'where': o['loc'], 'fact': o['detail'][:400]})
                seen_rules[o['rule']] = c + 1
        ev = {
            'property_id': prop, 'tier': tier, 'seed': seed, 'level': 'other',
            'coverage': {
                'explanation': getattr(mod, 'EXPLANATION', ''),
                'obligations': len(obs),
                'discharged': nok,
                'evaluations': len(obs),
                'distinct_nontrivial': distinct,
                'rule': 'one evaluation = one instance of a structural rule (a function, call site, path, arm or '
                        'type the rule quantifies over) found in the facts extracted from the current tree; distinct '
                        '= distinct (rule, instance key) pairs excluding floor/control bookkeeping',
                'samples': samples,
                'per_rule': rules,
                'configs': sorted(ctx.configs),
                'functions_analysed': len(ctx.fns_analysed),
                'not_decided': ctx.undecided,
                'known_findings_reported': [o['key'] for o in listed],
                'notes': ctx.notes[:60],
                'selftests': ctx.selftests,
                'exhaustive': True,
                'checker_cmd': './check %s --tier %s' % (prop, tier),
                'trusted_base': ['rustc nightly type checker / MIR builder', 'engine/driver (fact export)',
                                 'engine/rules (python rule library)'],
            },
            'assumptions': ctx.assumptions,
            'wall_s': round(wall, 2),
            'violations': nviol,
        }
    tmp = path + '.tmp%d' % os.getpid()
    with open(tmp, 'w') as fh:
        json.dump(ev, fh, indent=1)
    os.replace(tmp, path)
