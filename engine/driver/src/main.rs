//! rpp-facts: rustc_private fact extractor for the rosu-pp static checks.
//!
//! Used as RUSTC_WORKSPACE_WRAPPER (or RUSTC_WRAPPER for dependency scans): argv[1] is the real
//! rustc path, the remaining arguments are the rustc command line. For the crates named in
//! RPP_FACTS_CRATES (comma separated, default "rosu_pp") the type-checked program is exported as
//! one JSON document to $RPP_FACTS_OUT/<crate>.json (one write per process). All other crates
//! are compiled unchanged.
#![feature(rustc_private)]
#![allow(clippy::all)]
#![allow(deprecated)]

extern crate rustc_abi;
extern crate rustc_ast;
extern crate rustc_data_structures;
extern crate rustc_driver;
extern crate rustc_hir;
extern crate rustc_infer;
extern crate rustc_interface;
extern crate rustc_middle;
extern crate rustc_session;
extern crate rustc_span;
extern crate rustc_trait_selection;

mod json;
mod extract;

use rustc_driver::{Callbacks, Compilation};
use rustc_interface::interface;
use rustc_middle::ty::TyCtxt;

struct Extract {
    out_dir: String,
    crates: Vec<String>,
}

impl Callbacks for Extract {
    fn after_analysis<'tcx>(&mut self, _c: &interface::Compiler, tcx: TyCtxt<'tcx>) -> Compilation {
        let name = tcx.crate_name(rustc_span::def_id::LOCAL_CRATE).to_string();
        if self.crates.iter().any(|c| c == &name || c == "*") {
            let doc = extract::extract(tcx, &name);
            let path = format!("{}/{}.json", self.out_dir, name);
            let tmp = format!("{}.tmp{}", path, std::process::id());
            std::fs::write(&tmp, doc).expect("write facts");
            std::fs::rename(&tmp, &path).expect("rename facts");
        }
        Compilation::Continue
    }
}

struct Plain;
impl Callbacks for Plain {}

fn main() {
    let mut args: Vec<String> = std::env::args().collect();
    // wrapper protocol: argv[1] is the path of the real rustc
    if args.len() > 1 && (args[1].ends_with("rustc") || args[1].contains("/rustc")) {
        args.remove(1);
    }
    let out_dir = std::env::var("RPP_FACTS_OUT").unwrap_or_default();
    let crates: Vec<String> = std::env::var("RPP_FACTS_CRATES")
        .unwrap_or_else(|_| "rosu_pp".to_string())
        .split(',')
        .map(|s| s.trim().to_string())
        .collect();
    let is_query = args.iter().any(|a| a == "-vV" || a.starts_with("--print") || a == "-") ;
    if out_dir.is_empty() || is_query {
        rustc_driver::run_compiler(&args, &mut Plain);
    } else {
        rustc_driver::run_compiler(&args, &mut Extract { out_dir, crates });
    }
}
