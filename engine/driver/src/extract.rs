use crate::json::J;
use rustc_hir as hir;
use rustc_hir::def::DefKind;
use rustc_hir::def_id::{DefId, LocalDefId};
use rustc_hir::intravisit::{self, Visitor};
use rustc_middle::mir::{
    self, AggregateKind, BasicBlock, Body, CastKind, Operand, Place, ProjectionElem, Rvalue,
    StatementKind, TerminatorKind,
};
use rustc_middle::ty::print::{with_no_trimmed_paths, PrintTraitRefExt};
use rustc_middle::ty::{self, GenericArgsRef, Instance, Ty, TyCtxt, TypingEnv};
use rustc_span::{Span, Symbol};
use std::collections::{BTreeMap, BTreeSet};

pub fn extract<'tcx>(tcx: TyCtxt<'tcx>, crate_name: &str) -> String {
    let mut cx = Cx { tcx, foreign_fns: BTreeMap::new(), foreign_adts: BTreeMap::new() };
    let mut fns = Vec::new();
    let mut others = Vec::new();
    for ldid in tcx.hir_body_owners() {
        let did = ldid.to_def_id();
        let kind = tcx.def_kind(did);
        match kind {
            DefKind::Fn | DefKind::AssocFn | DefKind::Closure => {
                fns.push(cx.function(ldid));
            }
            _ => {
                others.push(J::Obj(vec![
                    ("path", J::s(cx.path(did))),
                    ("kind", J::s(format!("{:?}", kind))),
                    ("loc", cx.loc(tcx.def_span(did))),
                ]));
            }
        }
    }
    let adts = cx.adts();
    let statics = cx.statics();
    let impls = cx.impls();
    let unsafe_blocks = cx.unsafe_inventory();
    let consts = cx.consts();
    let traits = cx.traits();
    let foreign: Vec<J> = cx.foreign_fns.values().cloned().collect();
    let foreign_adts = cx.foreign_adt_items();

    let features: Vec<J> = tcx
        .sess
        .opts
        .cg
        .target_feature
        .split(',')
        .filter(|s| !s.is_empty())
        .map(J::s)
        .collect();
    let mut cfgs: Vec<String> = tcx
        .sess
        .config
        .iter()
        .filter_map(|(k, v)| {
            let k = k.to_string();
            if k == "feature" {
                v.map(|v| format!("feature={}", v))
            } else if k == "debug_assertions" || k == "test" || k == "overflow_checks" {
                Some(k)
            } else {
                None
            }
        })
        .collect();
    cfgs.sort();

    let doc = J::Obj(vec![
        ("crate", J::s(crate_name)),
        ("cfg", J::Arr(cfgs.into_iter().map(J::s).collect())),
        ("target_features", J::Arr(features)),
        ("fns", J::Arr(fns)),
        ("other_bodies", J::Arr(others)),
        ("adts", J::Arr(adts)),
        ("statics", J::Arr(statics)),
        ("impls", J::Arr(impls)),
        ("traits", J::Arr(traits)),
        ("unsafe_blocks", J::Arr(unsafe_blocks)),
        ("consts", J::Arr(consts)),
        ("foreign_fns", J::Arr(foreign)),
        ("foreign_adts", J::Arr(foreign_adts)),
    ]);
    let mut out = String::with_capacity(1 << 24);
    doc.write(&mut out);
    out
}

struct Cx<'tcx> {
    tcx: TyCtxt<'tcx>,
    foreign_fns: BTreeMap<String, J>,
    foreign_adts: BTreeMap<String, DefId>,
}

impl<'tcx> Cx<'tcx> {
    fn path(&self, did: DefId) -> String {
        with_no_trimmed_paths!(self.tcx.def_path_str(did))
    }

    fn ty_str(&self, ty: Ty<'tcx>) -> String {
        with_no_trimmed_paths!(ty.to_string())
    }

    fn loc(&self, span: Span) -> J {
        let sm = self.tcx.sess.source_map();
        // for macro expansions report the call site in user code
        let sp = span.source_callsite();
        let lo = sm.lookup_char_pos(sp.lo());
        let hi = sm.lookup_char_pos(sp.hi());
        let file = match &lo.file.name {
            rustc_span::FileName::Real(r) => match r.local_path() {
                Some(p) => p.to_string_lossy().to_string(),
                None => format!("{:?}", r),
            },
            other => format!("{:?}", other),
        };
        J::Arr(vec![J::s(file), J::Int(lo.line as i128), J::Int(hi.line as i128)])
    }

    fn line(&self, span: Span) -> i128 {
        let sm = self.tcx.sess.source_map();
        sm.lookup_char_pos(span.source_callsite().lo()).line as i128
    }

    fn raw_line(&self, span: Span) -> i128 {
        let sm = self.tcx.sess.source_map();
        sm.lookup_char_pos(span.lo()).line as i128
    }

    fn docs(&self, did: DefId) -> String {
        let mut s = String::new();
        for attr in self.tcx.get_all_attrs(did) {
            if let Some(d) = attr.doc_str() {
                s.push_str(d.as_str());
                s.push('\n');
            }
        }
        s
    }

    fn ty_kind_tag(&self, ty: Ty<'tcx>) -> &'static str {
        match ty.kind() {
            ty::Bool => "bool",
            ty::Char => "char",
            ty::Int(_) => "int",
            ty::Uint(_) => "uint",
            ty::Float(_) => "float",
            ty::Adt(def, _) => {
                if def.is_union() {
                    "union"
                } else if def.is_enum() {
                    "enum"
                } else {
                    "struct"
                }
            }
            ty::Foreign(_) => "foreign",
            ty::Str => "str",
            ty::Array(..) => "array",
            ty::Slice(_) => "slice",
            ty::RawPtr(_, m) => {
                if m.is_mut() {
                    "rawmut"
                } else {
                    "rawconst"
                }
            }
            ty::Ref(_, _, m) => {
                if m.is_mut() {
                    "refmut"
                } else {
                    "ref"
                }
            }
            ty::FnDef(..) => "fndef",
            ty::FnPtr(..) => "fnptr",
            ty::Dynamic(..) => "dyn",
            ty::Closure(..) => "closure",
            ty::Never => "never",
            ty::Tuple(_) => "tuple",
            ty::Param(_) => "param",
            ty::Alias(..) => "alias",
            _ => "other",
        }
    }

    /// Structured description of a type: string + tag + (for ADTs) def path and pointee info.
    fn ty_json(&mut self, ty: Ty<'tcx>) -> J {
        let mut v = vec![("s", J::s(self.ty_str(ty))), ("k", J::s(self.ty_kind_tag(ty)))];
        match ty.kind() {
            ty::Adt(def, args) => {
                v.push(("adt", J::s(self.path(def.did()))));
                let targs: Vec<J> = args.types().map(|t| J::s(self.ty_str(t))).collect();
                if !targs.is_empty() {
                    v.push(("targs", J::Arr(targs)));
                }
            }
            ty::Ref(_, inner, _) | ty::RawPtr(inner, _) => {
                v.push(("to", J::s(self.ty_str(*inner))));
                if let ty::Adt(def, _) = inner.kind() {
                    v.push(("to_adt", J::s(self.path(def.did()))));
                }
            }
            ty::Closure(did, _) => {
                v.push(("closure", J::s(self.path(*did))));
            }
            ty::FnDef(did, _) => {
                v.push(("fn", J::s(self.path(*did))));
            }
            _ => {}
        }
        J::Obj(v)
    }

    fn function(&mut self, ldid: LocalDefId) -> J {
        let tcx = self.tcx;
        let did = ldid.to_def_id();
        let kind = tcx.def_kind(did);
        let mut v: Vec<(&'static str, J)> = Vec::new();
        v.push(("path", J::s(self.path(did))));
        v.push(("dpath", J::s(tcx.def_path(did).to_string_no_crate_verbose())));
        v.push(("kind", J::s(format!("{:?}", kind))));
        v.push(("loc", self.loc(tcx.def_span(did))));
        let name = tcx.opt_item_name(did).map(|s| s.to_string());
        v.push(("name", J::opt_s(name)));
        if matches!(kind, DefKind::Fn | DefKind::AssocFn) {
            v.push(("vis", J::s(format!("{:?}", tcx.visibility(did)))));
            let sig = tcx.fn_sig(did).instantiate_identity().skip_normalization().skip_binder();
            v.push(("unsafe", J::Bool(sig.safety().is_unsafe())));
            let inputs: Vec<J> = sig.inputs().iter().map(|t| self.ty_json(*t)).collect();
            v.push(("inputs", J::Arr(inputs)));
            v.push(("output", self.ty_json(sig.output())));
            v.push(("docs", J::s(self.docs(did))));
            v.push(("is_const", J::Bool(tcx.is_const_fn(did))));
        } else {
            // closure: parent fn
            let parent = tcx.typeck_root_def_id(did);
            v.push(("parent", J::s(self.path(parent))));
        }
        // owning impl / trait
        if kind == DefKind::AssocFn {
            let parent = tcx.parent(did);
            match tcx.def_kind(parent) {
                DefKind::Impl { of_trait } => {
                    let self_ty = tcx.type_of(parent).instantiate_identity().skip_normalization();
                    v.push(("impl_self", self.ty_json(self_ty)));
                    if of_trait {
                        let tr = tcx.impl_trait_ref(parent).instantiate_identity().skip_normalization();
                        v.push(("impl_trait", J::s(self.path(tr.def_id))));
                        v.push((
                            "impl_trait_ref",
                            J::s(with_no_trimmed_paths!(tr.print_only_trait_path().to_string())),
                        ));
                    }
                    v.push(("impl_id", J::s(self.path(parent))));
                }
                DefKind::Trait => {
                    v.push(("in_trait", J::s(self.path(parent))));
                }
                _ => {}
            }
        }
        let generics = tcx.generics_of(did);
        let gparams: Vec<J> = generics
            .own_params
            .iter()
            .map(|p| J::s(format!("{}:{}", p.name, p.kind.descr())))
            .collect();
        v.push(("generics", J::Arr(gparams)));
        let in_test = self.in_cfg_test(did);
        v.push(("cfg_test", J::Bool(in_test)));

        let body: &Body<'tcx> = tcx.optimized_mir(did);
        v.push(("mir", self.body(did, body)));
        // promoted bodies
        let promoted = tcx.promoted_mir(did);
        let mut pv = Vec::new();
        for p in promoted.iter() {
            pv.push(self.body(did, p));
        }
        v.push(("promoted", J::Arr(pv)));
        J::Obj(v)
    }

    fn in_cfg_test(&self, _did: DefId) -> bool {
        // cfg(test) items are stripped before analysis in a non-test build
        self.tcx.sess.opts.test
    }

    fn body(&mut self, owner: DefId, body: &Body<'tcx>) -> J {
        let tcx = self.tcx;
        let typing_env = TypingEnv::post_analysis(tcx, owner);
        let mut locals = Vec::new();
        for (_l, decl) in body.local_decls.iter_enumerated() {
            let mut lv = match self.ty_json(decl.ty) {
                J::Obj(v) => v,
                _ => unreachable!(),
            };
            if decl.mutability.is_mut() {
                lv.push(("mut", J::Bool(true)));
            }
            locals.push(J::Obj(lv));
        }
        let mut names = Vec::new();
        for vdi in body.var_debug_info.iter() {
            if let mir::VarDebugInfoContents::Place(p) = &vdi.value {
                names.push(J::Obj(vec![
                    ("name", J::s(vdi.name.to_string())),
                    ("place", self.place(body, p)),
                    ("arg", match vdi.argument_index {
                        Some(i) => J::Int(i as i128),
                        None => J::Null,
                    }),
                ]));
            }
        }
        let mut blocks = Vec::new();
        for (_bb, data) in body.basic_blocks.iter_enumerated() {
            let mut stmts = Vec::new();
            for st in data.statements.iter() {
                let line = self.line(st.source_info.span);
                match &st.kind {
                    StatementKind::Assign(b) => {
                        let (place, rv) = &**b;
                        stmts.push(J::Obj(vec![
                            ("k", J::s("assign")),
                            ("p", self.place(body, place)),
                            ("rv", self.rvalue(body, typing_env, rv)),
                            ("ln", J::Int(line)),
                            ("exp", J::Bool(st.source_info.span.from_expansion())),
                        ]));
                    }
                    StatementKind::SetDiscriminant { place, variant_index } => {
                        stmts.push(J::Obj(vec![
                            ("k", J::s("setdiscr")),
                            ("p", self.place(body, place)),
                            ("variant", J::Int(variant_index.as_u32() as i128)),
                            ("ln", J::Int(line)),
                        ]));
                    }
                    StatementKind::StorageLive(l) => {
                        stmts.push(J::Obj(vec![("k", J::s("live")), ("l", J::Int(l.as_u32() as i128))]));
                    }
                    StatementKind::StorageDead(l) => {
                        stmts.push(J::Obj(vec![("k", J::s("dead")), ("l", J::Int(l.as_u32() as i128))]));
                    }
                    StatementKind::Intrinsic(i) => {
                        stmts.push(J::Obj(vec![
                            ("k", J::s("intrinsic")),
                            ("s", J::s(format!("{:?}", i))),
                            ("ln", J::Int(line)),
                        ]));
                    }
                    _ => {}
                }
            }
            let term = data.terminator();
            let tj = self.terminator(body, typing_env, term);
            blocks.push(J::Obj(vec![
                ("s", J::Arr(stmts)),
                ("t", tj),
                ("cleanup", J::Bool(data.is_cleanup)),
            ]));
        }
        J::Obj(vec![
            ("argc", J::Int(body.arg_count as i128)),
            ("locals", J::Arr(locals)),
            ("names", J::Arr(names)),
            ("blocks", J::Arr(blocks)),
        ])
    }

    fn bb(&self, b: BasicBlock) -> J {
        J::Int(b.as_u32() as i128)
    }

    fn terminator(&mut self, body: &Body<'tcx>, typing_env: TypingEnv<'tcx>, term: &mir::Terminator<'tcx>) -> J {
        let tcx = self.tcx;
        let span = term.source_info.span;
        let line = self.line(span);
        let mut v: Vec<(&'static str, J)> = Vec::new();
        match &term.kind {
            TerminatorKind::Goto { target } => {
                v.push(("k", J::s("goto")));
                v.push(("target", self.bb(*target)));
            }
            TerminatorKind::SwitchInt { discr, targets } => {
                v.push(("k", J::s("switch")));
                v.push(("discr", self.operand(body, typing_env, discr)));
                let dty = discr.ty(body, tcx);
                v.push(("discr_ty", J::s(self.ty_str(dty))));
                let mut ts = Vec::new();
                for (val, bb) in targets.iter() {
                    ts.push(J::Arr(vec![J::s(val.to_string()), self.bb(bb)]));
                }
                v.push(("targets", J::Arr(ts)));
                v.push(("otherwise", self.bb(targets.otherwise())));
            }
            TerminatorKind::Return => v.push(("k", J::s("return"))),
            TerminatorKind::Unreachable => v.push(("k", J::s("unreachable"))),
            TerminatorKind::UnwindResume => v.push(("k", J::s("resume"))),
            TerminatorKind::UnwindTerminate(_) => v.push(("k", J::s("terminate"))),
            TerminatorKind::Drop { place, target, unwind, .. } => {
                v.push(("k", J::s("drop")));
                v.push(("p", self.place(body, place)));
                v.push(("target", self.bb(*target)));
                if let mir::UnwindAction::Cleanup(b) = unwind {
                    v.push(("unwind", self.bb(*b)));
                }
            }
            TerminatorKind::Call { func, args, destination, target, unwind, fn_span, .. } => {
                v.push(("k", J::s("call")));
                v.push(("func", self.callee(body, typing_env, func)));
                let a: Vec<J> = args.iter().map(|a| self.operand(body, typing_env, &a.node)).collect();
                v.push(("args", J::Arr(a)));
                v.push(("dest", self.place(body, destination)));
                v.push(("target", match target {
                    Some(t) => self.bb(*t),
                    None => J::Null,
                }));
                if let mir::UnwindAction::Cleanup(b) = unwind {
                    v.push(("unwind", self.bb(*b)));
                }
                v.push(("exp", J::Bool(span.from_expansion() || fn_span.from_expansion())));
                if span.from_expansion() {
                    // name of the outermost macro this call was expanded from
                    let mut names = Vec::new();
                    for e in span.macro_backtrace() {
                        names.push(J::s(e.kind.descr()));
                    }
                    v.push(("macros", J::Arr(names)));
                    v.push(("raw_ln", J::Int(self.raw_line(span))));
                }
            }
            TerminatorKind::TailCall { func, args, .. } => {
                v.push(("k", J::s("tailcall")));
                v.push(("func", self.callee(body, typing_env, func)));
                let a: Vec<J> = args.iter().map(|a| self.operand(body, typing_env, &a.node)).collect();
                v.push(("args", J::Arr(a)));
            }
            TerminatorKind::Assert { cond, expected, msg, target, unwind } => {
                v.push(("k", J::s("assert")));
                v.push(("cond", self.operand(body, typing_env, cond)));
                v.push(("expected", J::Bool(*expected)));
                let kind = match &**msg {
                    mir::AssertKind::BoundsCheck { .. } => "bounds".to_string(),
                    mir::AssertKind::Overflow(op, ..) => format!("overflow:{:?}", op),
                    mir::AssertKind::OverflowNeg(_) => "overflow:Neg".to_string(),
                    mir::AssertKind::DivisionByZero(_) => "div0".to_string(),
                    mir::AssertKind::RemainderByZero(_) => "rem0".to_string(),
                    mir::AssertKind::MisalignedPointerDereference { .. } => "misaligned".to_string(),
                    mir::AssertKind::NullPointerDereference => "nullptr".to_string(),
                    _ => "other".to_string(),
                };
                v.push(("kind", J::s(kind)));
                v.push(("target", self.bb(*target)));
                if let mir::UnwindAction::Cleanup(b) = unwind {
                    v.push(("unwind", self.bb(*b)));
                }
            }
            TerminatorKind::FalseEdge { real_target, .. } => {
                v.push(("k", J::s("goto")));
                v.push(("target", self.bb(*real_target)));
            }
            TerminatorKind::FalseUnwind { real_target, .. } => {
                v.push(("k", J::s("goto")));
                v.push(("target", self.bb(*real_target)));
            }
            TerminatorKind::InlineAsm { .. } => v.push(("k", J::s("asm"))),
            TerminatorKind::Yield { .. } => v.push(("k", J::s("yield"))),
            TerminatorKind::CoroutineDrop => v.push(("k", J::s("coroutine_drop"))),
        }
        v.push(("ln", J::Int(line)));
        J::Obj(v)
    }

    fn callee(&mut self, body: &Body<'tcx>, typing_env: TypingEnv<'tcx>, func: &Operand<'tcx>) -> J {
        let tcx = self.tcx;
        let fty = func.ty(body, tcx);
        match fty.kind() {
            ty::FnDef(did, args) => self.fn_ref(typing_env, *did, args),
            _ => {
                // fn pointer / closure called through a local
                J::Obj(vec![
                    ("indirect", J::Bool(true)),
                    ("ty", J::s(self.ty_str(fty))),
                    ("op", self.operand(body, typing_env, func)),
                ])
            }
        }
    }

    fn fn_ref(&mut self, typing_env: TypingEnv<'tcx>, did: DefId, args: GenericArgsRef<'tcx>) -> J {
        let tcx = self.tcx;
        let mut v: Vec<(&'static str, J)> = Vec::new();
        let decl_path = self.path(did);
        v.push(("decl", J::s(decl_path.clone())));
        let mut rdid = did;
        let mut rargs = args;
        let mut resolved = false;
        let mut shim = None;
        if matches!(tcx.def_kind(did), DefKind::Fn | DefKind::AssocFn | DefKind::Ctor(..) | DefKind::Closure) {
            if let Ok(Some(inst)) = Instance::try_resolve(tcx, typing_env, did, args) {
                rdid = inst.def_id();
                rargs = inst.args;
                resolved = true;
                match inst.def {
                    ty::InstanceKind::Item(_) => {}
                    other => shim = Some(format!("{:?}", other).split('(').next().unwrap_or("").to_string()),
                }
            }
        }
        v.push(("resolved", J::Bool(resolved)));
        let rpath = self.path(rdid);
        v.push(("path", J::s(rpath.clone())));
        if let Some(s) = shim {
            v.push(("shim", J::s(s)));
        }
        v.push(("name", J::opt_s(tcx.opt_item_name(rdid).map(|s| s.to_string()))));
        v.push(("krate", J::s(tcx.crate_name(rdid.krate).to_string())));
        v.push(("local", J::Bool(rdid.is_local())));
        let targs: Vec<J> = rargs
            .iter()
            .filter_map(|a| match a.kind() {
                ty::GenericArgKind::Type(t) => Some(J::s(self.ty_str(t))),
                ty::GenericArgKind::Const(c) => Some(J::s(format!("const {}", c))),
                _ => None,
            })
            .collect();
        v.push(("targs", J::Arr(targs)));
        // the generic args at the declaration (before resolution) — for trait methods the first is Self
        let dargs: Vec<J> = args
            .iter()
            .filter_map(|a| match a.kind() {
                ty::GenericArgKind::Type(t) => Some(J::s(self.ty_str(t))),
                _ => None,
            })
            .collect();
        v.push(("dargs", J::Arr(dargs)));
        // trait of the declaration, impl self of the resolved
        if let Some(tr) = tcx.trait_of_assoc(did) {
            v.push(("trait", J::s(self.path(tr))));
        }
        if matches!(tcx.def_kind(rdid), DefKind::AssocFn) {
            let parent = tcx.parent(rdid);
            if let DefKind::Impl { .. } = tcx.def_kind(parent) {
                let self_ty = tcx.type_of(parent).instantiate_identity().skip_normalization();
                v.push(("impl_self", J::s(self.ty_str(self_ty))));
                if let ty::Adt(d, _) = self_ty.kind() {
                    v.push(("impl_adt", J::s(self.path(d.did()))));
                }
                // self type after substitution
                let inst_self = tcx.type_of(parent).instantiate(tcx, rargs).skip_normalization();
                v.push(("self_ty", J::s(self.ty_str(inst_self))));
            } else if let DefKind::Trait = tcx.def_kind(parent) {
                v.push(("trait_default", J::Bool(true)));
            }
        }
        if matches!(tcx.def_kind(rdid), DefKind::Fn | DefKind::AssocFn) {
            let sig = tcx.fn_sig(rdid).instantiate_identity().skip_normalization().skip_binder();
            let is_unsafe = sig.safety().is_unsafe();
            v.push(("unsafe", J::Bool(is_unsafe)));
            if tcx.intrinsic(rdid).is_some() {
                v.push(("intrinsic", J::Bool(true)));
            }
            if !rdid.is_local() && !self.foreign_fns.contains_key(&rpath) {
                let inputs: Vec<J> = sig.inputs().iter().map(|t| J::s(self.ty_str(*t))).collect();
                let j = J::Obj(vec![
                    ("path", J::s(rpath.clone())),
                    ("krate", J::s(tcx.crate_name(rdid.krate).to_string())),
                    ("unsafe", J::Bool(is_unsafe)),
                    ("inputs", J::Arr(inputs)),
                    ("output", J::s(self.ty_str(sig.output()))),
                ]);
                self.foreign_fns.insert(rpath, j);
            }
        }
        if let DefKind::Ctor(..) = tcx.def_kind(rdid) {
            v.push(("ctor", J::Bool(true)));
        }
        J::Obj(v)
    }

    fn place(&mut self, body: &Body<'tcx>, place: &Place<'tcx>) -> J {
        let tcx = self.tcx;
        let mut proj = Vec::new();
        let mut pty = mir::PlaceTy::from_ty(body.local_decls[place.local].ty);
        for elem in place.projection.iter() {
            match elem {
                ProjectionElem::Deref => proj.push(J::s("*")),
                ProjectionElem::Field(f, fty) => {
                    let mut fv: Vec<(&'static str, J)> = Vec::new();
                    fv.push(("i", J::Int(f.as_u32() as i128)));
                    match pty.ty.kind() {
                        ty::Adt(def, _) => {
                            let variant = match pty.variant_index {
                                Some(vi) => def.variant(vi),
                                None => def.non_enum_variant(),
                            };
                            fv.push(("f", J::s(variant.fields[f].name.to_string())));
                            fv.push(("adt", J::s(self.path(def.did()))));
                            if def.is_union() {
                                fv.push(("union", J::Bool(true)));
                            }
                            if def.is_enum() {
                                fv.push(("variant", J::s(variant.name.to_string())));
                            }
                        }
                        ty::Tuple(_) => {
                            fv.push(("f", J::s(format!("{}", f.as_u32()))));
                            fv.push(("adt", J::s("(tuple)")));
                        }
                        ty::Closure(cdid, _) => {
                            fv.push(("f", J::s(format!("upvar{}", f.as_u32()))));
                            fv.push(("adt", J::s(self.path(*cdid))));
                        }
                        _ => {
                            fv.push(("f", J::s(format!("{}", f.as_u32()))));
                        }
                    }
                    fv.push(("ty", J::s(self.ty_str(fty))));
                    proj.push(J::Obj(fv));
                }
                ProjectionElem::Index(l) => {
                    proj.push(J::Obj(vec![("index", J::Int(l.as_u32() as i128))]));
                }
                ProjectionElem::ConstantIndex { offset, from_end, .. } => {
                    proj.push(J::Obj(vec![
                        ("cindex", J::Int(offset as i128)),
                        ("from_end", J::Bool(from_end)),
                    ]));
                }
                ProjectionElem::Subslice { from, to, from_end } => {
                    proj.push(J::Obj(vec![
                        ("subslice", J::Arr(vec![J::Int(from as i128), J::Int(to as i128)])),
                        ("from_end", J::Bool(from_end)),
                    ]));
                }
                ProjectionElem::Downcast(name, vi) => {
                    let n = match name {
                        Some(n) => n.to_string(),
                        None => format!("{}", vi.as_u32()),
                    };
                    proj.push(J::Obj(vec![("downcast", J::s(n))]));
                }
                ProjectionElem::OpaqueCast(_) => proj.push(J::s("opaque")),
                ProjectionElem::UnwrapUnsafeBinder(_) => proj.push(J::s("unwrap_binder")),
            }
            pty = pty.projection_ty(tcx, elem);
        }
        let mut v = vec![("l", J::Int(place.local.as_u32() as i128))];
        if !proj.is_empty() {
            v.push(("proj", J::Arr(proj)));
        }
        J::Obj(v)
    }

    fn operand(&mut self, body: &Body<'tcx>, typing_env: TypingEnv<'tcx>, op: &Operand<'tcx>) -> J {
        match op {
            Operand::Copy(p) => J::Obj(vec![("k", J::s("copy")), ("p", self.place(body, p))]),
            Operand::Move(p) => J::Obj(vec![("k", J::s("move")), ("p", self.place(body, p))]),
            Operand::Constant(c) => self.constant(typing_env, &c.const_, c.span),
            Operand::RuntimeChecks(rc) => J::Obj(vec![
                ("k", J::s("const")),
                ("ty", J::s("bool")),
                ("runtime_checks", J::s(format!("{:?}", rc))),
            ]),
        }
    }

    fn constant(&mut self, typing_env: TypingEnv<'tcx>, c: &mir::Const<'tcx>, span: Span) -> J {
        let tcx = self.tcx;
        let ty = c.ty();
        let mut v: Vec<(&'static str, J)> = vec![("k", J::s("const")), ("ty", J::s(self.ty_str(ty)))];
        v.push(("tk", J::s(self.ty_kind_tag(ty))));
        if let ty::FnDef(did, args) = ty.kind() {
            v.push(("fn", self.fn_ref(typing_env, *did, args)));
            return J::Obj(v);
        }
        if let ty::Adt(def, _) = ty.kind() {
            v.push(("adt", J::s(self.path(def.did()))));
            if !def.did().is_local() {
                let p = self.path(def.did());
                self.foreign_adts.entry(p).or_insert(def.did());
            }
        }
        // unevaluated: remember which item it names
        match c {
            mir::Const::Unevaluated(uv, _) => {
                v.push(("def", J::s(self.path(uv.def))));
                if let Some(p) = uv.promoted {
                    v.push(("promoted", J::Int(p.as_u32() as i128)));
                }
                // resolve associated consts to the providing item (impl or trait default)
                if uv.promoted.is_none()
                    && matches!(tcx.def_kind(uv.def), DefKind::AssocConst { .. } | DefKind::Const { .. })
                {
                    if let Ok(Some(inst)) = Instance::try_resolve(tcx, typing_env, uv.def, uv.args) {
                        v.push(("rdef", J::s(self.path(inst.def_id()))));
                        let parent = tcx.parent(inst.def_id());
                        if let DefKind::Trait = tcx.def_kind(parent) {
                            v.push(("trait_default", J::Bool(true)));
                        }
                    }
                    let targs: Vec<J> = uv
                        .args
                        .iter()
                        .filter_map(|a| match a.kind() {
                            ty::GenericArgKind::Type(t) => Some(J::s(self.ty_str(t))),
                            _ => None,
                        })
                        .collect();
                    if !targs.is_empty() {
                        v.push(("targs", J::Arr(targs)));
                    }
                }
            }
            mir::Const::Ty(_, ct) => {
                if let ty::ConstKind::Unevaluated(uv) = ct.kind() {
                    v.push(("def", J::s(self.path(uv.def))));
                }
                if let ty::ConstKind::Param(p) = ct.kind() {
                    v.push(("param", J::s(p.name.to_string())));
                }
            }
            mir::Const::Val(..) => {}
        }
        // evaluate
        if let Ok(val) = c.eval(tcx, typing_env, span) {
            self.const_value(&mut v, val, ty);
        }
        J::Obj(v)
    }

    fn const_value(&mut self, v: &mut Vec<(&'static str, J)>, val: mir::ConstValue, ty: Ty<'tcx>) {
        let tcx = self.tcx;
        match val {
            mir::ConstValue::Scalar(mir::interpret::Scalar::Int(si)) => {
                let size = si.size();
                let bits = si.to_bits(size);
                v.push(("bits", J::s(bits.to_string())));
                v.push(("size", J::Int(size.bytes() as i128)));
                let rendered = match ty.kind() {
                    ty::Bool => Some(if bits != 0 { "true".to_string() } else { "false".to_string() }),
                    ty::Float(ty::FloatTy::F32) => Some(format!("{:?}", f32::from_bits(bits as u32))),
                    ty::Float(ty::FloatTy::F64) => Some(format!("{:?}", f64::from_bits(bits as u64))),
                    ty::Uint(_) => Some(bits.to_string()),
                    ty::Int(_) => {
                        let sz = size.bits();
                        let shift = 128 - sz;
                        Some((((bits as i128) << shift) >> shift).to_string())
                    }
                    ty::Char => char::from_u32(bits as u32).map(|c| c.to_string()),
                    ty::Adt(def, _) if def.is_enum() => {
                        let mut found = None;
                        for (vi, discr) in def.discriminants(tcx) {
                            let dsz = size.bits();
                            let mask = if dsz >= 128 { u128::MAX } else { (1u128 << dsz) - 1 };
                            if discr.val & mask == bits {
                                found = Some(def.variant(vi).name.to_string());
                            }
                        }
                        found
                    }
                    _ => None,
                };
                if let Some(r) = rendered {
                    v.push(("val", J::s(r)));
                }
            }
            mir::ConstValue::Scalar(mir::interpret::Scalar::Ptr(..)) => {
                v.push(("ptr", J::Bool(true)));
            }
            mir::ConstValue::ZeroSized => {
                v.push(("zst", J::Bool(true)));
            }
            mir::ConstValue::Slice { .. } => {
                if let Some(bytes) = val.try_get_slice_bytes_for_diagnostics(tcx) {
                    if let Ok(s) = std::str::from_utf8(bytes) {
                        let s: String = s.chars().take(200).collect();
                        v.push(("str", J::s(s)));
                    }
                }
            }
            mir::ConstValue::Indirect { .. } => {
                v.push(("indirect", J::Bool(true)));
            }
        }
    }

    fn rvalue(&mut self, body: &Body<'tcx>, typing_env: TypingEnv<'tcx>, rv: &Rvalue<'tcx>) -> J {
        let tcx = self.tcx;
        let mut v: Vec<(&'static str, J)> = Vec::new();
        match rv {
            Rvalue::Use(op, ..) => {
                v.push(("k", J::s("use")));
                v.push(("op", self.operand(body, typing_env, op)));
            }
            Rvalue::Repeat(op, n) => {
                v.push(("k", J::s("repeat")));
                v.push(("op", self.operand(body, typing_env, op)));
                v.push(("n", J::s(format!("{}", n))));
            }
            Rvalue::Ref(_, bk, place) => {
                v.push(("k", J::s("ref")));
                let m = match bk {
                    mir::BorrowKind::Shared => "shared",
                    mir::BorrowKind::Fake(_) => "fake",
                    mir::BorrowKind::Mut { .. } => "mut",
                };
                v.push(("bk", J::s(m)));
                v.push(("p", self.place(body, place)));
            }
            Rvalue::ThreadLocalRef(did) => {
                v.push(("k", J::s("tls")));
                v.push(("def", J::s(self.path(*did))));
            }
            Rvalue::RawPtr(kind, place) => {
                v.push(("k", J::s("rawptr")));
                v.push(("bk", J::s(format!("{:?}", kind))));
                v.push(("p", self.place(body, place)));
            }
            Rvalue::Cast(kind, op, ty) => {
                v.push(("k", J::s("cast")));
                let ck = match kind {
                    CastKind::PointerCoercion(pc, _) => format!("PointerCoercion:{:?}", pc),
                    other => format!("{:?}", other),
                };
                v.push(("ck", J::s(ck)));
                v.push(("op", self.operand(body, typing_env, op)));
                let from = op.ty(body, tcx);
                v.push(("from", self.ty_json(from)));
                v.push(("to", self.ty_json(*ty)));
                // closure / fn item being coerced to fn pointer
                if let ty::Closure(did, _) = from.kind() {
                    v.push(("closure", J::s(self.path(*did))));
                }
            }
            Rvalue::BinaryOp(op, b) => {
                v.push(("k", J::s("binop")));
                v.push(("op", J::s(format!("{:?}", op))));
                v.push(("a", self.operand(body, typing_env, &b.0)));
                v.push(("b", self.operand(body, typing_env, &b.1)));
                v.push(("aty", J::s(self.ty_str(b.0.ty(body, tcx)))));
            }
            Rvalue::UnaryOp(op, a) => {
                v.push(("k", J::s("unop")));
                v.push(("op", J::s(format!("{:?}", op))));
                v.push(("a", self.operand(body, typing_env, a)));
            }
            Rvalue::Discriminant(place) => {
                v.push(("k", J::s("discr")));
                v.push(("p", self.place(body, place)));
                let pty = place.ty(body, tcx).ty;
                v.push(("ty", J::s(self.ty_str(pty))));
                if let ty::Adt(def, _) = pty.kind() {
                    v.push(("adt", J::s(self.path(def.did()))));
                    if def.is_enum() {
                        let mut vs = Vec::new();
                        for (vi, discr) in def.discriminants(tcx) {
                            vs.push(J::Arr(vec![
                                J::s(discr.val.to_string()),
                                J::s(def.variant(vi).name.to_string()),
                            ]));
                        }
                        v.push(("variants", J::Arr(vs)));
                    }
                }
            }
            Rvalue::Aggregate(kind, ops) => {
                v.push(("k", J::s("agg")));
                match &**kind {
                    AggregateKind::Array(t) => {
                        v.push(("ak", J::s("array")));
                        v.push(("ty", J::s(self.ty_str(*t))));
                    }
                    AggregateKind::Tuple => v.push(("ak", J::s("tuple"))),
                    AggregateKind::Adt(did, vi, args, _, active) => {
                        v.push(("ak", J::s("adt")));
                        v.push(("adt", J::s(self.path(*did))));
                        let def = tcx.adt_def(*did);
                        let variant = def.variant(*vi);
                        v.push(("variant", J::s(variant.name.to_string())));
                        let fields: Vec<J> = match active {
                            Some(f) => vec![J::s(variant.fields[*f].name.to_string())],
                            None => variant.fields.iter().map(|f| J::s(f.name.to_string())).collect(),
                        };
                        v.push(("fields", J::Arr(fields)));
                        let targs: Vec<J> = args.types().map(|t| J::s(self.ty_str(t))).collect();
                        v.push(("targs", J::Arr(targs)));
                        if def.is_enum() {
                            v.push(("enum", J::Bool(true)));
                        }
                    }
                    AggregateKind::Closure(did, _) => {
                        v.push(("ak", J::s("closure")));
                        v.push(("closure", J::s(self.path(*did))));
                    }
                    AggregateKind::RawPtr(..) => v.push(("ak", J::s("rawptr"))),
                    _ => v.push(("ak", J::s("other"))),
                }
                let o: Vec<J> = ops.iter().map(|o| self.operand(body, typing_env, o)).collect();
                v.push(("ops", J::Arr(o)));
            }
            Rvalue::CopyForDeref(place) => {
                v.push(("k", J::s("use")));
                v.push(("op", J::Obj(vec![("k", J::s("copy")), ("p", self.place(body, place))])));
            }
            Rvalue::WrapUnsafeBinder(op, _) => {
                v.push(("k", J::s("use")));
                v.push(("op", self.operand(body, typing_env, op)));
            }
        }
        J::Obj(v)
    }

    // ---------------------------------------------------------------------------------------
    // types

    fn adts(&mut self) -> Vec<J> {
        let tcx = self.tcx;
        let mut out = Vec::new();
        let mut dids: Vec<DefId> = Vec::new();
        for id in tcx.hir_free_items() {
            let did = id.owner_id.to_def_id();
            if matches!(tcx.def_kind(did), DefKind::Struct | DefKind::Enum | DefKind::Union) {
                dids.push(did);
            }
        }
        for did in dids {
            let def = tcx.adt_def(did);
            let mut v: Vec<(&'static str, J)> = Vec::new();
            v.push(("path", J::s(self.path(did))));
            v.push(("loc", self.loc(tcx.def_span(did))));
            v.push(("kind", J::s(if def.is_union() { "union" } else if def.is_enum() { "enum" } else { "struct" })));
            v.push(("vis", J::s(format!("{:?}", tcx.visibility(did)))));
            v.push(("docs", J::s(self.docs(did))));
            let generics = tcx.generics_of(did);
            let gparams: Vec<J> = generics
                .own_params
                .iter()
                .map(|p| J::s(format!("{}:{}", p.name, p.kind.descr())))
                .collect();
            v.push(("generics", J::Arr(gparams)));
            let mut variants = Vec::new();
            for variant in def.variants().iter() {
                let mut fields = Vec::new();
                for f in variant.fields.iter() {
                    let fty = tcx.type_of(f.did).instantiate_identity().skip_normalization();
                    fields.push(J::Obj(vec![
                        ("name", J::s(f.name.to_string())),
                        ("ty", self.ty_json(fty)),
                        ("vis", J::s(format!("{:?}", f.vis))),
                    ]));
                }
                variants.push(J::Obj(vec![
                    ("name", J::s(variant.name.to_string())),
                    ("fields", J::Arr(fields)),
                ]));
            }
            v.push(("variants", J::Arr(variants)));
            // trait queries with identity args
            let self_ty = tcx.type_of(did).instantiate_identity().skip_normalization();
            let typing_env = TypingEnv::post_analysis(tcx, did);
            let mut tq = Vec::new();
            for (name, path) in [
                ("Clone", &["core", "clone", "Clone"][..]),
                ("Copy", &["core", "marker", "Copy"][..]),
                ("Send", &["core", "marker", "Send"][..]),
                ("Sync", &["core", "marker", "Sync"][..]),
                ("Unpin", &["core", "marker", "Unpin"][..]),
                ("Default", &["core", "default", "Default"][..]),
                ("PartialEq", &["core", "cmp", "PartialEq"][..]),
                ("Drop", &["core", "ops", "drop", "Drop"][..]),
            ] {
                if let Some(tr) = self.find_trait(path) {
                    let holds = self.implements(typing_env, self_ty, tr);
                    tq.push((name, J::Bool(holds)));
                }
            }
            tq.push(("Freeze", J::Bool(self_ty.is_freeze(tcx, typing_env))));
            v.push(("traits", J::Obj(tq)));
            // deep interior mutability / pointer walk
            let mut found = Vec::new();
            let mut seen = BTreeSet::new();
            self.deep_walk(typing_env, self_ty, &mut String::new(), &mut found, &mut seen, 0);
            v.push(("deep", J::Arr(found)));
            out.push(J::Obj(v));
        }
        out
    }

    fn find_trait(&self, path: &[&str]) -> Option<DefId> {
        let tcx = self.tcx;
        // lang items first
        let last = *path.last().unwrap();
        let li = tcx.lang_items();
        let cand = match last {
            "Clone" => li.clone_trait(),
            "Copy" => li.copy_trait(),
            "Sync" => li.sync_trait(),
            "Unpin" => li.unpin_trait(),
            "Drop" => li.drop_trait(),
            "PartialEq" => li.eq_trait(),
            _ => None,
        };
        if cand.is_some() {
            return cand;
        }
        match last {
            "Send" => tcx.get_diagnostic_item(rustc_span::sym::Send),
            "Default" => tcx.get_diagnostic_item(rustc_span::sym::Default),
            _ => None,
        }
    }

    fn implements(&self, typing_env: TypingEnv<'tcx>, ty: Ty<'tcx>, tr: DefId) -> bool {
        use rustc_infer::infer::TyCtxtInferExt;
        use rustc_trait_selection::infer::InferCtxtExt;
        let tcx = self.tcx;
        let (infcx, param_env) = tcx.infer_ctxt().build_with_typing_env(typing_env);
        // PartialEq has a type parameter defaulting to Self
        let generics = tcx.generics_of(tr);
        let args: Vec<ty::GenericArg<'tcx>> = if generics.own_params.len() > 0 && generics.count() == 2 {
            vec![ty.into(), ty.into()]
        } else {
            vec![ty.into()]
        };
        infcx.type_implements_trait(tr, args, param_env).must_apply_modulo_regions()
    }

    fn deep_walk(
        &mut self,
        typing_env: TypingEnv<'tcx>,
        ty: Ty<'tcx>,
        trail: &mut String,
        found: &mut Vec<J>,
        seen: &mut BTreeSet<String>,
        depth: usize,
    ) {
        let tcx = self.tcx;
        if depth > 24 {
            return;
        }
        let key = self.ty_str(ty);
        if !seen.insert(key.clone()) {
            return;
        }
        let mut report = |what: &str, trail: &str, found: &mut Vec<J>| {
            found.push(J::Obj(vec![("what", J::s(what)), ("ty", J::s(key.clone())), ("via", J::s(trail))]));
        };
        match ty.kind() {
            ty::Adt(def, args) => {
                let krate = tcx.crate_name(def.did().krate).to_string();
                let is_std = matches!(krate.as_str(), "core" | "alloc" | "std" | "hashbrown");
                if def.is_unsafe_cell() {
                    report("UnsafeCell", trail, found);
                }
                if is_std {
                    if !ty.is_freeze(tcx, typing_env) {
                        report("not-Freeze std type", trail, found);
                    }
                    let p = self.path(def.did());
                    if p.ends_with("::Rc") || p.ends_with("::Arc") || p.contains("sync::Weak") || p.contains("rc::Weak") {
                        report("shared-ownership pointer", trail, found);
                    }
                    for t in args.types() {
                        let l = trail.len();
                        trail.push_str(&format!("<{}>", self.path(def.did())));
                        self.deep_walk(typing_env, t, trail, found, seen, depth + 1);
                        trail.truncate(l);
                    }
                } else {
                    for variant in def.variants().iter() {
                        for f in variant.fields.iter() {
                            let fty = f.ty(tcx, args);
                            let l = trail.len();
                            trail.push_str(&format!(".{}", f.name));
                            self.deep_walk(typing_env, fty, trail, found, seen, depth + 1);
                            trail.truncate(l);
                        }
                    }
                }
            }
            ty::RawPtr(inner, _) => {
                report("raw pointer", trail, found);
                self.deep_walk(typing_env, *inner, trail, found, seen, depth + 1);
            }
            ty::Ref(_, inner, _) => {
                self.deep_walk(typing_env, *inner, trail, found, seen, depth + 1);
            }
            ty::Dynamic(..) => report("dyn", trail, found),
            ty::FnPtr(..) => report("fn pointer", trail, found),
            ty::Array(inner, _) | ty::Slice(inner) => {
                self.deep_walk(typing_env, *inner, trail, found, seen, depth + 1);
            }
            ty::Tuple(ts) => {
                for t in ts.iter() {
                    self.deep_walk(typing_env, t, trail, found, seen, depth + 1);
                }
            }
            ty::Closure(..) => report("closure", trail, found),
            _ => {}
        }
    }

    fn statics(&mut self) -> Vec<J> {
        let tcx = self.tcx;
        let mut out = Vec::new();
        let mut dids = Vec::new();
        for ldid in tcx.hir_body_owners() {
            let did = ldid.to_def_id();
            if let DefKind::Static { mutability, nested, .. } = tcx.def_kind(did) {
                dids.push((did, mutability, nested));
            }
        }
        for (did, mutability, nested) in dids {
            let ty = tcx.type_of(did).instantiate_identity().skip_normalization();
            let typing_env = TypingEnv::fully_monomorphized();
            let mut attrs = Vec::new();
            for a in tcx.get_all_attrs(did) {
                attrs.push(J::s(format!("{:?}", a).chars().take(80).collect::<String>()));
            }
            out.push(J::Obj(vec![
                ("path", J::s(self.path(did))),
                ("loc", self.loc(tcx.def_span(did))),
                ("mut", J::Bool(mutability.is_mut())),
                ("nested", J::Bool(nested)),
                ("ty", J::s(self.ty_str(ty))),
                ("freeze", J::Bool(ty.is_freeze(tcx, typing_env))),
                ("thread_local", J::Bool(tcx.is_thread_local_static(did))),
            ]));
        }
        out
    }

    fn consts(&mut self) -> Vec<J> {
        let tcx = self.tcx;
        let mut out = Vec::new();
        let mut dids = Vec::new();
        for ldid in tcx.hir_body_owners() {
            let did = ldid.to_def_id();
            if matches!(tcx.def_kind(did), DefKind::Const { .. } | DefKind::AssocConst { .. }) {
                dids.push(did);
            }
        }
        for did in dids {
            let ty = tcx.type_of(did).instantiate_identity().skip_normalization();
            let mut v: Vec<(&'static str, J)> = vec![
                ("path", J::s(self.path(did))),
                ("dpath", J::s(tcx.def_path(did).to_string_no_crate_verbose())),
                ("name", J::opt_s(tcx.opt_item_name(did).map(|s| s.to_string()))),
                ("loc", self.loc(tcx.def_span(did))),
                ("ty", J::s(self.ty_str(ty))),
            ];
            if matches!(tcx.def_kind(did), DefKind::AssocConst { .. }) {
                let parent = tcx.parent(did);
                match tcx.def_kind(parent) {
                    DefKind::Impl { of_trait } => {
                        let self_ty = tcx.type_of(parent).instantiate_identity().skip_normalization();
                        v.push(("impl_self", J::s(self.ty_str(self_ty))));
                        if of_trait {
                            let tr = tcx.impl_trait_ref(parent).instantiate_identity().skip_normalization();
                            v.push(("impl_trait", J::s(self.path(tr.def_id))));
                        }
                    }
                    DefKind::Trait => v.push(("in_trait", J::s(self.path(parent)))),
                    _ => {}
                }
            }
            // only evaluate non-generic constants
            let generics = tcx.generics_of(did);
            let has_ty_params = {
                let mut g = Some(generics);
                let mut any = false;
                while let Some(gg) = g {
                    if gg.own_params.iter().any(|p| !matches!(p.kind, ty::GenericParamDefKind::Lifetime)) {
                        any = true;
                    }
                    if gg.has_self {
                        any = true;
                    }
                    g = gg.parent.map(|p| tcx.generics_of(p));
                }
                any
            };
            if !has_ty_params {
                if let Ok(val) = tcx.const_eval_poly(did) {
                    self.const_value(&mut v, val, ty);
                }
                // the initialiser's MIR: rules read table constants (arrays of tuples) from it
                if tcx.is_mir_available(did) || tcx.hir_maybe_body_owned_by(did.expect_local()).is_some() {
                    let body: &Body<'tcx> = tcx.mir_for_ctfe(did);
                    v.push(("mir", self.body(did, body)));
                }
            }
            out.push(J::Obj(v));
        }
        out
    }

    fn impls(&mut self) -> Vec<J> {
        let tcx = self.tcx;
        let mut out = Vec::new();
        let mut dids = Vec::new();
        for id in tcx.hir_free_items() {
            let did = id.owner_id.to_def_id();
            if let DefKind::Impl { of_trait } = tcx.def_kind(did) {
                dids.push((did, of_trait));
            }
        }
        for (did, of_trait) in dids {
            let self_ty = tcx.type_of(did).instantiate_identity().skip_normalization();
            let mut v: Vec<(&'static str, J)> = vec![
                ("id", J::s(self.path(did))),
                ("loc", self.loc(tcx.def_span(did))),
                ("self", self.ty_json(self_ty)),
            ];
            if of_trait {
                let tr = tcx.impl_trait_ref(did).instantiate_identity().skip_normalization();
                v.push(("trait", J::s(self.path(tr.def_id))));
                v.push(("trait_ref", J::s(with_no_trimmed_paths!(tr.print_only_trait_path().to_string()))));
                let header = tcx.impl_trait_header(did);
                v.push(("unsafe", J::Bool(header.safety.is_unsafe())));
                v.push(("negative", J::Bool(matches!(header.polarity, ty::ImplPolarity::Negative))));
            }
            let items: Vec<J> = tcx
                .associated_items(did)
                .in_definition_order()
                .map(|it| J::s(it.name().to_string()))
                .collect();
            v.push(("items", J::Arr(items)));
            let from_exp = tcx.def_span(did).from_expansion();
            v.push(("exp", J::Bool(from_exp)));
            out.push(J::Obj(v));
        }
        out
    }

    fn traits(&mut self) -> Vec<J> {
        let tcx = self.tcx;
        let mut out = Vec::new();
        let mut dids = Vec::new();
        for id in tcx.hir_free_items() {
            let did = id.owner_id.to_def_id();
            if let DefKind::Trait = tcx.def_kind(did) {
                dids.push(did);
            }
        }
        for did in dids {
            let items: Vec<J> = tcx
                .associated_items(did)
                .in_definition_order()
                .map(|it| {
                    J::Obj(vec![
                        ("name", J::s(it.name().to_string())),
                        ("kind", J::s(format!("{:?}", it.kind).split(|c| c == '{' || c == '(').next().unwrap_or("").trim().to_string())),
                        ("has_default", J::Bool(it.defaultness(tcx).has_value())),
                    ])
                })
                .collect();
            out.push(J::Obj(vec![
                ("path", J::s(self.path(did))),
                ("vis", J::s(format!("{:?}", tcx.visibility(did)))),
                ("items", J::Arr(items)),
            ]));
        }
        out
    }

    /// inherent associated constants / functions and variants of foreign ADTs that occur as constant types
    fn foreign_adt_items(&mut self) -> Vec<J> {
        let tcx = self.tcx;
        let mut out = Vec::new();
        let list: Vec<(String, DefId)> = self.foreign_adts.iter().map(|(k, v)| (k.clone(), *v)).collect();
        for (path, did) in list {
            let mut consts = Vec::new();
            let mut fns = Vec::new();
            for imp in tcx.inherent_impls(did).iter() {
                for it in tcx.associated_items(*imp).in_definition_order() {
                    let kind = format!("{:?}", it.kind);
                    if kind.starts_with("Const") {
                        consts.push(J::s(it.name().to_string()));
                    } else if kind.starts_with("Fn") {
                        fns.push(J::s(it.name().to_string()));
                    }
                }
            }
            let def = tcx.adt_def(did);
            let variants: Vec<J> = def.variants().iter().map(|v| J::s(v.name.to_string())).collect();
            out.push(J::Obj(vec![
                ("path", J::s(path)),
                ("consts", J::Arr(consts)),
                ("fns", J::Arr(fns)),
                ("variants", J::Arr(variants)),
            ]));
        }
        out
    }

    fn unsafe_inventory(&mut self) -> Vec<J> {
        let tcx = self.tcx;
        let mut out = Vec::new();
        for ldid in tcx.hir_body_owners() {
            let did = ldid.to_def_id();
            let Some(body) = tcx.hir_maybe_body_owned_by(ldid) else { continue };
            let mut vis = UnsafeVisitor { tcx, blocks: Vec::new() };
            vis.visit_body(body);
            for (span, user) in vis.blocks {
                out.push(J::Obj(vec![
                    ("owner", J::s(self.path(did))),
                    ("loc", self.loc(span)),
                    ("user", J::Bool(user)),
                    ("exp", J::Bool(span.from_expansion())),
                ]));
            }
        }
        out
    }
}

struct UnsafeVisitor<'tcx> {
    #[allow(dead_code)]
    tcx: TyCtxt<'tcx>,
    blocks: Vec<(Span, bool)>,
}

impl<'tcx> Visitor<'tcx> for UnsafeVisitor<'tcx> {
    fn visit_block(&mut self, b: &'tcx hir::Block<'tcx>) {
        if let hir::BlockCheckMode::UnsafeBlock(src) = b.rules {
            self.blocks.push((b.span, matches!(src, hir::UnsafeSource::UserProvided)));
        }
        intravisit::walk_block(self, b);
    }
}

#[allow(dead_code)]
fn _unused(_: Symbol) {}
