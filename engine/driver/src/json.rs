//! Minimal JSON value + writer (no dependencies available offline for a rustc_private crate).
use std::fmt::Write;

#[derive(Clone, Debug)]
pub enum J {
    Null,
    Bool(bool),
    Int(i128),
    Str(String),
    Arr(Vec<J>),
    Obj(Vec<(&'static str, J)>),
}

impl J {
    pub fn s<S: Into<String>>(s: S) -> J {
        J::Str(s.into())
    }
    pub fn opt_s(s: Option<String>) -> J {
        match s {
            Some(s) => J::Str(s),
            None => J::Null,
        }
    }
    pub fn write(&self, out: &mut String) {
        match self {
            J::Null => out.push_str("null"),
            J::Bool(b) => out.push_str(if *b { "true" } else { "false" }),
            J::Int(i) => {
                let _ = write!(out, "{}", i);
            }
            J::Str(s) => write_str(s, out),
            J::Arr(v) => {
                out.push('[');
                for (i, x) in v.iter().enumerate() {
                    if i > 0 {
                        out.push(',');
                    }
                    x.write(out);
                }
                out.push(']');
            }
            J::Obj(v) => {
                out.push('{');
                let mut first = true;
                for (k, x) in v.iter() {
                    if !first {
                        out.push(',');
                    }
                    first = false;
                    write_str(k, out);
                    out.push(':');
                    x.write(out);
                }
                out.push('}');
            }
        }
    }
}

fn write_str(s: &str, out: &mut String) {
    out.push('"');
    for c in s.chars() {
        match c {
            '"' => out.push_str("\\\""),
            '\\' => out.push_str("\\\\"),
            '\n' => out.push_str("\\n"),
            '\r' => out.push_str("\\r"),
            '\t' => out.push_str("\\t"),
            c if (c as u32) < 0x20 => {
                let _ = write!(out, "\\u{:04x}", c as u32);
            }
            c => out.push(c),
        }
    }
    out.push('"');
}
