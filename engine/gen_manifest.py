#!/usr/bin/env python3
"""Regenerates /verif/MANIFEST.json from the table below (kept next to the rule modules so the claim text
and the rules stay together)."""
import json
import os

VERIF = os.path.dirname(os.path.dirname(os.path.abspath(__file__)))

CLAIMS = {}
NA = {}


def claim(pid, technique, text, note, ref):
    CLAIMS[pid] = dict(technique=technique, text=text, note=note, ref=ref)


def na(pid, reason):
    NA[pid] = reason


claim('C01', 'effect analysis over resolved MIR (banned-source reachability, hash-order consumer chase, deep '
      'immutability type walk, seed provenance)',
      'Decides the absence facts the property reduces to: no nondeterminism source, no order-sensitive hash iteration, '
      'no address observation, no interior mutability or const->mut cast on Beatmap, PRNG seeds from inputs only — for '
      'every body and call site of the crate (thorough: all four feature configurations and both dependencies). '
      'Tests can only repeat calls; absence over all call histories is a static fact.',
      'rustc type checker + exported MIR; std float functions deterministic per platform; unsafe code sound (C11); '
      'rosu-map/rosu-mods at locked versions', 'DESIGN.md §5 C01')

claim('C02', 'sibling comparison of entry points over resolved MIR (parameter-use classification + preprocessor sets with dominating guards)',
      'Decides structural necessary clauses: gradual constructor and one-shot calculation of each mode start from the same converted '
      'and preprocessed map (same convert_ref(mode, mods), same &mut Beatmap preprocessors and direct map writes under the same guards); both consult the '
      'same Difficulty settings; gradual count state is written only by its delta function / table; no (x/rate)*rate round trip feeds a truncation; a mode '
      'whose skills read a forward neighbour does not cut the one-shot object list at passed_objects; (catch) the counting mode handed into the shared conversion is write-only there and same-named counters of the regular and the gradual count agree in width and update; both feed each skill under the same conditions and prepare the calculation with the same numeric expressions (skeletons over (difficulty, MAP)). Equality of values per prefix is numeric and not decided.',
      'exported MIR + resolved call graph; helper following bounded at depth 3', 'DESIGN.md §5 C02')
claim('C07', 'sibling decision-tree comparison, arm summaries of GameMode switches, parameter-use classification, provenance of forwarded fields',
      'Decides the dispatch/conversion shape for all entry points, arms and paths: convert_ref/convert_mut path sets equal, '
      'convert()=convert_mut(self); all 16 IGameMode entries convert first with own mode + Difficulty mods; every GameMode arm '
      'in the crate names only its own mode; sibling entries preprocess alike; TryFrom<OsuPerformance> forwards per table; '
      'try_convert_map pairs Borrowed/convert_ref and Owned/convert_mut; every converter call inside the crate takes the caller\'s mods, never a constant; fields the conversion copies verbatim are filled alike by the setters of both builders. Numerical equality follows but is not computed.',
      'exported MIR; GameMode has exactly four variants; forwarding table for TryFrom confirmed by reading', 'DESIGN.md §5 C07')

claim('C05', 'loop classification over MIR natural loops (float-accumulator absorption rule) + may-live guard dataflow with call-graph summaries',
      'Decides two clauses for every loop and every guard site of the crate: float-only-exit loops cannot stall (f32 additive '
      'accumulators need a progress guard; shrink loops need an integer-derived start), and no RefCount guard conflict exists '
      '(RefCell panic); the asserted mania column search over the whole range excluding only prev_pattern is called only where a free column is '
      'established; every clamp(lo, hi) with a non-constant bound has lo <= hi established (dominating comparison, shifted copies of one value, or a non-negative-by-construction upper bound); the mania column bit set is wide enough for the largest column count target_columns can return (interval evaluation over constants). A loop that stalls only above 2^24*step ms is unreachable for the fixture maps. All other panic/hang corners '
      'are numeric and not decided.',
      'IEEE-754 absorption argument; f64 accumulators accepted under the decoder magnitude bound; one frozen guard exception '
      '(find_repetition_interval, acyclic prev chain)', 'DESIGN.md §5 C05')
claim('C12', 'provenance with closure / Option-combinator expansion (clamp reachability), sibling field-map comparison',
      'Decides seven clauses: Performance::state hands over every field of the ScoreState; object counts are read off the converted map only after its in-place rewrites; calculate() = generate_state() + calculator; provided misses and provided combo reach the state only '
      'below min(_, bound) in every mode; the 8 ScoreState conversions are mutually inverse permutations; state(), the write-back of '
      'generate_state() and the single setters agree on one field map (24 rows); no remainder in generate_state takes the misses off the object count '
      'more than once (linear forms over object count and clamped misses). The rest of the remainder arithmetic is not decided.',
      'exported MIR; closures and Option::{map_or, map_or_else, unwrap_or_else, ...} interpreted by the rule library', 'DESIGN.md §5 C12')

claim('C10', 'per-configuration type check + configuration-independent body fingerprints (resolved callees/constants/kinds) + guard dataflow under both RefCount bodies',
      'Decides the structural part: all four feature combinations build; every body that differs between configurations lies inside '
      'util::strains_vec / util::sync (a cfg(feature)/cfg!(feature) elsewhere shows up as a differing fingerprint of the resolved '
      'program, not as a grep hit); guard discipline is identical and conflict-free under RefCell and RwLock; both push bodies normalise alike and record one '
      'section per call; sum / iter / into_vec / clone of both bodies traverse the whole list; nobody asks len()/iter() after a shrink that leaves the compact body\'s separate count stale (within a function, or across calls for a list kept in a field); what differs inside util::sync is a straight-line wrapper of the primitive only. The default-feature suite '
      'never compiles the other three configurations. Numerical equivalence of the two StrainsVec bodies is NOT decided.',
      'cargo +nightly check per configuration; fingerprint ignores local types and generic arguments by design', 'DESIGN.md §5 C10')
claim('C11', 'unsafe-operation inventory from MIR with one obligation rule per kind: typestate dataflow, dominating-guard facts, who-may-write index, call-graph reachability, provenance',
      'Every unsafe operation in user-written unsafe code (17 in the default build) is matched to a rule and the obligation is checked at the '
      'site on all paths; unknown kinds are reported; every borrow source of a lifetime-extended value lives in the same struct and the owner is frozen in the constructor once the lifetime is extended. Two obligations (count<=len in copy_slice, Vec<StrainsEntry>~Vec<f64> layout) are '
      'recorded as assumed, which is why the level is `other` and not proof. Miri-style tests only see executed paths; these rules '
      'quantify over all paths, callers and configurations.',
      'Safety contracts as written in the source; Rust aliasing model; compiler-generated unsafe is trusted', 'DESIGN.md §5 C11')

claim('C03', 'provenance of the receiver chain in nth() and of the constructor arguments',
      'Decides the flow clauses: gradual performance constructors build the inner gradual difficulty from exactly (difficulty, map); nth(state, n) '
      'feeds n to the inner iterator, the caller state unmodified into .state(), the captured Difficulty into .difficulty() and the prefix '
      'attributes into .performance(); the inner gradual difficulty feeds the skills as the one-shot calculation does and is prepared with the same numeric expressions. Equality with the one-shot value is numeric and not decided.',
      'exported MIR; next/last delegation is checked by C15-R1', 'DESIGN.md §5 C03')
claim('C04', 'provenance of attribute sources, who-may-write on calculator attributes, pass-through check of 32 conversions',
      'Decides the flow clauses: Map-case attributes come from self.difficulty.calculate_for_mode::<own mode>(own map); the attributes embedded in a '
      'result are the unmodified calculator input and reach the calculator untouched; every attribute-to-builder conversion passes attrs / attrs.difficulty '
      'through untouched and every map-to-builder conversion hands the map over as given (no conversion before the mods are known); the map/attributes slot is never moved out with mem::take/replace/swap; '
      'no difficulty entry point returns attributes that did not go through the calculation. Numeric equality of the two paths is not decided.', 'exported MIR', 'DESIGN.md §5 C04')
claim('C06', 'call-graph-scoped decoder discipline: bounded-parse dominance, clamp provenance, tandem-sort pairing, who-may-write on control point vectors, panic-API reachability',
      'Decides the decoder discipline on every function reachable from the 11 parse_* methods and From<BeatmapState>: raw primitive parses are bound-tested '
      'before use, the documented clamps are present on the produced fields and no clamp is fed by the NaN-tolerant parse without a NaN-excluding fact, objects and sounds are permuted by one time-comparator sorter on every path through the constructor and pushed in '
      'pairs, control point vectors change only through the binary-search add, no explicit panic API, entry points are pure delegations (or the same decode over a reader built from the parameter alone). '
      'Arithmetic Assert terminators and rosu-map internals are not covered.',
      'rosu-map 0.2.1 line driver and ParseNumber trusted', 'DESIGN.md §5 C06')
claim('C08', 'arm summaries of representation matches with identifiers resolved against rosu-mods\' own constant table; who-may-call / who-may-read',
      'Decides that the three mod representations answer alike arm by arm (14 has-mod accessors, 29 key-mod rows, HardRock reflection; legacy `false` allowed '
      'iff GameModsLegacy has no such flag), that no accessor lets the iteration order of the mod collection decide between mutually exclusive mod '
      'families (rate mods, HR/EZ), that mod-derived clock rate / attribute values are reachable only through the override-aware getters, and that every attribute-builder chain a calculator drives to build()/hit_windows() goes through .difficulty(..) with no setting setter before it, and that the representation of GameMods is inspected only inside model::mods. '
      'Numerical equality and lazer per-mod settings are not decided.', 'rosu-mods 0.3.1 semantics of contains/contains_intermode', 'DESIGN.md §5 C08')
claim('C14', 'provenance of is_convert in every attribute construction (interprocedural through helpers) + who-may-write on Beatmap.is_convert',
      'Decides the is_convert clause (attributes report exactly the converted map\'s flag and only the converters set it, each with its own mode and on every path through the converter) and four counting-shape clauses: osu! kinds '
      'are counted by exactly one counter each and alike in both paths, passed_objects(n) records and returns n, mania hold notes are counted by object kind alone (path by path), the taiko one-shot counter sees every object its iterator yields (adaptor in front of every truncation, or counted on every path from next() to a return). '
      'All other counting clauses are arithmetic over runtime values and not decided.', 'exported MIR', 'DESIGN.md §5 C14')
claim('C15', 'delegation shape check (single call, parameter pass-through, constants) and arm summaries of the enum wrappers',
      'Decides the delegation clauses: next = nth(0), last = nth(usize::MAX), len = inner len, 24 wrapper arms forward to the same-named payload method '
      'and re-wrap in their own variant, size_hint = (len, Some(len)); len() consults every collection whose emptiness ends next() and measures the collection '
      'that terminates it; nth past the end is a guarded None; the caller\'s n enters overflow-capable arithmetic only after being bounded; the bulk step of nth() feeds the same skills as next() under the same conditions; nth\'s n >= len() branch drains or jumps exactly to the end len() measures; helper parameters are asked with positions or step counts, never both; a performance nth() answers None only through the inner iterator. '
      'nth(n) = n+1 nexts is not decided. One known finding (taiko len/next mismatch on tiny maps).', 'exported MIR', 'DESIGN.md §5 C15')
claim('C16', 'evaluated associated constants at use sites (loop step of the section accumulator), provenance of exported peaks, sibling preprocessing rule',
      'Decides: the section length each of the 9 skills really advances by equals its mode\'s published SECTION_LEN (inherent shadowing resolved by rustc, '
      'not by name); export and aggregation both close the open section through get_current_strain_peaks; strains() runs the same '
      'DifficultyValues::calculate on the same preprocessed map as difficulty(); the section operations of every process() depend on object times and the section end only, never on the skill\'s own strain state; whoever feeds several skills feeds them under the same conditions; difficulty() and strains() hand shared callees the same numeric expressions. Finiteness and the numeric re-aggregation identity are not decided.',
      'exported MIR + const evaluation', 'DESIGN.md §5 C16')
claim('C17', 'provenance from builder output to calculator fields; setter/getter/output slot triangle by read-set of self fields',
      'Decides the flow clauses: build() embeds hit_windows(); calculators copy AR/HP/hit windows from the builder configured with the converted map and '
      'the Difficulty parameter; the builder\'s difficulty() takes every value from the same-named getter; each public setter feeds exactly the public '
      'output of its name; HR/EZ-dependent scaling of a slot value happens only where that slot\'s with_mods() is known false; no difficulty entry point returns attributes that skipped the calculation; the OD accessor of the osu! attributes is the builder\'s conversion of the hit window. '
      'Monotonicity / numeric round trip / HR-EZ ordering are not decided.', 'exported MIR', 'DESIGN.md §5 C17')
claim('C18', 'struct-delta provenance of setters, arm summaries of 92 dispatch arms against tcx method tables, doc-table parsing, field-map comparison',
      'Decides: all 31 mode setters forward their own parameters to the same-named Difficulty setter; every Performance enum arm forwards per rename table or '
      'is a no-op exactly when the payload type has no such method; clamp constants equal every documented Minimum/Maximum table; inspect / '
      'into_difficulty are field-complete; setter, getter and inspect agree on one private slot; calculators configure attribute builders through .difficulty(..) with no setting setter before it; a setting whose Performance arm is a no-op for a mode is never read by that mode\'s code. "Irrelevant setter leaves result untouched" beyond the '
      'no-op arms is not decided.', 'doc comments as the documented bounds', 'DESIGN.md §5 C18')
claim('C19', 'who-may-write, dominator/post-dominator pairing of sibling vector edits, must-pass-through to a time sort',
      'Decides the structural part: catch convert touches only mode/is_convert; taiko convert edits objects and sounds in lock-step (same multiset, same paths, '
      'same positions); all four hit_objects rewriters sort by start_time before returning; effect points change only through add; the range helpers of the conversion RNG are min + U*(max-min). Column bounds, '
      'durations and key-count range are not decided.', 'exported MIR', 'DESIGN.md §5 C19')
claim('C20', 'absence of shared mutable state (effect scan), auto-trait table from rustc\'s trait solver in both sync settings, signature scan for handle escape, compile_fail witnesses (thorough)',
      'Decides: no static mut / non-Freeze static / thread-local / lazy global / unsafe impl Send|Sync / thread use; value types are Send+Sync, osu/catch/mania '
      'gradual types Send, taiko gradual types !Send without sync and Send with it; no RefCount/Weak/guard type appears in a public signature so the graph '
      'moves as a whole; guard discipline excludes self-deadlock under RwLock. Schedules are irrelevant once these hold.',
      'rustc Send/Sync checking; std Rc/RefCell/Arc/RwLock', 'DESIGN.md §5 C20')

PENDING = ['C02', 'C03', 'C04', 'C05', 'C06', 'C07', 'C08', 'C10', 'C11', 'C12', 'C14', 'C15', 'C16', 'C17', 'C18',
           'C19', 'C20']

na('C09', 'finiteness / sign of floating-point results quantifies over runtime values; no structural clause that is a '
          'necessary condition and exact (a division/ln guard lint fires on guarded-by-construction code)')
na('C13', 'optimality of an integer search over runtime values; needs enumeration or proof over values, not code shape')


def build():
    try:
        import manifest_table  # optional overrides written by later steps
        manifest_table.apply(claim, na, PENDING)
    except ImportError:
        pass
    checks = []
    for pid in sorted(CLAIMS):
        c = CLAIMS[pid]
        checks.append({
            'property_id': pid,
            'quick_cmd': './check %s --tier quick' % pid,
            'thorough_cmd': './check %s --tier thorough' % pid,
            'evidence_file': 'evidence/%s.json' % pid,
            'replay_cmd_template': './check %s --replay {path}' % pid,
            'engine': 'static-rules',
            'level_claimed': {'category': 'other', 'text': c['text'], 'design_ref': c['ref']},
            'level_note': c['note'],
            'technique': c['technique'],
        })
    nas = [{'property_id': p, 'reason': r} for p, r in sorted(NA.items())]
    for p in PENDING:
        if p not in CLAIMS and p not in NA:
            nas.append({'property_id': p, 'reason': 'static rules for this property are designed (DESIGN.md §5) but not yet '
                                                    'implemented in this commit; not claimed until the check exists'})
    nas.sort(key=lambda x: x['property_id'])
    m = {
        'version': 1,
        'setup_cmd': 'cd engine/driver && CARGO_NET_OFFLINE=true cargo +nightly build --offline',
        'hooks': {
            'guard': 'none',
            'enable': 'no hooks: the analysis reads the type-checked program through a rustc_private driver '
                      '(RUSTC_WORKSPACE_WRAPPER under cargo +nightly check); /repo carries only fix: commits',
            'baseline_off_cmd': 'cd /repo && cargo test --workspace --no-fail-fast --offline',
            'source_commits': [],
            'add_only': True,
        },
        'engines': [
            {'name': 'rpp-facts', 'path': 'engine/driver', 'serves_properties': sorted(CLAIMS),
             'kind_free_text': 'rustc_private driver exporting HIR/MIR facts (resolved callees, constants, types, traits, '
                               'unsafe inventory) as JSON per feature configuration'},
            {'name': 'static-rules', 'path': 'engine/rules', 'serves_properties': sorted(CLAIMS),
             'kind_free_text': 'python rule library over exported MIR: CFG/dominators, provenance, arm summaries, guard '
                               'liveness, typestate, who-may-call/write, sibling comparison; positive-control fixture crate'},
        ],
        'checks': checks,
        'not_applicable': nas,
        'notes': 'Technique family: static analysis only. All claims are level "other": every instance of the named '
                 'structural rules is discharged on the current tree; the behaviour itself is not proved. See DESIGN.md.',
    }
    with open(os.path.join(VERIF, 'MANIFEST.json'), 'w') as fh:
        json.dump(m, fh, indent=1)
        fh.write('\n')


if __name__ == '__main__':
    build()
