"""Pretty printer for exported MIR (debugging + report snippets)."""


def place(p):
    s = '_%d' % p['l']
    for e in p.get('proj', []):
        if e == '*':
            s = '(*%s)' % s
        elif isinstance(e, str):
            s = '%s as %s' % (s, e)
        elif 'f' in e:
            s = '%s.%s' % (s, e['f'])
        elif 'index' in e:
            s = '%s[_%d]' % (s, e['index'])
        elif 'cindex' in e:
            s = '%s[%s%d]' % (s, '-' if e.get('from_end') else '', e['cindex'])
        elif 'downcast' in e:
            s = '(%s as %s)' % (s, e['downcast'])
        elif 'subslice' in e:
            s = '%s[%s..%s]' % (s, e['subslice'][0], e['subslice'][1])
    return s


def operand(o):
    k = o['k']
    if k in ('copy', 'move'):
        return ('move ' if k == 'move' else '') + place(o['p'])
    if 'fn' in o:
        return 'fn ' + o['fn']['path']
    if 'val' in o:
        return 'const %s: %s' % (o['val'], o['ty'])
    if 'str' in o:
        return 'const %r' % o['str']
    if 'def' in o:
        return 'const {%s}: %s' % (o['def'], o['ty'])
    return 'const ?: %s' % o['ty']


def rvalue(r):
    k = r['k']
    if k == 'use':
        return operand(r['op'])
    if k == 'ref':
        return '&%s%s' % ('mut ' if r['bk'] == 'mut' else '', place(r['p']))
    if k == 'rawptr':
        return '&raw %s %s' % (r['bk'], place(r['p']))
    if k == 'cast':
        return '%s as %s (%s)' % (operand(r['op']), r['to']['s'], r['ck'])
    if k == 'binop':
        return '%s(%s, %s)' % (r['op'], operand(r['a']), operand(r['b']))
    if k == 'unop':
        return '%s(%s)' % (r['op'], operand(r['a']))
    if k == 'discr':
        return 'discriminant(%s)' % place(r['p'])
    if k == 'agg':
        ak = r['ak']
        ops = [operand(o) for o in r['ops']]
        if ak == 'adt':
            fs = r['fields']
            return '%s::%s { %s }' % (r['adt'], r['variant'], ', '.join('%s: %s' % (f, o) for f, o in zip(fs, ops)))
        if ak == 'closure':
            return 'closure %s [%s]' % (r['closure'], ', '.join(ops))
        return '%s(%s)' % (ak, ', '.join(ops))
    if k == 'repeat':
        return '[%s; %s]' % (operand(r['op']), r['n'])
    if k == 'tls':
        return 'tls %s' % r['def']
    return k


def stmt(s):
    k = s['k']
    if k == 'assign':
        return '%s = %s' % (place(s['p']), rvalue(s['rv']))
    if k == 'live':
        return 'StorageLive(_%d)' % s['l']
    if k == 'dead':
        return 'StorageDead(_%d)' % s['l']
    if k == 'setdiscr':
        return 'discriminant(%s) = %d' % (place(s['p']), s['variant'])
    return k


def term(t):
    k = t['k']
    if k == 'goto':
        return 'goto bb%d' % t['target']
    if k == 'switch':
        return 'switchInt(%s) -> [%s, otherwise: bb%d]' % (
            operand(t['discr']), ', '.join('%s: bb%d' % (v, b) for v, b in t['targets']), t['otherwise'])
    if k == 'call':
        f = t['func']
        name = f.get('path') or ('indirect ' + f.get('ty', ''))
        tgt = 'bb%d' % t['target'] if t.get('target') is not None else 'diverge'
        return '%s = %s(%s) -> %s' % (place(t['dest']), name, ', '.join(operand(a) for a in t['args']), tgt)
    if k == 'drop':
        return 'drop(%s) -> bb%d' % (place(t['p']), t['target'])
    if k == 'assert':
        return 'assert(%s == %s, %s) -> bb%d' % (operand(t['cond']), t['expected'], t['kind'], t['target'])
    return k


def fn(f, cleanup=False):
    out = ['fn %s  [%s]' % (f.path, f.where())]
    names = f.local_names()
    for i, l in enumerate(f.locals):
        tag = 'arg' if 1 <= i <= f.argc else ('ret' if i == 0 else 'let')
        out.append('    %s _%d: %s%s' % (tag, i, l['s'], ('  // ' + names[i]) if i in names else ''))
    for bi, b in enumerate(f.blocks):
        if b['cleanup'] and not cleanup:
            continue
        out.append('  bb%d:%s' % (bi, ' (cleanup)' if b['cleanup'] else ''))
        for s in b['s']:
            if s['k'] in ('live', 'dead'):
                continue
            out.append('    %s;    // %s' % (stmt(s), s.get('ln', '')))
        out.append('    %s;    // %s' % (term(b['t']), b['t'].get('ln', '')))
    return '\n'.join(out)


if __name__ == '__main__':
    import sys
    import facts
    F = facts.load(sys.argv[1])
    for pat in sys.argv[2:]:
        for f in F.fn_matching(pat):
            print(fn(f))
            print()
