"""Resolved call graph over the crate's bodies (closures are called by the function that constructs them)."""
from facts import callee_path


class CallGraph:
    def __init__(self, F):
        self.F = F
        self.succ = {}
        self.pred = {}
        for fn in F.fns:
            outs = set()
            for bi, t in fn.calls():
                p = callee_path(t)
                if t['func'].get('local') and p:
                    outs.add(p)
                # unresolved trait-method calls on a generic Self: add every local impl of that method
                if not t['func'].get('resolved') and t['func'].get('trait'):
                    name = t['func'].get('name')
                    tr = t['func'].get('trait')
                    for g in F.fns:
                        if g.name == name and g.impl_trait == tr:
                            outs.add(g.path)
                for a in t['args']:
                    if a.get('k') == 'const' and 'fn' in a and a['fn'].get('local'):
                        outs.add(a['fn']['path'])
            for bi, si, s in fn.assigns():
                rv = s['rv']
                if rv['k'] == 'agg' and rv.get('ak') == 'closure':
                    outs.add(rv['closure'])
                for key in ('op',):
                    o = rv.get(key)
                    if isinstance(o, dict) and o.get('k') == 'const' and 'fn' in o and o['fn'].get('local'):
                        outs.add(o['fn']['path'])
            self.succ[fn.path] = outs
            for o in outs:
                self.pred.setdefault(o, set()).add(fn.path)

    def reachable_from(self, roots, stop=()):
        stop = set(stop)
        seen = set(roots)
        st = list(roots)
        while st:
            x = st.pop()
            if x in stop:
                continue
            for y in self.succ.get(x, ()):
                if y not in seen:
                    seen.add(y)
                    st.append(y)
        return seen

    def reaching(self, targets):
        """all functions from which one of `targets` is reachable (inclusive)"""
        seen = set(targets)
        st = list(targets)
        while st:
            x = st.pop()
            for y in self.pred.get(x, ()):
                if y not in seen:
                    seen.add(y)
                    st.append(y)
        return seen


_CG = {}


def of(F):
    g = _CG.get(id(F))
    if g is None:
        g = CallGraph(F)
        _CG[id(F)] = g
    return g
