"""Inventory of operations that need `unsafe`, from MIR (C11)."""
from common import is_pointer_check_noise
from facts import callee_path


def in_user_unsafe(F, fn, line):
    """is (fn, line) inside a user-written unsafe block of fn, or is fn an unsafe fn?"""
    if fn.is_unsafe:
        return True
    for u in F.unsafe_blocks:
        if u['owner'] == fn.path and u['user'] and u['loc'][1] <= line <= u['loc'][2]:
            return True
    return False


def place_unsafe_kinds(fn, p):
    out = []
    ty = fn.locals[p['l']]
    cur_kind = ty.get('k')
    for e in p.get('proj', []):
        if e == '*':
            if cur_kind in ('rawconst', 'rawmut'):
                out.append('raw-deref')
            cur_kind = None
        elif isinstance(e, dict):
            if e.get('union'):
                out.append('union-field:%s.%s' % (e.get('adt'), e.get('f')))
            t = e.get('ty', '')
            cur_kind = 'rawmut' if t.startswith('*mut ') else ('rawconst' if t.startswith('*const ') else None)
    return out


def places_of_stmt(s):
    ps = [s['p']]
    rv = s['rv']
    for key in ('op', 'a', 'b'):
        o = rv.get(key)
        if isinstance(o, dict) and o.get('k') in ('copy', 'move'):
            ps.append(o['p'])
    if 'p' in rv and isinstance(rv['p'], dict):
        ps.append(rv['p'])
    for o in rv.get('ops', []) or []:
        if o.get('k') in ('copy', 'move'):
            ps.append(o['p'])
    return ps


def inventory(F):
    """list of dict(fn, kind, detail, line, bb, term|stmt, user)"""
    out = []
    for fn in F.fns:
        for bi, b in enumerate(fn.blocks):
            if b['cleanup']:
                continue
            for si, s in enumerate(b['s']):
                if s['k'] != 'assign':
                    continue
                line = s.get('ln', 0)
                rv = s['rv']
                if rv['k'] == 'cast' and rv['ck'] == 'Transmute' and not is_pointer_check_noise(fn, bi, s):
                    out.append(dict(fn=fn, kind='transmute', detail='%s -> %s' % (rv['from']['s'], rv['to']['s']), line=line,
                                    bb=bi, stmt=s, idx=si))
                for p in places_of_stmt(s):
                    for k in place_unsafe_kinds(fn, p):
                        out.append(dict(fn=fn, kind=k.split(':')[0], detail=k, line=line, bb=bi, stmt=s, idx=si))
            t = b['t']
            if t['k'] == 'call':
                f = t['func']
                line = t.get('ln', 0)
                if f.get('unsafe') and not f.get('intrinsic_safe'):
                    out.append(dict(fn=fn, kind='unsafe-call', detail=callee_path(t), line=line, bb=bi, term=t,
                                    exp=t.get('exp', False)))
                for a in t['args']:
                    if a.get('k') in ('copy', 'move'):
                        for k in place_unsafe_kinds(fn, a['p']):
                            out.append(dict(fn=fn, kind=k.split(':')[0], detail=k, line=line, bb=bi, term=t))
            elif t['k'] == 'asm':
                out.append(dict(fn=fn, kind='asm', detail='inline asm', line=t.get('ln', 0), bb=bi, term=t))
    for o in out:
        o['user'] = in_user_unsafe(F, o['fn'], o['line'])
    return out
