"""Helpers shared by the property rule modules."""
import re

import prov
from facts import callee_path, callee_name

BEATMAP = 'model::beatmap::Beatmap'
DIFFICULTY = 'any::difficulty::Difficulty'
GAMEMODS = 'model::mods::GameMods'
MODES = ['osu', 'taiko', 'catch', 'mania']
MODE_MARKER = {'osu': 'osu::Osu', 'taiko': 'taiko::Taiko', 'catch': 'catch::Catch', 'mania': 'mania::Mania'}
MODE_VARIANT = {'osu': 'Osu', 'taiko': 'Taiko', 'catch': 'Catch', 'mania': 'Mania'}
CAP = {'osu': 'Osu', 'taiko': 'Taiko', 'catch': 'Catch', 'mania': 'Mania'}


def loc_of(fn, line=None):
    return fn.where(line)


def term_loc(fn, t):
    return fn.where(t.get('ln'))


def is_pointer_check_noise(fn, bb, stmt):
    """debug builds add `ptr as *const () ; as usize (Transmute)` feeding misaligned / null
    asserts before every raw pointer dereference; these are compiler-inserted."""
    t = fn.blocks[bb]['t']
    if t['k'] == 'assert' and t['kind'] in ('misaligned', 'nullptr'):
        rv = stmt['rv']
        if rv['k'] == 'cast':
            to = rv['to']['s']
            frm = rv['from']['s']
            if to == 'usize' and frm == '*const ()':
                return True
            if to == '*const ()' and rv['ck'] == 'PtrToPtr':
                return True
    return False


def type_mentions(fn):
    """all type strings mentioned by a body's locals"""
    for l in fn.locals:
        yield l['s']


def all_calls(F, include_expansion=True):
    for fn in F.fns:
        for bi, t in fn.calls():
            if not include_expansion and t.get('exp'):
                continue
            yield fn, bi, t


def fn_of_mode_trait(F, mode, method):
    """the function implementing IGameMode::<method> for the marker type of `mode`"""
    marker = MODE_MARKER[mode]
    for f in F.fns:
        if f.kind == 'AssocFn' and f.name == method and f.impl_trait == 'model::mode::IGameMode' \
                and f.self_adt == marker:
            return f
    return None


def follow_delegation(F, fn, maxdepth=3):
    """follow one-call wrapper functions (a body whose return value is the result of a single
    call of a local function with the parameters passed through) to the function doing the work"""
    cur = fn
    for _ in range(maxdepth):
        calls = [(bi, t) for bi, t in cur.calls()]
        local_calls = [(bi, t) for bi, t in calls if t['func'].get('local')]
        if len(calls) == 1 and len(local_calls) == 1:
            tgt = F.fn(callee_path(local_calls[0][1]))
            if tgt is None:
                return cur
            cur = tgt
        else:
            return cur
    return cur


def leaves(v):
    for n in prov.walk(v):
        if n[0] in ('param', 'const', 'unknown', 'rec'):
            yield n


def find_calls(v, pred):
    return [n for n in prov.walk(v) if n[0] == 'call' and pred(n)]


def has_node(v, pred):
    for n in prov.walk(v):
        if pred(n):
            return True
    return False


def path_matches(path, *regexes):
    return any(re.search(r, path) for r in regexes)


def as_param_path(v, through_calls=True):
    """(param index, (field, ...)) if v is a (possibly cloned / mutably borrowed) projection of a parameter"""
    path = []
    while True:
        k = v[0]
        if k == 'param':
            return v[1], tuple(reversed(path))
        if k == 'field':
            path.append(v[2])
            v = v[1]
        elif k == 'variant':
            path.append('as ' + v[2])
            v = v[1]
        elif k == 'mut':
            v = v[1]
        elif k == 'update':
            # an update that does not touch the projected path is transparent; callers project first
            v = v[1]
        elif k == 'call' and through_calls and v[1].get('name') in prov.TRANSPARENT_NAMES and v[2]:
            v = v[2][0]
        elif k == 'cast' and v[1] in ('Transmute', 'PtrToPtr') and through_calls:
            v = v[2]          # Box<[T]> deref lowering: NonNull -> *const cast of the pointer field
        else:
            return None


def mode_mentions(text):
    """modes named by a path / type string"""
    out = set()
    for m in re.finditer(r'(?<![A-Za-z0-9_])(osu|taiko|catch|mania)::', text):
        out.add(m.group(1))
    for m in re.finditer(r'(?<![A-Za-z0-9_])(Osu|Taiko|Catch|Mania)(?=[A-Z]\w*|\b)', text):
        out.add(m.group(1).lower())
    return out


def delta_fields(v, self_param=1):
    """for a value derived from parameter `self_param` (struct update `Self { f: x, ..self }` or field
    assignment followed by returning self): {field: new value}; None if v is not derived from it"""
    v = prov.strip(v, names={'clone'})
    if v[0] == 'param' and v[1] == self_param:
        return {}
    if v[0] == 'update':
        base = delta_fields(v[1], self_param)
        if base is None:
            return None
        out = dict(base)
        for p, x in v[2].items():
            if len(p) == 1:
                out[p[0]] = x
            else:
                out['.'.join(p)] = x
        return out
    if v[0] == 'mut':
        return delta_fields(v[1], self_param)
    if v[0] == 'agg' and v[1] == 'adt':
        out = {}
        derived = False
        for f, x in v[4].items():
            pp = as_param_path(x, through_calls=False)
            if pp == (self_param, (f,)):
                derived = True
                continue
            out[f] = x
        return out if derived or not v[4] else (out if len(out) < len(v[4]) else None)
    return None
