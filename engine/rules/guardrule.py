"""Shared rule: guard discipline of RefCount (C05-R2, C10-R3, C20-R4)."""
import guards

# confirmed exception, frozen with its reason (DESIGN §5 C10-R3)
EXCEPTIONS = [
    dict(ty_suffix='RepeatingHitPatterns', callee_suffix='RepeatingHitPatterns::find_repetition_interval', mode='R',
         reason='find_repetition_interval runs under W(RepeatingHitPatterns) of the pattern being finished and takes R only on '
                'earlier patterns through the `prev` chain, which is acyclic by construction (RepeatingHitPatterns::new(prev) '
                'only ever receives the previously created pattern)'),
]


def check(ctx, F, rule, tag=''):
    S = guards.Summaries(F)
    nsites = nw = 0
    nconf = 0
    rec = 0
    for fn in F.fns:
        sites, conflicts = guards.analyse(F, fn, S)
        if sites:
            ctx.saw(fn)
        nsites += len(sites)
        nw += sum(1 for s in sites if s['mode'] == 'W')
        for c in conflicts:
            if c['kind'].startswith('recursive-read'):
                rec += 1
                continue
            exc = None
            if c['kind'] == 'call':
                for e in EXCEPTIONS:
                    if c['ty'].endswith(e['ty_suffix']) and c.get('callee', '').endswith(e['callee_suffix']) and c['mode'] == e['mode']:
                        exc = e
            key = '%s%s:%s:%s(%s)' % (tag, fn.path, c['kind'], c['mode'], c['ty'].split('::')[-1])
            if exc:
                ctx.ok(rule, key + ':exception', 'frozen exception: ' + exc['reason'], fn.where(c['line']))
                continue
            nconf += 1
            held = ', '.join('%s(%s) taken at line %s' % (h[0], h[1].split('::')[-1], h[2]) for h in c['held'])
            if c['kind'] == 'acquire':
                what = '%s guard of %s requested' % ('write' if c['mode'] == 'W' else 'read', c['ty'])
            else:
                what = 'call of %s, which may take a %s guard of %s,' % (c.get('callee'), 'write' if c['mode'] == 'W' else 'read', c['ty'])
            ctx.violation(rule, key, '%s while %s may still be live: RefCell panics (BorrowMutError) / RwLock self-deadlocks'
                          % (what, held), fn.where(c['line']))
    ctx.ok(rule, tag + 'scan', '%d RefCount::get/get_mut sites (%d get_mut) analysed with may-live guard dataflow + callee '
           'summaries: %d conflicts; %d read-under-read nestings recorded (allowed by RefCell; see assumptions)'
           % (nsites, nw, nconf, rec))
    return nsites, nw


def controls(ctx, fx, rule):
    S = guards.Summaries(fx)
    res = {}
    for fn in fx.fns:
        if not fn.path.startswith('c05::'):
            continue
        sites, conflicts = guards.analyse(fx, fn, S)
        res[fn.path] = [c for c in conflicts if not c['kind'].startswith('recursive-read')]
    ctx.control(rule, any(c['kind'] == 'acquire' for c in res.get('c05::conflict_direct', [])), 'get_mut while get guard live')
    ctx.control(rule, any(c['kind'] == 'call' for c in res.get('c05::conflict_call', [])), 'callee reads while caller holds write guard')
    ctx.control(rule, any(c['kind'] == 'call' for c in res.get('c05::conflict_closure', [])), 'closure acquires W while R live')
    ctx.control(rule, res.get('c05::ok_sequential') == [], 'negative control: sequential guard scopes accepted')
