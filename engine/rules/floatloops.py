"""Float-accumulator loop analysis (C05-R1).

For every natural loop whose exits are all decided by floating point comparisons, find the
accumulator place(s) the exit test reads, classify their in-loop updates (additive with a
loop-invariant step, multiplicative shrink) and look for a progress guard."""
import pp
import prov

CMP = ('Lt', 'Le', 'Gt', 'Ge', 'Eq', 'Ne')


def place_key(p):
    return pp.place(p)


class LoopInfo:
    def __init__(self, fn, header, body):
        self.fn = fn
        self.header = header
        self.body = body
        self.exits = []          # (block, target, cond description dict)
        self.float_only = False
        self.accs = []           # dict(place, ty, updates=[...], kind, init)
        self.verdict = None
        self.why = ''
        self.line = None


def block_defs(fn, body):
    """local -> list of (bb, idx, stmt|term) assignments inside the loop body (whole-local defs)"""
    defs = {}
    for b in body:
        blk = fn.blocks[b]
        for i, s in enumerate(blk['s']):
            if s['k'] == 'assign' and 'proj' not in s['p']:
                defs.setdefault(s['p']['l'], []).append((b, i, s))
        t = blk['t']
        if t['k'] == 'call' and 'proj' not in t['dest']:
            defs.setdefault(t['dest']['l'], []).append((b, len(blk['s']), t))
    return defs


def all_def_counts(fn):
    c = getattr(fn, '_def_counts', None)
    if c is None:
        c = {}
        for i in range(1, fn.argc + 1):
            c[i] = 1
        for b in fn.blocks:
            if b['cleanup']:
                continue
            for s in b['s']:
                if s['k'] == 'assign' and 'proj' not in s['p']:
                    c[s['p']['l']] = c.get(s['p']['l'], 0) + 1
            t = b['t']
            if t['k'] == 'call' and 'proj' not in t['dest']:
                c[t['dest']['l']] = c.get(t['dest']['l'], 0) + 1
        fn._def_counts = c
    return c


def place_writes(fn, body):
    """place key -> list of (bb, idx, stmt) for all assignments in the body (incl. projected places)"""
    out = {}
    for b in body:
        blk = fn.blocks[b]
        for i, s in enumerate(blk['s']):
            if s['k'] == 'assign':
                out.setdefault(place_key(s['p']), []).append((b, i, s))
    return out


def root(fn, op, defs, depth=0):
    """resolve an operand through single in-loop temporaries to
       ('place', key, place_json) | ('binop', op, a, b) | ('const', val) | ('call', name, [args]) | ('other',)"""
    if op['k'] == 'const':
        return ('const', op.get('val'), op.get('ty'))
    p = op['p']
    if 'proj' in p:
        return ('place', place_key(p), p)
    l = p['l']
    ds = defs.get(l, [])
    total = defs.get(('all', l), 0)
    if len(ds) == 1 and total == 1 and depth < 12 and not _self_ref(ds[0][2], l):
        b, i, s = ds[0]
        if s['k'] == 'call':
            return ('call', s['func'].get('name'), [root(fn, a, defs, depth + 1) for a in s['args']])
        rv = s['rv']
        if rv['k'] == 'use':
            return root(fn, rv['op'], defs, depth + 1)
        if rv['k'] == 'binop':
            return ('binop', rv['op'], root(fn, rv['a'], defs, depth + 1), root(fn, rv['b'], defs, depth + 1), rv['aty'])
        if rv['k'] == 'cast':
            return ('cast', rv['ck'], root(fn, rv['op'], defs, depth + 1))
        if rv['k'] == 'ref':
            return ('place', place_key(rv['p']), rv['p'])
        return ('other', rv['k'])
    return ('place', place_key(p), p)


def _self_ref(s, l):
    """the defining statement reads the local it defines (an accumulator update)"""
    def op_is(o):
        return o['k'] in ('copy', 'move') and o['p']['l'] == l
    if s['k'] == 'call':
        return any(op_is(a) for a in s['args'])
    rv = s['rv']
    if rv['k'] == 'binop':
        return op_is(rv['a']) or op_is(rv['b'])
    if rv['k'] in ('use', 'cast'):
        return op_is(rv['op'])
    if rv['k'] == 'unop':
        return op_is(rv['a'])
    if rv['k'] in ('ref', 'discr'):
        return rv['p']['l'] == l
    return False


def rvalue_root(fn, rv, defs):
    if rv['k'] == 'use':
        return root(fn, rv['op'], defs)
    if rv['k'] == 'binop':
        return ('binop', rv['op'], root(fn, rv['a'], defs), root(fn, rv['b'], defs), rv['aty'])
    if rv['k'] == 'cast':
        return ('cast', rv['ck'], root(fn, rv['op'], defs))
    return ('other', rv['k'])


def places_in(r):
    out = []
    if r[0] == 'place':
        out.append(r[1])
    elif r[0] == 'binop':
        out += places_in(r[2]) + places_in(r[3])
    elif r[0] == 'cast':
        out += places_in(r[2])
    elif r[0] == 'call':
        for a in r[2]:
            out += places_in(a)
    return out


def place_ty(fn, p):
    """type string of a place (last field type or local type)"""
    ty = fn.locals[p['l']]['s']
    for e in p.get('proj', []):
        if isinstance(e, dict) and 'ty' in e:
            ty = e['ty']
    return ty


def analyse(fn):
    cfg = fn.cfg
    out = []
    loops = cfg.natural_loops()
    for header, body in sorted(loops.items()):
        L = LoopInfo(fn, header, body)
        L.line = fn.blocks[header]['t'].get('ln')
        defs = block_defs(fn, body)
        for l, c in all_def_counts(fn).items():
            defs[('all', l)] = c
        writes = place_writes(fn, body)
        conds = []
        for b in sorted(body):
            t = fn.blocks[b]['t']
            outs = [s for s in cfg.succ[b] if s not in body]
            if not outs:
                continue
            if t['k'] != 'switch':
                conds.append((b, None))
                continue
            r = root(fn, t['discr'], defs)
            conds.append((b, r))
        L.exits = conds
        if not conds:
            L.verdict = 'no-exit'
            out.append(L)
            continue

        def is_float_cmp(r):
            if r is None:
                return False
            if r[0] == 'binop' and r[1] in CMP and r[4] in ('f32', 'f64'):
                return True
            if r[0] == 'call' and r[1] in ('eq', 'ne', 'lt', 'le', 'gt', 'ge', 'not_eq') and r[2]:
                return True if any(True for _ in r[2]) and _float_args(fn, r) else False
            if r[0] == 'other':
                return False
            return False

        L.float_only = all(is_float_cmp(r) for _, r in conds)
        if not L.float_only:
            out.append(L)
            continue
        # accumulators: loop-variant places read by the exit comparisons
        acc_keys = []
        for b, r in conds:
            for k in places_in(r):
                if k in writes and k not in acc_keys:
                    acc_keys.append(k)
        for k in acc_keys:
            ups = []
            ty = None
            for (b, i, s) in writes[k]:
                ty = place_ty(fn, s['p'])
                rr = rvalue_root(fn, s['rv'], defs)
                ups.append((b, i, s, rr))
            L.accs.append(dict(place=k, ty=ty, updates=ups))
        out.append(L)
    return out


def _float_args(fn, r):
    # call-based comparisons (f64::eq etc.): accept when an argument place has float type
    for a in r[2]:
        if a[0] == 'place':
            if place_ty(fn, a[2]).lstrip('&') in ('f32', 'f64'):
                return True
        if a[0] == 'const' and a[2] in ('f32', 'f64', '&f32', '&f64'):
            return True
    return False


def classify_update(rr, acc_key, writes):
    """('additive', step_root) | ('mult', op, const) | ('copy-of', root) | ('other', root)"""
    if rr[0] == 'binop' and rr[1] in ('Add', 'Sub'):
        a, b = rr[2], rr[3]
        if a[0] == 'place' and a[1] == acc_key:
            step = b
        elif b[0] == 'place' and b[1] == acc_key and rr[1] == 'Add':
            step = a
        else:
            return ('other', rr)
        variant = [k for k in places_in(step) if k in writes]
        if variant:
            return ('additive-variant-step', step)
        return ('additive', step)
    if rr[0] == 'binop' and rr[1] in ('Div', 'Mul'):
        a, b = rr[2], rr[3]
        if a[0] == 'place' and a[1] == acc_key and b[0] == 'const':
            return ('mult', rr[1], b[1])
        return ('other', rr)
    return ('other', rr)


def progress_guard(L, acc_key):
    """an exit test comparing acc±step with acc itself"""
    for b, r in L.exits:
        if r is None or r[0] != 'binop':
            continue
        x, y = r[2], r[3]
        for p, q in ((x, y), (y, x)):
            if p[0] == 'place' and p[1] == acc_key and q[0] == 'binop' and q[1] in ('Add', 'Sub'):
                if any(z[0] == 'place' and z[1] == acc_key for z in (q[2], q[3])):
                    return True
    return False


def show_root(r):
    if r is None:
        return '?'
    if r[0] == 'place':
        return r[1]
    if r[0] == 'const':
        return str(r[1])
    if r[0] == 'binop':
        return '%s(%s, %s)' % (r[1], show_root(r[2]), show_root(r[3]))
    if r[0] == 'cast':
        return 'cast(%s)' % show_root(r[2])
    if r[0] == 'call':
        return '%s(%s)' % (r[1], ', '.join(show_root(a) for a in r[2]))
    return str(r[0])
