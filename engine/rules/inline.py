"""MIR-level inlining of local helper functions over the exported facts.

`inlined(F, fn)` returns a synthetic Fn whose body has every call of a *non-anchor* local function (or closure) replaced by that
function's blocks, two levels deep.  An anchor is any function whose name the rule library itself mentions (the set is collected from
the rule sources on first use), any public API function of the crate root types, and trait-impl methods: rules look for those calls, so
they stay calls.  Helper functions introduced by a refactor (extract method / closure / phase struct) are not mentioned anywhere and
therefore disappear into their callers — CFG-based rules (dominance, must-pass-through, path enumeration, reaching definitions) then see the
same program as before the extraction.

Nothing is executed: this is a syntactic substitution on the fact file's MIR (block and local renumbering, parameter binding,
`return` -> assignment of the destination + goto)."""
import copy
import os
import re

import facts as factsmod

_ANCHORS = None


def anchor_names():
    """every identifier-like string literal in the rule library: functions with such a name are never inlined"""
    global _ANCHORS
    if _ANCHORS is None:
        here = os.path.dirname(os.path.abspath(__file__))
        names = set()
        for root, _, files in os.walk(here):
            for f in files:
                if f.endswith('.py') and f != 'inline.py':
                    src = open(os.path.join(root, f)).read()
                    for m in re.finditer(r"['\"]([A-Za-z_][A-Za-z0-9_]*)['\"]", src):
                        names.add(m.group(1))
                    # names inside longer literals: '::convert$', 'get_', path fragments
                    for m in re.finditer(r"::([a-z_][a-z0-9_]*)", src):
                        names.add(m.group(1))
        _ANCHORS = names
    return _ANCHORS


def _rename(x, loff, boff):
    """deep copy of a MIR json fragment with locals shifted by loff (block targets are handled by the caller)"""
    if isinstance(x, dict):
        out = {}
        for k, v in x.items():
            if k == 'l' and isinstance(v, int):
                out[k] = v + loff
            elif k == 'index' and isinstance(v, int):
                out[k] = v + loff
            elif k == 'func':
                out[k] = _rename(v, loff, boff) if isinstance(v, dict) and v.get('indirect') else v
            else:
                out[k] = _rename(v, loff, boff)
        return out
    if isinstance(x, list):
        return [_rename(v, loff, boff) for v in x]
    return x


def _retarget(t, boff):
    t = dict(t)
    for k in ('target', 'otherwise', 'unwind'):
        if isinstance(t.get(k), int):
            t[k] = t[k] + boff
    if 'targets' in t:
        t['targets'] = [[v, b + boff] for v, b in t['targets']]
    return t


def eligible(F, caller, t, chain, stop, force=None):
    f = t['func']
    if not f.get('local') or not f.get('resolved', True):
        return None
    g = F.fn(f.get('path') or '')
    if g is None or g.path == caller.path or g.path in chain:
        return None
    if g.impl_trait:                       # trait impl methods are API surface of their trait
        return None
    name = g.name or ''
    if force is not None and force(g):
        return g if len(g.blocks) <= 120 else None
    if g.kind != 'Closure':
        if name in anchor_names() or (stop and stop(g)):
            return None
    else:
        # a closure is inlined only where it is called directly (not handed to an iterator adaptor)
        if stop and stop(g):
            return None
    if len(g.blocks) > 120:
        return None
    return g


def inlined(F, fn, depth=2, stop=None, max_blocks=900, force=None):
    key = ('inl', fn.path, depth, id(stop), id(force))
    cache = F.__dict__.setdefault('_inline_cache', {})
    if key in cache:
        return cache[key]
    blocks = copy.deepcopy(fn.blocks)
    locals_ = list(fn.locals)
    changed = False
    closure_of = {}           # inlined parameter local -> path of the closure it is bound to
    # work items: (block index, remaining depth, chain of inlined paths)
    work = [(bi, depth, (fn.path,)) for bi in range(len(blocks))]
    while work:
        bi, d, chain = work.pop()
        b = blocks[bi]
        t = b['t']
        if t['k'] != 'call' or d <= 0 or b.get('cleanup') or len(blocks) > max_blocks:
            continue
        g = eligible(F, fn, t, chain, stop, force)
        if g is None:
            continue
        args = t['args']
        is_closure = g.kind == 'Closure'
        argc = g.argc
        loff = len(locals_)
        boff = len(blocks)
        locals_.extend(copy.deepcopy(g.locals))
        pre = []
        ln = t.get('ln')
        if is_closure:
            # (closure env, (a, b, ..)) -> param 1 = env, params 2.. = tuple fields
            if len(args) != 2 or args[1].get('k') not in ('copy', 'move'):
                del locals_[loff:]
                continue
            pre.append({'k': 'assign', 'p': {'l': loff + 1}, 'rv': {'k': 'use', 'op': args[0]}, 'ln': ln, 'exp': False})
            tup = args[1]['p']
            for k in range(2, argc + 1):
                pl = {'l': tup['l'], 'proj': list(tup.get('proj', [])) + [{'i': k - 2, 'f': str(k - 2), 'adt': None, 'ty': g.locals[k].get('s')}]}
                pre.append({'k': 'assign', 'p': {'l': loff + k}, 'rv': {'k': 'use', 'op': {'k': 'move', 'p': pl}}, 'ln': ln, 'exp': False})
        else:
            if len(args) != argc:
                del locals_[loff:]
                continue
            for k, a in enumerate(args):
                pre.append({'k': 'assign', 'p': {'l': loff + k + 1}, 'rv': {'k': 'use', 'op': a}, 'ln': ln, 'exp': False})
                # a closure handed to a generic helper (`impl FnMut(..)`): remember which closure the parameter is
                if a.get('k') in ('copy', 'move') and 'proj' not in a['p']:
                    lt = locals_[a['p']['l']] if a['p']['l'] < len(locals_) else {}
                    if lt.get('k') == 'closure' and lt.get('closure'):
                        closure_of[loff + k + 1] = lt['closure']
                        locals_[loff + k + 1] = dict(lt)
        dest, target = t['dest'], t.get('target')
        new_blocks = []
        for gb in g.blocks:
            nb = {'s': _rename(gb['s'], loff, boff), 'cleanup': gb.get('cleanup', False)}
            gt = gb['t']
            if gt['k'] == 'return':
                nb['s'] = nb['s'] + [{'k': 'assign', 'p': dest, 'rv': {'k': 'use', 'op': {'k': 'move', 'p': {'l': loff}}}, 'ln': ln, 'exp': False}]
                nb['t'] = {'k': 'goto', 'target': target, 'ln': ln} if target is not None else {'k': 'unreachable', 'ln': ln}
            else:
                nb['t'] = _retarget(_rename(gt, loff, boff), boff)
            new_blocks.append(nb)
        if closure_of:
            _resolve_closure_calls(new_blocks, closure_of)
        b['s'] = b['s'] + pre
        b['t'] = {'k': 'goto', 'target': boff, 'ln': ln}
        blocks.extend(new_blocks)
        changed = True
        for i in range(len(new_blocks)):
            work.append((boff + i, d - 1, chain + (g.path,)))
    if not changed:
        cache[key] = fn
        return fn
    _forward_refs(blocks, fn.argc)
    j2 = dict(fn.j)
    j2['mir'] = {'argc': fn.argc, 'locals': locals_, 'names': fn.mir.get('names', []), 'blocks': blocks}
    out = factsmod.Fn(j2, fn.facts)
    out.raw = fn
    cache[key] = out
    return out


def _forward_refs(blocks, argc):
    for _ in range(5):
        if not _forward_refs_once(blocks, argc):
            break


def _forward_refs_once(blocks, argc):
    """after inlining, a helper's `&mut self` / `this: &mut T` parameter is a temporary assigned exactly once from `&mut <local place>`: every
    `(*tmp).f` is that place's `.f`.  Rewriting the dereferences (the alias is exact) lets value rules see a field write made through a closure or a
    setter helper as a write of the struct itself."""
    counts = {}
    refs = {}
    tuples = {}
    for b in blocks:
        for s_ in b['s']:
            if s_['k'] == 'assign' and 'proj' not in s_['p']:
                l = s_['p']['l']
                counts[l] = counts.get(l, 0) + 1
                rv = s_['rv']
                if rv['k'] == 'ref' and all(isinstance(e, dict) and 'f' in e for e in rv['p'].get('proj', [])):
                    refs[l] = rv['p']
                elif rv['k'] == 'use' and rv['op'].get('k') in ('copy', 'move') and 'proj' not in rv['op']['p']:
                    refs[l] = ('alias', rv['op']['p']['l'])
                elif rv['k'] == 'use' and rv['op'].get('k') in ('copy', 'move') and len(rv['op']['p'].get('proj', [])) == 1 and \
                        isinstance(rv['op']['p']['proj'][0], dict) and str(rv['op']['p']['proj'][0].get('f', '')).isdigit():
                    refs[l] = ('tuple', rv['op']['p']['l'], int(rv['op']['p']['proj'][0]['f']))       # argument tuple of an inlined closure call
                elif rv['k'] == 'agg' and rv.get('ak') == 'tuple':
                    tuples[l] = rv['ops']
        t = b['t']
        if t['k'] == 'call' and t.get('dest') and 'proj' not in t['dest']:
            counts[t['dest']['l']] = counts.get(t['dest']['l'], 0) + 2
    target = {}
    for l, r in refs.items():
        if counts.get(l) != 1 or l <= argc:
            continue
        seen = {l}
        while isinstance(r, tuple) and r[0] in ('alias', 'tuple'):
            if r[0] == 'tuple':
                ops = tuples.get(r[1])
                o = ops[r[2]] if ops is not None and counts.get(r[1]) == 1 and r[2] < len(ops) else None
                if not (isinstance(o, dict) and o.get('k') in ('copy', 'move') and 'proj' not in o['p']):
                    r = None
                    break
                nl = o['p']['l']
            else:
                nl = r[1]
            if nl in seen or counts.get(nl) != 1 or nl <= argc or nl not in refs:
                r = None
                break
            seen.add(nl)
            r = refs[nl]
        if isinstance(r, dict):
            target[l] = r
    if not target:
        return False

    def fix(x):
        if isinstance(x, dict):
            if 'l' in x and isinstance(x.get('l'), int) and isinstance(x.get('proj'), list) and x['proj'] and x['proj'][0] == '*' and x['l'] in target:
                tp = target[x['l']]
                x['proj'] = list(tp.get('proj', [])) + x['proj'][1:]
                x['l'] = tp['l']
                if not x['proj']:
                    del x['proj']
            for v in list(x.values()):
                fix(v)
        elif isinstance(x, list):
            for v in x:
                fix(v)
    for b in blocks:
        fix(b['s'])
        fix(b['t'])
    # the forwarded reborrows (and the temporaries that carried them: copies, the argument tuple of an inlined closure call) are dead now; a dangling
    # `&mut x` statement would still read as "x may have been modified through the reference"
    cand = set(target) | {l for l, r in refs.items() if isinstance(r, tuple)} | set(tuples)

    def reads(x, acc, top=True):
        if isinstance(x, dict):
            if 'l' in x and isinstance(x.get('l'), int) and ('proj' in x or set(x) <= {'l', 'proj'}):
                acc[x['l']] = acc.get(x['l'], 0) + 1
            for k_, v in x.items():
                reads(v, acc, False)
        elif isinstance(x, list):
            for v in x:
                reads(v, acc, False)
    for _ in range(6):
        acc = {}
        for b in blocks:
            for s_ in b['s']:
                if s_['k'] == 'assign':
                    reads(s_['rv'], acc)
                    if 'proj' in s_['p']:
                        acc[s_['p']['l']] = acc.get(s_['p']['l'], 0) + 1
                elif s_['k'] not in ('live', 'dead'):
                    reads(s_, acc)
            reads(b['t'], acc)
        dead = {l for l in cand if counts.get(l) == 1 and l > argc and not acc.get(l)}
        if not dead:
            break
        removed = False
        for b in blocks:
            keep = []
            for s_ in b['s']:
                if s_['k'] == 'assign' and 'proj' not in s_['p'] and s_['p']['l'] in dead and s_['rv']['k'] in ('ref', 'use', 'agg'):
                    removed = True
                    continue
                keep.append(s_)
            b['s'] = keep
        if not removed:
            break
    return True


def _resolve_closure_calls(new_blocks, closure_of):
    """inside freshly inlined blocks: `FnMut::call_mut(&mut f, (args,))` on a parameter known to be closure C becomes a direct call of C"""
    alias = dict(closure_of)
    grew = True
    while grew:
        grew = False
        for nb in new_blocks:
            for s_ in nb['s']:
                if s_['k'] != 'assign' or 'proj' in s_['p'] or s_['p']['l'] in alias:
                    continue
                rv = s_['rv']
                src = None
                if rv['k'] == 'use' and rv['op'].get('k') in ('copy', 'move'):
                    src = rv['op']['p']
                elif rv['k'] == 'ref':
                    src = rv['p']
                if src is not None and src['l'] in alias and all(e == '*' for e in src.get('proj', [])):
                    alias[s_['p']['l']] = alias[src['l']]
                    grew = True
    for nb in new_blocks:
        t = nb['t']
        if t['k'] != 'call':
            continue
        f = t['func']
        if f.get('resolved') or f.get('name') not in ('call', 'call_mut', 'call_once') or not (f.get('trait') or '').startswith('std::ops::Fn'):
            continue
        a0 = t['args'][0] if t['args'] else None
        if a0 and a0.get('k') in ('copy', 'move') and 'proj' not in a0['p'] and a0['p']['l'] in alias:
            path = alias[a0['p']['l']]
            nb['t'] = dict(t, func={'decl': path, 'resolved': True, 'path': path, 'name': None, 'krate': 'rosu_pp', 'local': True, 'targs': [], 'dargs': [], 'unsafe': False})


class View:
    """Facts-like wrapper whose fn / method / fns hand out inlined bodies; everything else is forwarded"""

    def __init__(self, F, depth=2, stop=None):
        self._F = F
        self._depth = depth
        self._stop = stop

    def __getattr__(self, name):
        return getattr(self._F, name)

    def _w(self, f):
        return inlined(self._F, f, self._depth, self._stop) if f is not None else None

    def fn(self, path):
        return self._w(self._F.fn(path))

    def method(self, *a, **k):
        return self._w(self._F.method(*a, **k))

    def methods(self, *a, **k):
        return [self._w(f) for f in self._F.methods(*a, **k)]

    @property
    def fns(self):
        return [self._w(f) for f in self._F.fns]
