"""Provenance: backward def-use chase over exported MIR.

value trees (tuples):
  ('param', i)                          function parameter local i (1-based MIR local)
  ('const', operand_json)               constant operand
  ('call', func_json, [args], site)     result of a call; site = (fn_path, bb)
  ('agg', kind, adt, variant, {field: node})   kind in adt|tuple|array|closure
  ('field', base, name)                 field of something opaque
  ('variant', base, name)               downcast of something opaque
  ('index', base, idx_node|None)
  ('binop', op, a, b) ('unop', op, a) ('cast', ck, a, to_ty_str)
  ('discr', base)
  ('len', base)
  ('update', base, {path_tuple: node})  base with some fields overwritten
  ('mut', base, [call nodes])           base after having been passed by &mut to those calls
  ('phi', [nodes])
  ('rec', def_id)                       cyclic reference (loop-carried)
  ('unknown', why)
References and dereferences are transparent.
"""
import pp

MAXDEPTH = 60


class Def:
    __slots__ = ('id', 'local', 'kind', 'bb', 'idx', 'path', 'data')

    def __init__(self, id, local, kind, bb, idx, path, data):
        self.id = id
        self.local = local
        self.kind = kind      # param | assign | call | partial | mutborrow
        self.bb = bb
        self.idx = idx
        self.path = path      # for partial defs: tuple of field names
        self.data = data

    @property
    def whole(self):
        return self.kind in ('param', 'assign', 'call')


def place_path(p):
    """projection as tuple of simple elements; None if not a plain local-rooted field path.
    Deref elements are dropped only when they appear first (write through a reference local)."""
    out = []
    for e in p.get('proj', []):
        if e == '*':
            out.append('*')
        elif isinstance(e, str):
            out.append(e)
        elif 'f' in e:
            out.append(e['f'])
        elif 'downcast' in e:
            out.append('as ' + e['downcast'])
        elif 'index' in e or 'cindex' in e:
            out.append('[]')
        elif 'subslice' in e:
            out.append('[..]')
    return tuple(out)


class Prov:
    def __init__(self, fn):
        self.fn = fn
        self.cfg = fn.cfg
        self.defs = []
        self.defs_at = {}      # (bb, idx) -> [Def]
        self.kills_at = {}     # (bb, idx) -> set(local) storage dead
        self._collect()
        self._dataflow()
        self._memo = {}

    # -- definitions ------------------------------------------------------------------------
    def _add(self, local, kind, bb, idx, path=(), data=None):
        d = Def(len(self.defs), local, kind, bb, idx, path, data)
        self.defs.append(d)
        self.defs_at.setdefault((bb, idx), []).append(d)
        return d

    def _collect(self):
        fn = self.fn
        self.param_defs = {}
        for i in range(1, fn.argc + 1):
            self.param_defs[i] = self._add(i, 'param', -1, 0)
        for bi, b in enumerate(fn.blocks):
            if b['cleanup']:
                continue
            for si, s in enumerate(b['s']):
                if s['k'] == 'assign':
                    p = s['p']
                    if 'proj' not in p:
                        self._add(p['l'], 'assign', bi, si, (), s)
                    else:
                        path = place_path(p)
                        self._add(p['l'], 'partial', bi, si, path, s)
                    rv = s['rv']
                    if rv['k'] in ('ref', 'rawptr') and (rv['bk'] == 'mut' or rv['bk'] == 'Mut'):
                        rp = rv['p']
                        path = place_path(rp)
                        # a &mut of a place rooted at local L (directly, not through a deref of L
                        # being itself a reference parameter) may mutate L
                        self._add(rp['l'], 'mutborrow', bi, si, path, s)
                elif s['k'] == 'setdiscr':
                    p = s['p']
                    self._add(p['l'], 'partial', bi, si, place_path(p) + ('<discr>',), s)
                elif s['k'] == 'dead':
                    self.kills_at.setdefault((bi, si), set()).add(s['l'])
            t = b['t']
            n = len(b['s'])
            if t['k'] == 'call':
                p = t['dest']
                if 'proj' not in p:
                    self._add(p['l'], 'call', bi, n, (), t)
                else:
                    self._add(p['l'], 'partial', bi, n, place_path(p), t)

    def _transfer(self, state, bb, upto=None):
        """apply statements [0, upto) of bb (upto=None: whole block incl. terminator def)"""
        b = self.fn.blocks[bb]
        n = len(b['s'])
        end = n + 1 if upto is None else upto
        st = state
        copied = False
        for idx in range(end):
            ds = self.defs_at.get((bb, idx))
            ks = self.kills_at.get((bb, idx))
            if not ds and not ks:
                continue
            if not copied:
                st = dict(st)
                copied = True
            if ks:
                for l in ks:
                    st.pop(l, None)
            if ds:
                for d in ds:
                    cur = st.get(d.local, frozenset())
                    if d.whole:
                        st[d.local] = frozenset([d.id])
                    elif d.kind == 'partial':
                        keep = [x for x in cur
                                if not (self.defs[x].kind == 'partial' and self.defs[x].path == d.path
                                        and '[]' not in d.path)]
                        st[d.local] = frozenset(keep + [d.id])
                    else:
                        st[d.local] = cur | frozenset([d.id])
        return st

    def _dataflow(self):
        cfg = self.cfg
        entry = {i: frozenset([d.id]) for i, d in self.param_defs.items()}
        IN = {0: entry}
        OUT = {}
        rpo = cfg.rpo()
        changed = True
        iters = 0
        while changed and iters < 50:
            changed = False
            iters += 1
            for b in rpo:
                if b == 0:
                    st = entry
                else:
                    st = {}
                    for p in cfg.pred[b]:
                        o = OUT.get(p)
                        if o is None:
                            continue
                        for l, s in o.items():
                            if l in st:
                                if st[l] is not s:
                                    st[l] = st[l] | s
                            else:
                                st[l] = s
                if IN.get(b) != st:
                    IN[b] = st
                o = self._transfer(st, b)
                if OUT.get(b) != o:
                    OUT[b] = o
                    changed = True
        self.IN = IN
        self.OUT = OUT

    def reaching(self, local, bb, idx):
        st = self._transfer(self.IN.get(bb, {}), bb, idx)
        return [self.defs[i] for i in sorted(st.get(local, ()))]

    # -- values -----------------------------------------------------------------------------
    def operand(self, op, bb, idx, stack=()):
        k = op['k']
        if k == 'const':
            if 'promoted' in op and op['promoted'] < len(self.fn.promoted):
                pf = self.fn.promoted[op['promoted']]
                try:
                    return prov_of(pf).return_value()
                except Exception:
                    return ('const', op)
            return ('const', op)
        return self.place(op['p'], bb, idx, stack)

    def place(self, p, bb, idx, stack=()):
        v = self.local(p['l'], bb, idx, stack)
        for e in p.get('proj', []):
            v = self.project(v, e, bb, idx, stack)
        return v

    def project(self, v, e, bb=None, idx=None, stack=()):
        if e == '*':
            return v
        if isinstance(e, str):
            return v
        if 'f' in e:
            return project_field(v, e['f'])
        if 'downcast' in e:
            return project_variant(v, e['downcast'])
        if 'index' in e:
            iv = self.local(e['index'], bb, idx, stack) if bb is not None else None
            return ('index', v, iv)
        if 'cindex' in e:
            return ('index', v, ('const', {'k': 'const', 'ty': 'usize', 'val': str(e['cindex']),
                                           'from_end': e.get('from_end', False)}))
        if 'subslice' in e:
            return ('index', v, None)
        return v

    def local(self, l, bb, idx, stack=()):
        defs = self.reaching(l, bb, idx)
        wholes = [d for d in defs if d.whole]
        parts = [d for d in defs if not d.whole]
        if not wholes:
            base = ('unknown', 'uninit _%d' % l)
        else:
            vals = [self.def_value(d, stack) for d in wholes]
            base = phi(vals)
        if parts:
            upd = {}
            muts = []
            for d in parts:
                if d.kind == 'partial':
                    v = self.def_value(d, stack)
                    path = tuple(x for x in d.path if x != '*')
                    if path in upd:
                        upd[path] = phi([upd[path], v])
                    else:
                        upd[path] = v
                else:
                    muts.append(d)
            if upd:
                base = ('update', base, upd)
            for d in muts:
                path = tuple(x for x in d.path if x != '*')
                base = ('mut', base, self.borrow_uses(d), path)
        return base

    def def_value(self, d, stack=()):
        if d.kind == 'param':
            return ('param', d.local)
        if d.id in stack:
            return ('rec', d.id)
        if len(stack) > MAXDEPTH:
            return ('unknown', 'depth')
        m = self._memo.get(d.id)
        if m is not None:
            return m
        stack2 = stack + (d.id,)
        if d.kind == 'call':
            t = d.data
            args = [self.operand(a, d.bb, d.idx, stack2) for a in t['args']]
            v = ('call', t['func'], args, (self.fn.path, d.bb))
        elif d.kind in ('assign', 'partial'):
            s = d.data
            if s['k'] == 'call':
                args = [self.operand(a, d.bb, d.idx, stack2) for a in s['args']]
                v = ('call', s['func'], args, (self.fn.path, d.bb))
            elif s['k'] == 'setdiscr':
                v = ('const', {'k': 'const', 'ty': 'discr', 'val': str(s['variant'])})
            else:
                v = self.rvalue(s['rv'], d.bb, d.idx, stack2)
        else:
            v = ('unknown', d.kind)
        if not contains_rec(v):
            self._memo[d.id] = v
        return v

    def rvalue(self, rv, bb, idx, stack=()):
        k = rv['k']
        if k == 'use':
            return self.operand(rv['op'], bb, idx, stack)
        if k in ('ref', 'rawptr'):
            return self.place(rv['p'], bb, idx, stack)
        if k == 'cast':
            a = self.operand(rv['op'], bb, idx, stack)
            ck = rv['ck']
            if ck.startswith('PointerCoercion:Unsize') or ck in ('Subtype',):
                return a
            if ck.startswith('PointerCoercion') and a[0] == 'agg' and a[1] == 'closure':
                return a
            return ('cast', ck, a, rv['to']['s'])
        if k == 'binop':
            return ('binop', rv['op'], self.operand(rv['a'], bb, idx, stack), self.operand(rv['b'], bb, idx, stack))
        if k == 'unop':
            if rv['op'] == 'PtrMetadata':
                return ('len', self.operand(rv['a'], bb, idx, stack))
            return ('unop', rv['op'], self.operand(rv['a'], bb, idx, stack))
        if k == 'discr':
            return ('discr', self.place(rv['p'], bb, idx, stack))
        if k == 'agg':
            ak = rv['ak']
            ops = [self.operand(o, bb, idx, stack) for o in rv['ops']]
            if ak == 'adt':
                fields = rv['fields']
                return ('agg', 'adt', rv['adt'], rv['variant'], dict(zip(fields, ops)))
            if ak == 'closure':
                return ('agg', 'closure', rv['closure'], None, {('upvar%d' % i): o for i, o in enumerate(ops)})
            if ak == 'tuple':
                return ('agg', 'tuple', '(tuple)', None, {str(i): o for i, o in enumerate(ops)})
            return ('agg', ak, ak, None, {str(i): o for i, o in enumerate(ops)})
        if k == 'repeat':
            return ('agg', 'repeat', 'repeat', None, {'0': self.operand(rv['op'], bb, idx, stack)})
        return ('unknown', k)

    # -- where does a &mut borrow flow? -----------------------------------------------------------
    def borrow_uses(self, d):
        """for a mutborrow def (tmp = &mut place): the calls the temporary (or reborrows of it)
        is passed to; returned as light call descriptors ('callref', func_json, site)."""
        s = d.data
        tmp = s['p']['l'] if 'proj' not in s['p'] else None
        if tmp is None:
            return [('unknown', 'mutborrow stored in place')]
        out = []
        seen = set()
        work = [tmp]
        fn = self.fn
        while work:
            l = work.pop()
            if l in seen:
                continue
            seen.add(l)
            for bi, b in enumerate(fn.blocks):
                if b['cleanup']:
                    continue
                for st in b['s']:
                    if st['k'] != 'assign':
                        continue
                    rv = st['rv']
                    src = None
                    if rv['k'] == 'use' and rv['op']['k'] in ('copy', 'move'):
                        src = rv['op']['p']
                    elif rv['k'] in ('ref', 'rawptr'):
                        src = rv['p']
                    elif rv['k'] == 'cast' and rv['op']['k'] in ('copy', 'move'):
                        src = rv['op']['p']
                    if src is not None and src['l'] == l and 'proj' not in st['p']:
                        work.append(st['p']['l'])
                t = b['t']
                if t['k'] == 'call':
                    for a in t['args']:
                        if a['k'] in ('copy', 'move') and a['p']['l'] == l:
                            out.append(('callref', t['func'], (fn.path, bi)))
        return out

    # -- convenience ---------------------------------------------------------------------------
    def return_value(self):
        vals = []
        for r in self.cfg.returns:
            n = len(self.fn.blocks[r]['s'])
            vals.append(self.local(0, r, n))
        return phi(vals) if vals else ('unknown', 'diverges')

    def call_args(self, bb):
        t = self.fn.blocks[bb]['t']
        n = len(self.fn.blocks[bb]['s'])
        return [self.operand(a, bb, n) for a in t['args']]


# -------------------------------------------------------------------------------------------
# tree helpers

def phi(vals):
    flat = []
    for v in vals:
        if v[0] == 'phi':
            for x in v[1]:
                if x not in flat:
                    flat.append(x)
        elif v not in flat:
            flat.append(v)
    if len(flat) == 1:
        return flat[0]
    return ('phi', flat)


def contains_rec(v):
    for n in walk(v):
        if n[0] == 'rec':
            return True
    return False


def project_field(v, f):
    k = v[0]
    if k == 'agg':
        comps = v[4]
        if f in comps:
            return comps[f]
        return ('field', v, f)
    if k == 'update':
        base, upd = v[1], v[2]
        if (f,) in upd:
            # also keep deeper overrides
            deeper = {p[1:]: x for p, x in upd.items() if len(p) > 1 and p[0] == f}
            r = upd[(f,)]
            return ('update', r, deeper) if deeper else r
        deeper = {p[1:]: x for p, x in upd.items() if len(p) > 1 and p[0] == f}
        b = project_field(base, f)
        return ('update', b, deeper) if deeper else b
    if k == 'mut':
        path = v[3] if len(v) > 3 else ()
        if path and path[0] != f and not path[0].startswith('as ') and path[0] not in ('[]', '[..]'):
            return project_field(v[1], f)       # the borrowed sub-place is a different field
        return ('mut', project_field(v[1], f), v[2], path[1:] if path and path[0] == f else path)
    if k == 'phi':
        return phi([project_field(x, f) for x in v[1]])
    return ('field', v, f)


def project_variant(v, name):
    k = v[0]
    if k == 'agg':
        if v[3] == name:
            return v
        if v[3] is not None:
            return ('unknown', 'variant mismatch')
        return ('variant', v, name)
    if k == 'update':
        base, upd = v[1], v[2]
        key = 'as ' + name
        deeper = {p[1:]: x for p, x in upd.items() if len(p) > 1 and p[0] == key}
        b = project_variant(base, name)
        return ('update', b, deeper) if deeper else b
    if k == 'mut':
        path = v[3] if len(v) > 3 else ()
        key = 'as ' + name
        return ('mut', project_variant(v[1], name), v[2], path[1:] if path and path[0] == key else path)
    if k == 'phi':
        return phi([project_variant(x, name) for x in v[1]])
    return ('variant', v, name)


def children(v):
    k = v[0]
    if k in ('param', 'const', 'rec', 'unknown', 'callref'):
        return []
    if k == 'call':
        return list(v[2])
    if k == 'agg':
        return list(v[4].values())
    if k in ('field', 'variant', 'discr', 'len'):
        return [v[1]]
    if k == 'index':
        return [v[1]] + ([v[2]] if v[2] is not None else [])
    if k == 'binop':
        return [v[2], v[3]]
    if k == 'unop':
        return [v[2]]
    if k == 'cast':
        return [v[2]]
    if k == 'update':
        return [v[1]] + list(v[2].values())
    if k == 'mut':
        return [v[1]]
    if k == 'phi':
        return list(v[1])
    return []


def walk(v, limit=20000):
    """pre-order over the tree (with a node budget; trees are DAG-shared but small)"""
    st = [v]
    n = 0
    while st:
        x = st.pop()
        yield x
        n += 1
        if n > limit:
            return
        st.extend(reversed(children(x)))


def callee(v):
    """resolved path of a call node"""
    return v[1].get('path') or ''


def is_call(v, name=None, path_re=None, adt=None, trait=None):
    if v[0] != 'call':
        return False
    f = v[1]
    if name is not None and f.get('name') != name:
        return False
    if adt is not None and f.get('impl_adt') != adt:
        return False
    if trait is not None and f.get('trait') != trait:
        return False
    if path_re is not None:
        import re
        if not re.search(path_re, f.get('path') or ''):
            return False
    return True


def const_val(v):
    """rendered value of a const node or None"""
    if v[0] == 'const':
        return v[1].get('val')
    return None


TRANSPARENT_NAMES = {'clone', 'into', 'from', 'borrow', 'borrow_mut', 'as_ref', 'as_mut', 'deref', 'deref_mut',
                     'to_owned', 'as_deref', 'as_deref_mut', 'by_ref', 'into_iter', 'iter', 'iter_mut', 'copied',
                     'cloned', 'as_slice', 'as_mut_slice', 'into_inner', 'get_mut', 'as_pin_mut', 'as_pin_ref',
                     'likely', 'unlikely', 'black_box', 'identity', 'to_mut'}


def strip(v, names=TRANSPARENT_NAMES, through_mut=True, through_update=False):
    """look through value-preserving wrappers"""
    while True:
        k = v[0]
        if k == 'call' and v[1].get('name') in names and len(v[2]) >= 1:
            v = v[2][0]
            continue
        if k == 'mut' and through_mut:
            v = v[1]
            continue
        if k == 'update' and through_update:
            v = v[1]
            continue
        if k == 'cast' and v[1] in ('PtrToPtr', 'Transmute') and False:
            v = v[2]
            continue
        return v


def show(v, depth=0, maxdepth=8):
    """compact rendering for reports"""
    if depth > maxdepth:
        return '…'
    k = v[0]
    d = depth + 1
    if k == 'param':
        return 'param#%d' % v[1]
    if k == 'const':
        o = v[1]
        if 'fn' in o:
            return 'fn:%s' % o['fn']['path']
        if 'val' in o:
            return '%s' % o['val']
        if 'def' in o:
            return '{%s}' % o['def']
        if 'str' in o:
            return repr(o['str'])
        return 'const:%s' % o.get('ty')
    if k == 'call':
        return '%s(%s)' % (callee(v) or 'indirect', ', '.join(show(a, d, maxdepth) for a in v[2]))
    if k == 'callref':
        return '%s@%s' % (v[1].get('path'), v[2][1])
    if k == 'agg':
        name = v[2] if v[3] is None else '%s::%s' % (v[2], v[3])
        return '%s{%s}' % (name, ', '.join('%s: %s' % (f, show(x, d, maxdepth)) for f, x in v[4].items()))
    if k == 'field':
        return '%s.%s' % (show(v[1], d, maxdepth), v[2])
    if k == 'variant':
        return '(%s as %s)' % (show(v[1], d, maxdepth), v[2])
    if k == 'index':
        return '%s[%s]' % (show(v[1], d, maxdepth), show(v[2], d, maxdepth) if v[2] else '..')
    if k == 'binop':
        return '%s(%s, %s)' % (v[1], show(v[2], d, maxdepth), show(v[3], d, maxdepth))
    if k == 'unop':
        return '%s(%s)' % (v[1], show(v[2], d, maxdepth))
    if k == 'cast':
        return '(%s as %s)' % (show(v[2], d, maxdepth), v[3])
    if k == 'discr':
        return 'discr(%s)' % show(v[1], d, maxdepth)
    if k == 'len':
        return 'len(%s)' % show(v[1], d, maxdepth)
    if k == 'update':
        return '%s with {%s}' % (show(v[1], d, maxdepth),
                                 ', '.join('%s: %s' % ('.'.join(p), show(x, d, maxdepth)) for p, x in v[2].items()))
    if k == 'mut':
        return 'mut(%s; by %s)' % (show(v[1], d, maxdepth), ','.join(show(x, d, maxdepth) for x in v[2]))
    if k == 'phi':
        return 'phi(%s)' % ' | '.join(show(x, d, maxdepth) for x in v[1])
    if k == 'rec':
        return 'rec#%d' % v[1]
    if k == 'unknown':
        return '?%s' % v[1]
    return str(k)


_PROV_CACHE = {}


def prov_of(fn):
    p = _PROV_CACHE.get(id(fn))
    if p is None:
        p = Prov(fn)
        _PROV_CACHE[id(fn)] = p
    return p


def subst(v, params, memo=None):
    """replace ('param', i) by params[i] (dict) and re-simplify projections"""
    if memo is None:
        memo = {}
    key = id(v)
    if key in memo:
        return memo[key]
    k = v[0]
    if k == 'param':
        r = params.get(v[1], v)
    elif k in ('const', 'rec', 'unknown', 'callref'):
        r = v
    elif k == 'call':
        r = ('call', v[1], [subst(a, params, memo) for a in v[2]], v[3])
    elif k == 'agg':
        r = ('agg', v[1], v[2], v[3], {f: subst(x, params, memo) for f, x in v[4].items()})
    elif k == 'field':
        r = project_field(subst(v[1], params, memo), v[2])
    elif k == 'variant':
        r = project_variant(subst(v[1], params, memo), v[2])
    elif k == 'index':
        r = ('index', subst(v[1], params, memo), subst(v[2], params, memo) if v[2] else None)
    elif k == 'binop':
        r = ('binop', v[1], subst(v[2], params, memo), subst(v[3], params, memo))
    elif k == 'unop':
        r = ('unop', v[1], subst(v[2], params, memo))
    elif k == 'cast':
        r = ('cast', v[1], subst(v[2], params, memo), v[3])
    elif k in ('discr', 'len'):
        r = (k, subst(v[1], params, memo))
    elif k == 'update':
        r = ('update', subst(v[1], params, memo), {p: subst(x, params, memo) for p, x in v[2].items()})
    elif k == 'mut':
        r = ('mut', subst(v[1], params, memo), v[2], v[3] if len(v) > 3 else ())
    elif k == 'phi':
        r = phi([subst(x, params, memo) for x in v[1]])
    else:
        r = v
    memo[key] = r
    return r


def inline_call(facts, v, depth=1):
    """if v is a call of a local function (or closure), return its return value with the
    arguments substituted; otherwise v"""
    if v[0] != 'call' or depth <= 0:
        return v
    f = v[1]
    if not f.get('local'):
        return v
    target = facts.fn(f.get('path'))
    if target is None:
        return v
    rv = prov_of(target).return_value()
    params = {i + 1: a for i, a in enumerate(v[2])}
    return subst(rv, params)


def inline_all(facts, v, depth=3, stop=(), _seen=None, only=None, loops_ok=False):
    """inline every call of a local, non-recursive function inside v (callee return value with arguments substituted), `depth`
    levels deep; calls whose callee name is in `stop` are kept.  Calls that cannot be resolved stay as they are."""
    _seen = _seen or ()

    def go(x, d):
        k = x[0]
        if k == 'call':
            args = [go(a, d) for a in x[2]]
            y = ('call', x[1], args, x[3])
            f = x[1]
            if d > 0 and f.get('local') and f.get('name') not in stop and f.get('path') not in _seen and (only is None or only(f)):
                target = facts.fn(f.get('path'))
                if target is not None and (loops_ok or not target.cfg.sccs()):
                    pa = dict(enumerate(args, 1))
                    if '{closure#' in (f.get('path') or '') and len(args) == 2 and args[1][0] == 'agg' and args[1][1] == 'tuple':
                        items = args[1][-1]
                        pa = {1: args[0]}
                        for i, it in enumerate(items.values() if isinstance(items, dict) else items):
                            pa[i + 2] = it
                    rv = prov_of(target).return_value()
                    return inline_all(facts, subst(rv, pa), d - 1, stop, _seen + (f.get('path'),), only, loops_ok)
            return y
        if k == 'agg':
            return ('agg', x[1], x[2], x[3], {f: go(y, d) for f, y in x[4].items()})
        if k == 'field':
            return project_field(go(x[1], d), x[2])
        if k == 'variant':
            return project_variant(go(x[1], d), x[2])
        if k == 'phi':
            return phi([go(y, d) for y in x[1]])
        if k == 'binop':
            return ('binop', x[1], go(x[2], d), go(x[3], d))
        if k == 'unop':
            return ('unop', x[1], go(x[2], d))
        if k == 'cast':
            return ('cast', x[1], go(x[2], d), x[3])
        if k == 'mut':
            return ('mut', go(x[1], d), x[2], x[3] if len(x) > 3 else ())
        if k == 'update':
            return ('update', go(x[1], d), {p: go(y, d) for p, y in x[2].items()})
        return x
    return go(v, depth)


def resolve_mut(facts, v, depth=2):
    """`X after having been passed by &mut to local function h(..)`: replace the outermost ('mut', X, [h]) by the value h leaves
    behind its &mut parameter (h's own writes as an update of X, h's parameters replaced by the call's arguments).  Unresolvable
    nodes are returned unchanged."""
    if depth <= 0 or v[0] != 'mut':
        return v
    base = resolve_mut(facts, v[1], depth)
    vias = v[2]
    path = v[3] if len(v) > 3 else ()
    if path or len(vias) != 1 or vias[0][0] != 'callref' or not vias[0][1].get('local'):
        return ('mut', base, vias, path)
    h = facts.fn(vias[0][1].get('path') or '')
    site = vias[0][2] if len(vias[0]) > 2 else None
    if h is None or site is None or h.cfg.sccs():
        return ('mut', base, vias, path)
    ks = [i + 1 for i, inp in enumerate(h.j.get('inputs') or []) if inp.get('k') == 'refmut']
    caller = facts.fn(site[0])
    if len(ks) != 1 or caller is None:
        return ('mut', base, vias, path)
    k = ks[0]
    args = prov_of(caller).call_args(site[1])
    PH = prov_of(h)
    vals = []
    for r in h.cfg.returns:
        vals.append(PH.local(k, r, len(h.blocks[r]['s'])))
    if not vals:
        return ('mut', base, vias, path)
    params = {i + 1: a for i, a in enumerate(args)}
    params[k] = base
    out = subst(phi(vals), params)
    return resolve_mut(facts, out, depth - 1) if out[0] == 'mut' else out
