"""Summaries of the mode entry points (IGameMode::{difficulty, strains, gradual_difficulty, gradual_performance})
shared by C02, C07, C14, C16."""
import re

import arms
import prov
from common import BEATMAP, MODE_MARKER, MODE_VARIANT, fn_of_mode_trait, as_param_path
from facts import callee_path

CONVERT_REF = 'model::beatmap::Beatmap::convert_ref'
CONVERT_MUT = 'model::beatmap::Beatmap::convert_mut'
GET_MODS = 'any::difficulty::Difficulty::get_mods'


def takes_mut_beatmap(F, path):
    f = F.fn(path)
    if f is None or f.kind == 'Closure':
        return False
    return any(i['k'] == 'refmut' and i.get('to_adt') == BEATMAP for i in f.j.get('inputs', []))


def beatmap_param_index(fn):
    """1-based MIR local of the `&Beatmap` parameter"""
    for i, inp in enumerate(fn.j.get('inputs', [])):
        if inp['k'] == 'ref' and inp.get('to_adt') == BEATMAP:
            return i + 1
    return None


def aliases_of(fn, local):
    """locals that are plain copies / reborrows of `local` (no projections other than deref)"""
    al = {local}
    grew = True
    while grew:
        grew = False
        for bi, si, s in fn.assigns():
            if 'proj' in s['p'] or s['p']['l'] in al:
                continue
            rv = s['rv']
            src = None
            if rv['k'] == 'use' and rv['op']['k'] in ('copy', 'move'):
                src = rv['op']['p']
            elif rv['k'] == 'ref':
                src = rv['p']
            if src is not None and src['l'] in al and all(e == '*' for e in src.get('proj', [])):
                al.add(s['p']['l'])
                grew = True
    return al


def param_uses(fn, local):
    """classify every use of parameter `local` (a reference): returns list of
    ('arg', bb, term, arg_index) | ('field', bb, stmt/term, path) | ('other', bb, what)"""
    al = aliases_of(fn, local)
    uses = []

    def place_use(p, bi, what):
        if p['l'] in al:
            proj = [e for e in p.get('proj', []) if e != '*']
            if proj:
                uses.append(('field', bi, what, proj))
                return True
        return False

    for bi, si, s in fn.assigns():
        rv = s['rv']
        ops = []
        places = []
        if rv['k'] == 'use':
            ops.append(rv['op'])
        elif rv['k'] in ('ref', 'rawptr', 'discr'):
            places.append(rv['p'])
        elif rv['k'] == 'cast':
            ops.append(rv['op'])
        elif rv['k'] == 'binop':
            ops += [rv['a'], rv['b']]
        elif rv['k'] == 'unop':
            ops.append(rv['a'])
        elif rv['k'] in ('agg',):
            ops += rv['ops']
        elif rv['k'] == 'repeat':
            ops.append(rv['op'])
        for o in ops:
            if o['k'] in ('copy', 'move'):
                places.append(o['p'])
        for p in places:
            if p['l'] in al:
                proj = [e for e in p.get('proj', []) if e != '*']
                if proj:
                    uses.append(('field', bi, s, proj))
                elif rv['k'] not in ('use', 'ref'):
                    uses.append(('other', bi, rv['k']))
                elif 'proj' in s['p']:
                    uses.append(('other', bi, 'stored into a place'))
    for bi, b in enumerate(fn.blocks):
        if b['cleanup']:
            continue
        t = b['t']
        if t['k'] == 'call':
            for ai, a in enumerate(t['args']):
                if a['k'] in ('copy', 'move') and a['p']['l'] in al:
                    proj = [e for e in a['p'].get('proj', []) if e != '*']
                    if proj:
                        uses.append(('field', bi, t, proj))
                    else:
                        uses.append(('arg', bi, t, ai))
        elif t['k'] == 'switch':
            o = t['discr']
            if o['k'] in ('copy', 'move') and o['p']['l'] in al:
                uses.append(('other', bi, 'switch'))
    return uses


class Entry:
    def __init__(self, F, mode, method):
        self.F = F
        self.mode = mode
        self.method = method
        self.trait_fn = fn_of_mode_trait(F, mode, method)
        self.chain = []          # functions from the trait method to the one that converts
        self.work = None         # function containing the convert_ref call
        self.problems = []
        self.convert = None      # (fn, bb, term)
        self.preprocessors = []  # [(callee path, guards shown, fn, bb)]
        self.links = []          # [(forwarding fn, bb of the forwarding call)] from the trait method down to the converting function
        if self.trait_fn is not None:
            self._analyse()

    def _analyse(self):
        F = self.F
        fn = self.trait_fn
        for depth in range(5):
            self.chain.append(fn)
            mp = beatmap_param_index(fn)
            if mp is None:
                self.problems.append('%s has no &Beatmap parameter' % fn.path)
                return
            uses = param_uses(fn, mp)
            conv = [u for u in uses if u[0] == 'arg' and callee_path(u[2]) == CONVERT_REF and u[3] == 0]
            if conv:
                others = [u for u in uses if u not in conv]
                for u in others:
                    if u[0] == 'arg':
                        self.problems.append('%s passes the unconverted map to %s' % (fn.path, callee_path(u[2])))
                    elif u[0] == 'field':
                        self.problems.append('%s reads `%s` of the unconverted map' % (
                            fn.path, '.'.join(e.get('f', '?') if isinstance(e, dict) else str(e) for e in u[3])))
                    else:
                        self.problems.append('%s uses the unconverted map (%s)' % (fn.path, u[2]))
                if len(conv) > 1:
                    self.problems.append('%s converts the map %d times' % (fn.path, len(conv)))
                self.work = fn
                self.convert = (fn, conv[0][1], conv[0][2])
                break
            # no conversion here: the map must be handed, unchanged, to exactly one local function
            args = [u for u in uses if u[0] == 'arg' and u[2]['func'].get('local')]
            rest = [u for u in uses if not (u[0] == 'arg' and u[2]['func'].get('local'))]
            if rest or len(args) != 1:
                for u in rest:
                    if u[0] == 'field':
                        self.problems.append('%s reads `%s` of the unconverted map' % (
                            fn.path, '.'.join(e.get('f', '?') if isinstance(e, dict) else str(e) for e in u[3])))
                    elif u[0] == 'arg':
                        self.problems.append('%s passes the unconverted map to %s' % (fn.path, callee_path(u[2])))
                    else:
                        self.problems.append('%s uses the unconverted map (%s)' % (fn.path, u[2]))
                if len(args) != 1:
                    self.problems.append('%s never converts the map (convert_ref not reached; %d forwarding calls)'
                                         % (fn.path, len(args)))
                return
            self.links.append((fn, args[0][1]))
            nxt = F.fn(callee_path(args[0][2]))
            if nxt is None:
                self.problems.append('%s forwards the map to unresolved %s' % (fn.path, callee_path(args[0][2])))
                return
            fn = nxt
        else:
            self.problems.append('delegation chain too deep')
            return
        self._convert_args()
        self._preprocessors()

    def _convert_args(self):
        fn, bb, t = self.convert
        P = prov.prov_of(fn)
        args = P.call_args(bb)
        self.mode_arg = args[1]
        self.mods_arg = args[2]
        want = MODE_VARIANT[self.mode]
        m = prov.strip(self.mode_arg)
        if not (m[0] == 'agg' and m[2].endswith('GameMode') and m[3] == want):
            self.problems.append('%s converts to %s instead of GameMode::%s' % (fn.path, prov.show(m), want))
        g = prov.strip(self.mods_arg, names=prov.TRANSPARENT_NAMES - {'get_mods'})
        ok = False
        owner = fn
        # the converting helper may receive the mods as a parameter: follow it up the forwarding chain
        for cfn, cbb in reversed(self.links):
            pp = as_param_path(g, through_calls=False)
            if pp is None or pp[1] != ():
                break
            cargs = prov.prov_of(cfn).call_args(cbb)
            if pp[0] > len(cargs):
                break
            g = prov.strip(cargs[pp[0] - 1], names=prov.TRANSPARENT_NAMES - {'get_mods'})
            owner = cfn
        if g[0] == 'call' and prov.callee(g) == GET_MODS:
            src = as_param_path(g[2][0])
            dp = self.difficulty_param(owner)
            if src is not None and dp is not None and src == (dp, ()):
                ok = True
        if not ok:
            self.problems.append('%s converts with mods `%s`, not the Difficulty parameter\'s get_mods()' % (
                fn.path, prov.show(g, maxdepth=4)))

    @staticmethod
    def difficulty_param(fn):
        for i, inp in enumerate(fn.j.get('inputs', [])):
            if inp.get('adt') == 'any::difficulty::Difficulty' or inp.get('to_adt') == 'any::difficulty::Difficulty':
                return i + 1
        return None

    def _preprocessors(self):
        """local functions taking &mut Beatmap invoked by the work function (followed through local helpers,
        bound 3), excluding whatever convert_ref/convert_mut call themselves"""
        F = self.F
        seen = set()

        def visit(fn, depth, outer_guards):
            if fn.path in seen or depth > 3:
                return
            seen.add(fn.path)
            # direct writes / mutable borrows of a Beatmap field inside the entry itself count as preprocessing too
            for bi, b in enumerate(fn.blocks):
                if b['cleanup']:
                    continue
                for s_ in b['s']:
                    if s_['k'] != 'assign':
                        continue
                    hits = [e.get('f') for e in s_['p'].get('proj', []) if isinstance(e, dict) and e.get('adt') == BEATMAP]
                    rv = s_['rv']
                    if rv['k'] in ('ref', 'rawptr') and rv.get('bk') in ('mut', 'Mut'):
                        hits += [e.get('f') for e in rv['p'].get('proj', []) if isinstance(e, dict) and e.get('adt') == BEATMAP]
                    for f_ in hits:
                        gs = outer_guards + [(prov.show(strip_guard(c), maxdepth=5), lab) for c, lab in arms.guards_of(fn, bi)]
                        self.preprocessors.append(('<direct mutation of Beatmap.%s>' % f_, tuple(gs), fn, bi))
            for bi, t in fn.calls():
                p = callee_path(t)
                if p in (CONVERT_REF, CONVERT_MUT) or not t['func'].get('local'):
                    continue
                if takes_mut_beatmap(F, p):
                    gs = outer_guards + [(prov.show(strip_guard(c), maxdepth=5), lab) for c, lab in arms.guards_of(fn, bi)]
                    self.preprocessors.append((p, tuple(gs), fn, bi))
                else:
                    tgt = F.fn(p)
                    # only helpers that receive the converted map (a Beatmap / Cow<Beatmap> argument) can preprocess it
                    if tgt is not None and tgt.kind != 'Closure' and any(
                            'Beatmap' in i['s'] for i in tgt.j.get('inputs', [])) and \
                            any(i['k'] == 'refmut' or 'Cow' in i['s'] for i in tgt.j.get('inputs', [])):
                        visit(tgt, depth + 1, outer_guards)

        visit(self.work, 0, [])


def strip_guard(c):
    return c


def preprocess_signature(entry):
    """set of (preprocessor, guards) — guards rendered without the local numbering of the function"""
    out = set()
    for p, gs, fn, bi in entry.preprocessors:
        norm = []
        dp = Entry.difficulty_param(fn)
        for g, lab in gs:
            g = re.sub(r'param#%d\b' % dp, 'difficulty', g) if dp else g
            # guards introduced by `?` on the conversion result are the same in every entry
            # (only the test of the `?` itself: a later guard whose ARGUMENT is the converted map — `helper(&map)` — mentions the branch too)
            if 'Try>::branch' in g and g.startswith('discr(') and lab in ('Continue', 'Break'):
                continue
            # ... and so is the same test written by hand (`match map.convert_ref(..) { Ok(map) => map, Err(e) => return Err(e) }`): a
            # preprocessor of the converted map exists on the Ok side only
            if g.startswith('discr(') and 'Beatmap::convert_ref(' in g and lab == 'Ok':
                continue
            norm.append((g, lab))
        out.add((p, tuple(norm)))
    return out


def always_converted(F, fn, k, depth=0, seen=None):
    """callers (transitively) that hand parameter k of fn a map which is not the result of convert_ref"""
    seen = seen or set()
    if (fn.path, k) in seen or depth > 4:
        return []
    seen.add((fn.path, k))
    bad = []
    sites = F.callers().get(fn.path, [])
    if not sites:
        return [fn.path + ' (no caller)']
    for cfn, cbb, ct in sites:
        a = prov.prov_of(cfn).call_args(cbb)[k - 1]
        if from_convert_ref(F, a):
            continue
        pp = as_param_path(a)
        if pp is not None and pp[1] == () and cfn.kind == 'Closure' and pp[0] >= 2:
            # `convert_ref(..).map(|map| helper(difficulty, &map))`: the closure's parameter is the payload of the receiver it is mapped over
            parent = F.fn(cfn.path.rsplit('::', 1)[0])
            ok = False
            if parent is not None:
                PP = prov.prov_of(parent)
                for pb, pt in parent.calls():
                    if pt['func'].get('name') in ('map', 'and_then', 'map_or', 'map_or_else', 'is_ok_and', 'is_some_and'):
                        pargs = PP.call_args(pb)
                        if pargs and any(x[0] == 'agg' and x[1] == 'closure' and x[2] == cfn.path for x in pargs[1:]) and from_convert_ref(F, pargs[0]):
                            ok = True
            if not ok:
                bad.append(cfn.path)
        elif pp is not None and pp[1] == () and pp[0] <= len(cfn.j.get('inputs') or []) and cfn.j['inputs'][pp[0] - 1].get('to_adt') == BEATMAP:
            bad += always_converted(F, cfn, pp[0], depth + 1, seen)
        else:
            bad.append(cfn.path)
    return bad




def difficulty_getters(F, roots):
    """names of the Difficulty::get_* accessors reachable from the given functions (resolved call graph)"""
    import callgraph
    cg = callgraph.of(F)
    out = {}
    for p in cg.reachable_from(set(roots)):
        f = F.fn(p)
        if f is None:
            continue
        for bi, t in f.calls():
            c = callee_path(t)
            if c.startswith('any::difficulty::Difficulty::get_'):
                out.setdefault(c.split('::')[-1], []).append(p)
    return out


def from_convert_ref(F, v, limit=400, depth=2):
    """the tree derives from Beatmap::convert_ref(..): directly, or through a local helper whose return value does
    (`convert::convert_with_mods(map, mods)?`)"""
    for x in prov.walk(v, limit=limit):
        if x[0] != 'call':
            continue
        if x[1].get('name') == 'convert_ref':
            return True
        if depth > 0 and x[1].get('local') and 'Beatmap' in str((F.fn(x[1].get('path') or '').j.get('output') if F.fn(x[1].get('path') or '') else '') or ''):
            h = F.fn(x[1].get('path') or '')
            if h is not None and from_convert_ref(F, prov.prov_of(h).return_value(), limit, depth - 1):
                return True
    return False
