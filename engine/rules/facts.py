"""Loading and indexing of the fact files written by the rustc_private driver (E1)."""
import json
import os
import re


class Fn:
    """One function / method / closure body with its MIR."""

    def __init__(self, j, facts):
        self.j = j
        self.facts = facts
        self.path = j['path']
        self.dpath = j['dpath']
        self.kind = j['kind']
        self.name = j.get('name')
        self.loc = j['loc']
        self.mir = j['mir']
        self.blocks = self.mir['blocks']
        self.locals = self.mir['locals']
        self.argc = self.mir['argc']
        self.impl_self = j.get('impl_self')
        self.impl_trait = j.get('impl_trait')
        self.in_trait = j.get('in_trait')
        self.vis = j.get('vis', '')
        self.is_unsafe = j.get('unsafe', False)
        self.docs = j.get('docs', '')
        self.parent = j.get('parent')
        self._cfg = None
        self._names = None
        self.promoted = [PromotedFn(self, i, m) for i, m in enumerate(j.get('promoted', []))]

    # -- naming ---------------------------------------------------------------------------
    @property
    def is_pub(self):
        return self.vis == 'Public'

    @property
    def self_adt(self):
        if self.impl_self:
            return self.impl_self.get('adt')
        return None

    def where(self, line=None):
        f, lo, hi = self.loc
        return '%s:%s' % (f, line if line else lo)

    def local_names(self):
        """local index -> user variable name (only for plain locals)"""
        if self._names is None:
            m = {}
            for n in self.mir['names']:
                p = n['place']
                if 'proj' not in p:
                    m.setdefault(p['l'], n['name'])
            self._names = m
        return self._names

    def arg_name(self, i):
        """1-based MIR argument local -> source name"""
        return self.local_names().get(i, '_%d' % i)

    # -- iteration ------------------------------------------------------------------------
    def calls(self, include_cleanup=False):
        for bi, b in enumerate(self.blocks):
            if b['cleanup'] and not include_cleanup:
                continue
            t = b['t']
            if t['k'] == 'call':
                yield bi, t

    def statements(self, include_cleanup=False):
        for bi, b in enumerate(self.blocks):
            if b['cleanup'] and not include_cleanup:
                continue
            for si, s in enumerate(b['s']):
                yield bi, si, s

    def assigns(self):
        for bi, si, s in self.statements():
            if s['k'] == 'assign':
                yield bi, si, s

    def local_ty(self, l):
        return self.locals[l]

    @property
    def cfg(self):
        if self._cfg is None:
            from cfg import Cfg
            self._cfg = Cfg(self)
        return self._cfg

    def __repr__(self):
        return '<Fn %s>' % self.path


class PromotedFn(Fn):
    """a promoted constant body of a function (evaluated on demand by the provenance engine)"""

    def __init__(self, owner, idx, mir):
        self.j = {}
        self.facts = owner.facts
        self.path = '%s::promoted[%d]' % (owner.path, idx)
        self.dpath = self.path
        self.kind = 'Promoted'
        self.name = None
        self.loc = owner.loc
        self.mir = mir
        self.blocks = mir['blocks']
        self.locals = mir['locals']
        self.argc = mir['argc']
        self.impl_self = None
        self.impl_trait = None
        self.in_trait = None
        self.vis = ''
        self.is_unsafe = False
        self.docs = ''
        self.parent = owner.path
        self._cfg = None
        self._names = None
        self.promoted = []


def callee_path(t):
    f = t['func']
    return f.get('path') or ''


def callee_name(t):
    return t['func'].get('name') or ''


class Facts:
    def __init__(self, path):
        with open(path) as fh:
            self.j = json.load(fh)
        self.file = path
        self.crate = self.j['crate']
        self.cfg = self.j['cfg']
        self.fns = [Fn(f, self) for f in self.j['fns']]
        self.by_path = {}
        for f in self.fns:
            self.by_path.setdefault(f.path, []).append(f)
        self.adts = {a['path']: a for a in self.j['adts']}
        self.impls = self.j['impls']
        self.statics = self.j['statics']
        self.consts = self.j['consts']
        self.traits = {t['path']: t for t in self.j['traits']}
        self.unsafe_blocks = self.j['unsafe_blocks']
        self.foreign_fns = {f['path']: f for f in self.j['foreign_fns']}
        self.foreign_adts = {f['path']: f for f in self.j.get('foreign_adts', [])}
        self._callers = None
        self._closures_of = None

    # -- lookups --------------------------------------------------------------------------
    def fn(self, path):
        """exactly one function with this def-path string, else None"""
        l = self.by_path.get(path, [])
        return l[0] if len(l) == 1 else None

    def fn_matching(self, regex):
        r = re.compile(regex)
        return [f for f in self.fns if r.search(f.path)]

    def methods(self, adt=None, name=None, trait=None, inherent_only=False):
        """methods of impls whose self type is the ADT `adt` (def path) and/or with item name"""
        out = []
        for f in self.fns:
            if f.kind != 'AssocFn':
                continue
            if adt is not None and f.self_adt != adt:
                continue
            if name is not None and f.name != name:
                continue
            if trait is not None and f.impl_trait != trait:
                continue
            if inherent_only and f.impl_trait:
                continue
            out.append(f)
        return out

    def method(self, adt, name, trait=None, inherent_only=False):
        l = self.methods(adt, name, trait, inherent_only)
        return l[0] if len(l) == 1 else None

    def closures_of(self, fn):
        if self._closures_of is None:
            m = {}
            for f in self.fns:
                if f.kind == 'Closure':
                    # direct parent = path minus last ::{closure#n}
                    par = f.path.rsplit('::{closure#', 1)[0]
                    m.setdefault(par, []).append(f)
            self._closures_of = m
        return self._closures_of.get(fn.path, [])

    def all_closures_of(self, fn):
        out = []
        stack = [fn]
        while stack:
            f = stack.pop()
            for c in self.closures_of(f):
                out.append(c)
                stack.append(c)
        return out

    def callers(self):
        """resolved callee path -> list of (Fn, bb, term)"""
        if self._callers is None:
            m = {}
            for f in self.fns:
                for bi, t in f.calls():
                    m.setdefault(callee_path(t), []).append((f, bi, t))
            self._callers = m
        return self._callers

    def adt_fields(self, adt_path, variant=None):
        a = self.adts.get(adt_path)
        if not a:
            return None
        vs = a['variants']
        if variant is None:
            v = vs[0]
        else:
            v = [x for x in vs if x['name'] == variant][0]
        return [f['name'] for f in v['fields']]


def load(path):
    return Facts(path)
