"""Switch / arm summaries and path enumeration over exported MIR."""
import prov
from facts import callee_path


def switch_info(fn, bb):
    """describe the switch terminating block bb:
    dict(cond=value tree of the switched operand, kind='bool'|'enum'|'int',
         edges=[(label, target_bb)])"""
    b = fn.blocks[bb]
    t = b['t']
    assert t['k'] == 'switch'
    P = prov.prov_of(fn)
    n = len(b['s'])
    cond = P.operand(t['discr'], bb, n)
    kind = 'int'
    labels = {}
    dty = t.get('discr_ty', '')
    if dty == 'bool':
        kind = 'bool'
        labels = {'0': 'false'}
    variants = None
    op = t['discr']
    if op['k'] in ('copy', 'move') and 'proj' not in op['p']:
        defs = P.reaching(op['p']['l'], bb, n)
        if len(defs) == 1 and defs[0].kind == 'assign':
            rv = defs[0].data['rv']
            if rv['k'] == 'discr' and 'variants' in rv:
                variants = {v: name for v, name in rv['variants']}
                kind = 'enum'
    edges = []
    used = set()
    for val, tgt in t['targets']:
        if kind == 'enum':
            lab = variants.get(val, val)
        elif kind == 'bool':
            lab = 'false' if val == '0' else 'true'
        else:
            lab = val
        used.add(lab)
        edges.append((lab, tgt))
    # otherwise edge
    ot = t['otherwise']
    if kind == 'bool':
        if 'true' not in used:
            edges.append(('true', ot))
    elif kind == 'enum':
        rest = [name for v, name in variants.items() if name not in used]
        if fn.blocks[ot]['t']['k'] == 'unreachable' and not fn.blocks[ot]['s']:
            pass
        elif len(rest) == 1:
            edges.append((rest[0], ot))
        elif rest:
            edges.append(('|'.join(rest), ot))
    else:
        edges.append(('_', ot))
    return dict(cond=cond, kind=kind, edges=edges)


def enum_switches(fn):
    """all switches on an enum discriminant: (bb, info)"""
    out = []
    for bi, b in enumerate(fn.blocks):
        if b['cleanup'] or b['t']['k'] != 'switch':
            continue
        if bi not in fn.cfg.reach:
            continue
        info = switch_info(fn, bi)
        if info['kind'] == 'enum':
            out.append((bi, info))
    return out


def region(fn, target, stop=()):
    """blocks dominated by `target` (the arm body)"""
    dom = fn.cfg.dom()
    return {b for b in fn.cfg.reach if target in dom.get(b, ())}


def calls_in(fn, blocks):
    out = []
    for bi in sorted(blocks):
        t = fn.blocks[bi]['t']
        if t['k'] == 'call':
            out.append((bi, t))
    return out


class Path:
    __slots__ = ('conds', 'calls', 'end', 'end_bb', 'blocks')

    def __init__(self, conds, calls, end, end_bb, blocks):
        self.conds = conds     # [(cond_tree, label)]
        self.calls = calls     # [(bb, term)]
        self.end = end         # 'return' | 'panic' | 'unreachable'
        self.end_bb = end_bb
        self.blocks = blocks


def enumerate_paths(fn, max_paths=512, start=0):
    """all acyclic paths from entry to return / diverging call; None if the function has loops
    or too many paths"""
    cfg = fn.cfg
    if cfg.sccs():
        return None
    out = []
    stack = [(start, [], [], [])]
    while stack:
        bb, conds, calls, blocks = stack.pop()
        b = fn.blocks[bb]
        t = b['t']
        k = t['k']
        blocks = blocks + [bb]
        if k == 'return':
            out.append(Path(conds, calls, 'return', bb, blocks))
        elif k == 'unreachable':
            out.append(Path(conds, calls, 'unreachable', bb, blocks))
        elif k == 'switch':
            info = switch_info(fn, bb)
            for lab, tgt in info['edges']:
                stack.append((tgt, conds + [(info['cond'], lab)], calls, blocks))
        elif k == 'call':
            calls2 = calls + [(bb, t)]
            if t.get('target') is None:
                out.append(Path(conds, calls2, 'panic', bb, blocks))
            else:
                stack.append((t['target'], conds, calls2, blocks))
        elif k in ('goto', 'drop', 'assert'):
            stack.append((t['target'], conds, calls, blocks))
        else:
            out.append(Path(conds, calls, k, bb, blocks))
        if len(out) + len(stack) > max_paths:
            return None
    return out


def guards_of(fn, bb):
    """conditions that hold on every path to bb: for each switch block that dominates bb and one of
    whose edge targets dominates bb exclusively, (cond tree, label).  Ordered from entry."""
    cfg = fn.cfg
    dom = cfg.dom()
    out = []
    doms = [d for d in dom.get(bb, ()) if d != bb and fn.blocks[d]['t']['k'] == 'switch']
    # order by dominance depth
    doms.sort(key=lambda d: len(dom[d]))
    for d in doms:
        info = switch_info(fn, d)
        hits = []
        for lab, tgt in info['edges']:
            if tgt == bb or tgt in dom.get(bb, ()):
                # the edge target must not be reachable from another edge of the same switch without
                # passing through d (i.e. tgt has d as only relevant predecessor)
                if all(p == d or tgt in dom.get(p, ()) for p in cfg.pred[tgt]):
                    hits.append(lab)
        if len(hits) >= 1 and len(hits) < len(info['edges']):
            out.append((info['cond'], '|'.join(hits)))
    return out


IDENTITY_BOOL = ('likely', 'unlikely', 'black_box', 'identity')


def _dominating_edges(fn, bb):
    """[(switch_bb, label)] for switches that dominate bb through exactly one group of edges"""
    cfg = fn.cfg
    dom = cfg.dom()
    out = []
    doms = [d for d in dom.get(bb, ()) if d != bb and fn.blocks[d]['t']['k'] == 'switch']
    doms.sort(key=lambda d: len(dom[d]))
    for d in doms:
        info = switch_info(fn, d)
        hits = []
        for lab, tgt in info['edges']:
            if tgt == bb or tgt in dom.get(bb, ()):
                if all(p == d or tgt in dom.get(p, ()) for p in cfg.pred[tgt]):
                    hits.append(lab)
        if 1 <= len(hits) < len(info['edges']):
            out.append((d, '|'.join(hits), info))
    return out


def _predicate_helper_facts(fn, cond, label, _depth):
    """`if helper(args)` where helper is a local, loop-free function returning bool: the facts that hold on every path on
    which the helper returns `label`, with the helper's parameters replaced by the arguments"""
    c = prov.strip(cond, names=set(IDENTITY_BOOL))
    if c[0] != 'call' or not c[1].get('local') or _depth > 2:
        return []
    target = fn.facts.fn(c[1].get('path')) if getattr(fn, 'facts', None) is not None else None
    if target is None or target.kind == 'Closure' or (target.j.get('output') or {}).get('s') != 'bool':
        return []
    if target.cfg.sccs():
        return []
    want = label == 'true'
    common = None
    PT = prov.prov_of(target)
    for r in target.cfg.returns:
        n = len(target.blocks[r]['s'])
        # each reaching definition of _0 is one way of returning
        for d in PT.reaching(0, r, n):
            v = PT.def_value(d)
            facts = [(prov.show(x, maxdepth=8), lab, x) for x, lab in bool_facts(target, d.bb, _depth + 1)]
            if v[0] == 'const' and v[1].get('val') in ('true', 'false'):
                if (v[1].get('val') == 'true') != want:
                    continue
            else:
                # returns the value of an expression: it is `label` exactly when that expression is
                facts.append((prov.show(v, maxdepth=8), label, v))
            keyed = {(a, b): x for a, b, x in facts}
            common = keyed if common is None else {k: x for k, x in common.items() if k in keyed}
    if not common:
        return []
    params = {i + 1: a for i, a in enumerate(c[2])}
    return [(prov.subst(x, params), lab) for (_, lab), x in common.items()]


def bool_facts(fn, bb, _depth=0):
    """atomic facts (cond tree, label) known to hold on entry to bb.  Short-circuit `a && b` / `a || b`
    lowering is undone: `phi(false, X) == true` implies X and everything that guarded X's evaluation."""
    out = []
    if _depth > 4:
        return out
    P = prov.prov_of(fn)
    for sw, label, info in _dominating_edges(fn, bb):
        out.append((info['cond'], label))
        if info['kind'] == 'enum' and _depth < 3:
            # `match x` where x was assembled on several paths as different variants (an inlined `fn f(..) -> Option<T>` with an early
            # `return None`): being in the arm of variant L means x came from a definition that built L — the facts at that definition hold too
            try:
                op = fn.blocks[sw]['t']['discr']
                dd = P.reaching(op['p']['l'], sw, len(fn.blocks[sw]['s'])) if op.get('k') in ('copy', 'move') and 'proj' not in op['p'] else []
                if len(dd) == 1 and dd[0].kind == 'assign' and dd[0].data['rv']['k'] == 'discr' and 'proj' not in dd[0].data['rv']['p']:
                    xdefs = P.reaching(dd[0].data['rv']['p']['l'], dd[0].bb, dd[0].idx)
                    # follow one plain copy/move (`dest = move _ret`)
                    for _ in range(3):
                        if len(xdefs) == 1 and xdefs[0].kind == 'assign' and xdefs[0].data['rv']['k'] == 'use' and \
                                xdefs[0].data['rv']['op'].get('k') in ('copy', 'move') and 'proj' not in xdefs[0].data['rv']['op']['p']:
                            xdefs = P.reaching(xdefs[0].data['rv']['op']['p']['l'], xdefs[0].bb, xdefs[0].idx)
                        else:
                            break
                    if len(xdefs) >= 2 and all(d.kind == 'assign' and d.data['rv']['k'] == 'agg' and d.data['rv'].get('enum') for d in xdefs):
                        live = [d for d in xdefs if d.data['rv'].get('variant') in label.split('|')]
                        if len(live) == 1:
                            out.extend(bool_facts(fn, live[0].bb, _depth + 1))
            except (KeyError, IndexError, TypeError):
                pass
        if info['kind'] != 'bool' or label not in ('true', 'false'):
            continue
        out.extend(_predicate_helper_facts(fn, info['cond'], label, _depth))
        # chase the switched operand through identity wrappers to a local with several definitions
        op = fn.blocks[sw]['t']['discr']
        at_bb, at_idx = sw, len(fn.blocks[sw]['s'])
        for _ in range(4):
            if op['k'] not in ('copy', 'move') or 'proj' in op['p']:
                break
            defs = P.reaching(op['p']['l'], at_bb, at_idx)
            if len(defs) == 1 and defs[0].kind == 'call' and defs[0].data['func'].get('name') in IDENTITY_BOOL:
                op = defs[0].data['args'][0]
                at_bb, at_idx = defs[0].bb, defs[0].idx
                continue
            if len(defs) == 1 and defs[0].kind == 'assign' and defs[0].data['rv']['k'] == 'use':
                op = defs[0].data['rv']['op']
                at_bb, at_idx = defs[0].bb, defs[0].idx
                continue
            if len(defs) >= 2:
                want_const = 'false' if label == 'true' else 'true'
                live = []
                for d in defs:
                    v = P.def_value(d)
                    if v[0] == 'const' and v[1].get('val') == want_const:
                        continue
                    live.append((d, v))
                if len(live) < len(defs):
                    for d, v in live:
                        out.append((v, label))
                        out.extend(bool_facts(fn, d.bb, _depth + 1))
                elif label == 'false' and any(v[0] == 'const' and v[1].get('val') == 'false' for _, v in live):
                    # `A && B` is false: nothing definite, but "whenever the facts under which B was evaluated hold, B is false".  Consumers that
                    # know A from elsewhere (a later `if A { .. }`) can conclude not-B.  Encoded as (('implies', premises, B), 'false').
                    for d, v in live:
                        if v[0] == 'const':
                            continue
                        prem = tuple(bool_facts(fn, d.bb, _depth + 1))
                        if prem:
                            out.append((('implies', prem, v), 'false'))
            break
    return out


def arm_return_values(fn, sw_bb=None):
    """for a function that switches once on an enum discriminant of one of its parameters:
    {label: value tree of _0 assigned inside that arm}; label may be 'A|B' for shared arms.
    Returns (cond_tree, {label: value | None})"""
    sws = enum_switches(fn)
    if sw_bb is not None:
        sws = [(b, i) for b, i in sws if b == sw_bb]
    if len(sws) > 1:
        # keep the outermost switch (drop elaboration re-tests the discriminant near the exit)
        dom = fn.cfg.dom()
        sws.sort(key=lambda x: len(dom.get(x[0], ())))
        first = sws[0]
        if all(first[0] in dom.get(b, ()) for b, _ in sws[1:]):
            sws = [first]
    if len(sws) != 1:
        return None, {}
    bb, info = sws[0]
    P = prov.prov_of(fn)
    by_target = {}
    for lab, tgt in info['edges']:
        by_target.setdefault(tgt, []).append(lab)
    out = {}
    for tgt, labs in by_target.items():
        reg = region(fn, tgt)
        vals = []
        for d in P.defs:
            if d.local == 0 and d.whole and d.bb in reg:
                vals.append(P.def_value(d))
        label = '|'.join(labs)
        out[label] = prov.phi(vals) if vals else None
    return info['cond'], out


def specialized_paths(fn, args):
    r = specialized_paths_ex(fn, args)
    return None if r is None else [(rest, val) for rest, val, _ in r]


def path_field_writes(fn, blocks, local=1, args=None):
    """{field: value} of the direct field assignments to `local` made in the given blocks (one path), parameters substituted"""
    P = prov.prov_of(fn)
    params = {i + 1: a for i, a in enumerate(args)} if args else None
    out = {}
    for bb in blocks:
        for si, s_ in enumerate(fn.blocks[bb]['s']):
            if s_['k'] != 'assign' or s_['p']['l'] != local:
                continue
            pr = [e for e in s_['p'].get('proj', []) if isinstance(e, dict) and 'f' in e]
            if len(pr) == 1:
                v = P.rvalue(s_['rv'], bb, si)
                out[pr[0]['f']] = prov.subst(v, params) if params else v
    return out


def specialized_paths_ex(fn, args):
    """acyclic paths of `fn` when called with the argument trees `args` (list, parameter 1 first): a switch whose scrutinee becomes
    a known enum variant / bool constant after substitution keeps only its matching edge.  Returns [(remaining conds, value of _0)]
    with parameters substituted, or None (loops / too many paths)."""
    paths = enumerate_paths(fn)
    if paths is None:
        return None
    params = {i + 1: a for i, a in enumerate(args)}
    P = prov.prov_of(fn)
    out = []
    for p in paths:
        if p.end != 'return':
            continue
        feasible = True
        rest = []
        for c, lab in p.conds:
            c2 = prov.subst(c, params)
            known = None
            x = prov.strip(c2, names=set(IDENTITY_BOOL))
            if x[0] == 'discr':
                y = prov.strip(x[1], names={'clone', 'copied', 'cloned'})
                if y[0] == 'agg' and y[1] == 'adt' and y[3]:
                    known = y[3]
            elif x[0] == 'const' and x[1].get('val') in ('true', 'false'):
                known = x[1]['val']
            if known is not None:
                if known not in lab.split('|'):
                    feasible = False
                    break
            else:
                rest.append((c2, lab))
        if not feasible:
            continue
        val = None
        for bb in reversed(p.blocks):
            ds = [d for d in P.defs if d.local == 0 and d.whole and d.bb == bb]
            if ds:
                val = P.def_value(ds[-1])
                break
        if val is None:
            return None
        out.append((rest, prov.subst(val, params), list(p.blocks)))
    return out


# ---- path-wise constant resolution: on ONE acyclic path the definition that reaches a use is the last one on the path
def _last_def(fn, blocks, i, si, local):
    for k in range(i, -1, -1):
        bb = blocks[k]
        stmts = fn.blocks[bb]['s']
        hi = si if (k == i and si is not None) else len(stmts)
        if k < i or si is None:
            t = fn.blocks[bb]['t']
            if k < i and t['k'] == 'call' and t.get('dest') and t['dest']['l'] == local:
                return ('call', t)
        for j in range(hi - 1, -1, -1):
            s = stmts[j]
            if s['k'] == 'assign' and s['p']['l'] == local:
                return ('assign', s, k, j)
    return None


def _const_struct_field(facts, defpath, fields):
    """value text of field path `fields` of the constant `defpath`, read from the constant's initialiser MIR (struct literal of constants)"""
    c = next((c for c in facts.j.get('consts', []) if c.get('path') == defpath), None)
    if c is None or 'mir' not in c or not fields:
        return None
    locs = {}
    for b in c['mir']['blocks']:
        for s_ in b['s']:
            if s_['k'] == 'assign' and 'proj' not in s_['p']:
                locs[s_['p']['l']] = s_['rv']
    rv = locs.get(0)
    for depth, f in enumerate(fields):
        if rv is None or rv.get('k') != 'agg':
            return None
        names = rv.get('fields') or [str(i) for i in range(len(rv.get('ops', [])))]
        if f not in names:
            return None
        o = rv['ops'][names.index(f)]
        if o.get('k') == 'const':
            return o.get('val') if depth == len(fields) - 1 else None
        if o.get('k') in ('copy', 'move') and 'proj' not in o['p']:
            rv = locs.get(o['p']['l'])
            if rv is not None and rv.get('k') == 'use' and rv['op'].get('k') == 'const' and depth == len(fields) - 1:
                return rv['op'].get('val')
        else:
            return None
    return None


def path_resolve(fn, blocks, i, si, op, fields=(), depth=0):
    """where the operand `op`, used in blocks[i] before statement si (None = at the terminator), comes from ON THIS PATH, followed back through
    copies, moves, reborrows, tuple / struct literals and constants:  ('const', text)  |  ('op', operand json, block index in path, stmt index)
    (the last operand that could be followed — a call result, an arithmetic rvalue, a parameter)  |  None"""
    if depth > 16 or not isinstance(op, dict):
        return None
    if op.get('k') == 'const':
        if not fields:
            return ('const', op.get('val'))
        v = _const_struct_field(fn.facts, op.get('rdef') or op.get('def'), fields) if (op.get('def') or op.get('rdef')) else None
        return ('const', v) if v is not None else None
    if op.get('k') not in ('copy', 'move'):
        return None
    p = op['p']
    fl = tuple(e['f'] for e in p.get('proj', []) if isinstance(e, dict) and 'f' in e) + tuple(fields)
    if any(isinstance(e, dict) and 'f' not in e and e.get('k') not in (None, 'deref') for e in p.get('proj', [])):
        return None
    here = ('op', {'k': op['k'], 'p': p} if not fields else None, i, si)
    d = _last_def(fn, blocks, i, si, p['l'])
    if d is None or d[0] != 'assign':
        return here if not fields and 'proj' not in p else (('op', op, i, si) if not fields else None)
    _, s, k, j = d
    if 'proj' in s['p']:
        return None
    rv = s['rv']
    if rv['k'] == 'use':
        return path_resolve(fn, blocks, k, j, rv['op'], fl, depth + 1)
    if rv['k'] in ('ref', 'rawptr'):
        return path_resolve(fn, blocks, k, j, {'k': 'copy', 'p': rv['p']}, fl, depth + 1)
    if rv['k'] == 'agg':
        if not fl:
            return ('const', rv.get('variant')) if rv.get('enum') else ('op', op, i, si)
        f0 = fl[0]
        ops = rv.get('ops', [])
        if rv.get('ak') == 'tuple' and f0.isdigit() and int(f0) < len(ops):
            return path_resolve(fn, blocks, k, j, ops[int(f0)], fl[1:], depth + 1)
        if rv.get('ak') == 'adt' and f0 in (rv.get('fields') or []):
            return path_resolve(fn, blocks, k, j, ops[rv['fields'].index(f0)], fl[1:], depth + 1)
        return None
    if rv['k'] == 'discr' and not fl:
        return path_resolve(fn, blocks, k, j, {'k': 'copy', 'p': rv['p']}, (), depth + 1)
    if rv['k'] == 'unop' and rv.get('op') == 'Not' and not fl:
        r = path_resolve(fn, blocks, k, j, rv.get('a') or rv.get('operand') or rv.get('o'), (), depth + 1)
        if r and r[0] == 'const':
            return ('const', {'true': 'false', 'false': 'true'}.get(r[1]))
        return None
    if fl:
        return None
    return ('op', op, i, si)


def path_const(fn, blocks, i, si, op, fields=(), depth=0):
    """constant ('true' / 'false' / integer text / enum variant name) the operand evaluates to ON THIS PATH, or None"""
    r = path_resolve(fn, blocks, i, si, op, fields, depth)
    return r[1] if r and r[0] == 'const' else None


def feasible_paths(fn, max_paths=2048):
    """acyclic entry-to-return paths of fn that survive path-wise constant propagation: a switch whose operand is a constant assembled
    earlier on the same path (a flag set in a match arm and tested after the match) keeps only the matching edge.  None if fn has loops."""
    paths = enumerate_paths(fn, max_paths=max_paths)
    if paths is None:
        return None
    out = []
    for p in paths:
        if p.end != 'return':
            continue
        ok = True
        for i, bb in enumerate(p.blocks[:-1]):
            t = fn.blocks[bb]['t']
            if t['k'] != 'switch':
                continue
            v = path_const(fn, p.blocks, i, None, t['discr'])
            if v is None:
                continue
            info = switch_info(fn, bb)
            nxt = p.blocks[i + 1]
            labs = [lab for lab, tgt in info['edges'] if tgt == nxt]
            names = set()
            for lab in labs:
                names |= set(lab.split('|'))
            explicit = set()
            for lab, tgt in info['edges']:
                explicit |= set(lab.split('|'))
            if v in explicit and v not in names:
                ok = False
                break
        if ok:
            out.append(p)
    return out
