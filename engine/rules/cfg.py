"""CFG utilities over exported MIR: successors, dominators, post-dominators, loops (SCC),
must-pass-through."""


def term_succs(t, include_unwind=False):
    k = t['k']
    out = []
    if k == 'goto':
        out = [t['target']]
    elif k == 'switch':
        out = [bb for _, bb in t['targets']] + [t['otherwise']]
    elif k in ('drop', 'assert'):
        out = [t['target']]
    elif k == 'call':
        if t.get('target') is not None:
            out = [t['target']]
    if include_unwind and 'unwind' in t:
        out = out + [t['unwind']]
    # dedupe, keep order
    seen = []
    for b in out:
        if b not in seen:
            seen.append(b)
    return seen


class Cfg:
    def __init__(self, fn):
        self.fn = fn
        self.n = len(fn.blocks)
        self.succ = [[] for _ in range(self.n)]
        self.pred = [[] for _ in range(self.n)]
        for i, b in enumerate(fn.blocks):
            if b['cleanup']:
                continue
            for s in term_succs(b['t']):
                if fn.blocks[s]['cleanup']:
                    continue
                self.succ[i].append(s)
                self.pred[s].append(i)
        self.reach = self._reachable(0)
        self.returns = [i for i in self.reach if fn.blocks[i]['t']['k'] == 'return']
        self._dom = None
        self._pdom = None
        self._rpo = None

    def _reachable(self, start):
        seen = set([start])
        st = [start]
        while st:
            b = st.pop()
            for s in self.succ[b]:
                if s not in seen:
                    seen.add(s)
                    st.append(s)
        return seen

    def rpo(self):
        if self._rpo is None:
            order = []
            seen = set()
            # iterative DFS post-order
            stack = [(0, iter(self.succ[0]))]
            seen.add(0)
            while stack:
                b, it = stack[-1]
                adv = False
                for s in it:
                    if s not in seen:
                        seen.add(s)
                        stack.append((s, iter(self.succ[s])))
                        adv = True
                        break
                if not adv:
                    order.append(b)
                    stack.pop()
            order.reverse()
            self._rpo = order
        return self._rpo

    # -- dominators (iterative, sets; functions are small) --------------------------------
    def dom(self):
        """dom[b] = set of blocks dominating b (including b)"""
        if self._dom is None:
            rpo = self.rpo()
            allb = set(rpo)
            dom = {b: set(allb) for b in rpo}
            dom[0] = {0}
            changed = True
            while changed:
                changed = False
                for b in rpo:
                    if b == 0:
                        continue
                    ps = [p for p in self.pred[b] if p in dom]
                    if ps:
                        new = set.intersection(*[dom[p] for p in ps]) | {b}
                    else:
                        new = {b}
                    if new != dom[b]:
                        dom[b] = new
                        changed = True
            self._dom = dom
        return self._dom

    def pdom(self):
        """pdom[b] = set of blocks post-dominating b w.r.t. normal returns (including b).
        Blocks that cannot reach a return (diverging) are treated as having no post-dominators
        except themselves."""
        if self._pdom is None:
            nodes = [b for b in self.reach]
            EXIT = -1
            succ = {b: list(self.succ[b]) for b in nodes}
            for r in self.returns:
                succ[r] = [EXIT]
            # nodes that reach EXIT
            can = set([EXIT])
            changed = True
            while changed:
                changed = False
                for b in nodes:
                    if b not in can and any(s in can for s in succ[b]):
                        can.add(b)
                        changed = True
            allb = set(n for n in nodes if n in can) | {EXIT}
            pd = {b: set(allb) for b in allb}
            pd[EXIT] = {EXIT}
            changed = True
            while changed:
                changed = False
                for b in allb:
                    if b == EXIT:
                        continue
                    ss = [s for s in succ[b] if s in can]
                    new = set.intersection(*[pd[s] for s in ss]) | {b} if ss else {b}
                    if new != pd[b]:
                        pd[b] = new
                        changed = True
            for b in nodes:
                if b not in pd:
                    pd[b] = {b}
            self._pdom = pd
        return self._pdom

    def dominates(self, a, b):
        return a in self.dom().get(b, ())

    def postdominates(self, a, b):
        return a in self.pdom().get(b, ())

    # -- paths ------------------------------------------------------------------------------
    def reachable_from(self, start, avoid=()):
        """blocks reachable from `start` (inclusive) without entering blocks in `avoid`"""
        avoid = set(avoid)
        if start in avoid:
            return set()
        seen = {start}
        st = [start]
        while st:
            b = st.pop()
            for s in self.succ[b]:
                if s not in seen and s not in avoid:
                    seen.add(s)
                    st.append(s)
        return seen

    def can_reach(self, a, b, avoid=()):
        return b in self.reachable_from(a, avoid)

    def must_pass_through(self, start, through, ends=None):
        """True iff every path from block `start` to any block in `ends` (default: returns)
        passes through a block in `through`.  `start` itself counts if it is in `through`."""
        through = set(through)
        if ends is None:
            ends = self.returns
        if start in through:
            return True
        r = self.reachable_from(start, avoid=through)
        return not any(e in r for e in ends)

    # -- loops ------------------------------------------------------------------------------
    def sccs(self):
        """Tarjan; returns list of sets with |scc|>1 or a self loop"""
        index = {}
        low = {}
        onstack = set()
        stack = []
        out = []
        counter = [0]
        import sys
        sys.setrecursionlimit(10000)

        def strong(v):
            index[v] = low[v] = counter[0]
            counter[0] += 1
            stack.append(v)
            onstack.add(v)
            for w in self.succ[v]:
                if w not in index:
                    strong(w)
                    low[v] = min(low[v], low[w])
                elif w in onstack:
                    low[v] = min(low[v], index[w])
            if low[v] == index[v]:
                comp = set()
                while True:
                    w = stack.pop()
                    onstack.discard(w)
                    comp.add(w)
                    if w == v:
                        break
                if len(comp) > 1 or v in self.succ[v]:
                    out.append(comp)

        for v in self.rpo():
            if v not in index:
                strong(v)
        return out

    def natural_loops(self):
        """loops by back edge (tail -> header where header dominates tail): header -> body set"""
        dom = self.dom()
        loops = {}
        for b in self.rpo():
            for s in self.succ[b]:
                if s in dom.get(b, ()):
                    body = {s, b}
                    st = [b]
                    while st:
                        x = st.pop()
                        if x == s:
                            continue
                        for p in self.pred[x]:
                            if p not in body and p in dom:
                                body.add(p)
                                st.append(p)
                    loops.setdefault(s, set()).update(body)
        return loops
