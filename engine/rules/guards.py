"""Guard discipline of util::sync::RefCount (RefCell in the default build, RwLock with `sync`).

Forward may-be-live dataflow for guard-typed locals + per-function acquisition summaries closed over
the call graph.  A conflict is
  * get_mut() on T while any guard of T may be live        (W after R/W)
  * get()     on T while a write guard of T may be live    (R after W)
  * a call whose callee summary acquires W(T) while a guard of T is live, or R(T) while W(T) is live.
With RefCell a conflict panics (BorrowMutError), with RwLock it self-deadlocks."""
import re

from facts import callee_path

GET = re.compile(r'^util::sync::inner::RefCount::<T>::get$')
GET_MUT = re.compile(r'^util::sync::inner::RefCount::<T>::get_mut$')
MAP = re.compile(r'(^std::cell::Ref::<.*>::(map|filter_map|map_split)$)|(^std::cell::RefMut::<.*>::(map|filter_map)$)|'
                 r'(^util::sync::inner::Ref::<.*>::map$)|(::Ref::<\'b, T>::map$)|(::RefMut::<\'b, T>::map$)')
GUARD_TY = re.compile(r'(std::cell::Ref(Mut)?<|std::sync::RwLock(Read|Write)Guard<|util::sync::inner::Ref<|'
                      r'util::sync::inner::RefWrap<)')


def is_acquire(t):
    p = callee_path(t)
    if GET.match(p):
        return 'R'
    if GET_MUT.match(p):
        return 'W'
    return None


def pointee(t):
    ta = t['func'].get('targs') or []
    return ta[0] if ta else '?'


def closure_args(fn, t):
    out = []
    for a in t['args']:
        if a['k'] in ('copy', 'move') and 'proj' not in a['p']:
            ty = fn.locals[a['p']['l']]
            if ty.get('k') == 'closure':
                out.append(ty.get('closure'))
            elif ty.get('k') in ('ref', 'refmut') and 'closure@' in ty.get('to', ''):
                pass
    return out


class Summaries:
    def __init__(self, F):
        self.F = F
        self.direct = {}
        self.callees = {}
        for fn in F.fns:
            acq = set()
            cs = set()
            for bi, t in fn.calls():
                m = is_acquire(t)
                if m:
                    acq.add((m, pointee(t)))
                elif t['func'].get('local'):
                    cs.add(callee_path(t))
                for c in closure_args(fn, t):
                    cs.add(c)
            # closures constructed here may be called by whoever receives them
            for bi, si, s in fn.assigns():
                rv = s['rv']
                if rv['k'] == 'agg' and rv.get('ak') == 'closure':
                    cs.add(rv['closure'])
            self.direct[fn.path] = acq
            self.callees[fn.path] = cs
        self.total = {p: set(a) for p, a in self.direct.items()}
        changed = True
        while changed:
            changed = False
            for p, cs in self.callees.items():
                cur = self.total[p]
                for c in cs:
                    add = self.total.get(c)
                    if add and not add <= cur:
                        cur |= add
                        changed = True

    def of(self, path):
        return self.total.get(path, set())


def analyse(F, fn, summ):
    """returns (sites, conflicts, notes)
    sites: list of dict(bb, mode, ty, line)
    conflicts: list of dict(kind, at_line, what, held=[(mode, ty, line)])"""
    cfg = fn.cfg
    nb = len(fn.blocks)
    # guard facts are tuples (local, mode, ty, origin_line)
    IN = {0: frozenset()}
    OUT = {}
    sites = []
    conflicts = []
    seen_conf = set()

    def transfer(bb, state, record):
        st = set(state)
        b = fn.blocks[bb]
        for s in b['s']:
            if s['k'] == 'dead':
                st = {g for g in st if g[0] != s['l']}
            elif s['k'] == 'assign':
                rv = s['rv']
                # moving a guard local into another local transfers it
                if rv['k'] == 'use' and rv['op']['k'] == 'move' and 'proj' not in rv['op']['p']:
                    src = rv['op']['p']['l']
                    moved = [g for g in st if g[0] == src]
                    if moved:
                        st -= set(moved)
                        if 'proj' not in s['p']:
                            for g in moved:
                                st.add((s['p']['l'],) + g[1:])
                        else:
                            for g in moved:
                                st.add((-1,) + g[1:])   # stored into a place: lives until function exit
                elif rv['k'] == 'agg':
                    for o in rv['ops']:
                        if o['k'] == 'move' and 'proj' not in o['p']:
                            src = o['p']['l']
                            moved = [g for g in st if g[0] == src]
                            if moved:
                                st -= set(moved)
                                tgt = s['p']['l'] if 'proj' not in s['p'] else -1
                                for g in moved:
                                    st.add((tgt,) + g[1:])
        t = b['t']
        if t['k'] == 'drop':
            if 'proj' not in t['p']:
                st = {g for g in st if g[0] != t['p']['l']}
        elif t['k'] == 'call':
            line = t.get('ln')
            p = callee_path(t)
            m = is_acquire(t)
            moved_args = [a['p']['l'] for a in t['args'] if a['k'] == 'move' and 'proj' not in a['p']]
            moved_guards = [g for g in st if g[0] in moved_args]
            if m:
                ty = pointee(t)
                if record:
                    sites.append(dict(bb=bb, mode=m, ty=ty, line=line))
                held = [g for g in st if g[2] == ty or g[2] == '?' or ty == '?']
                bad = [g for g in held if m == 'W' or g[1] == 'W']
                if bad and record:
                    key = (bb, 'acquire')
                    if key not in seen_conf:
                        seen_conf.add(key)
                        conflicts.append(dict(kind='acquire', mode=m, ty=ty, line=line, bb=bb,
                                              held=sorted({(g[1], g[2], g[3]) for g in bad})))
                rr = [g for g in held if m == 'R' and g[1] == 'R']
                if rr and record:
                    key = (bb, 'rr')
                    if key not in seen_conf:
                        seen_conf.add(key)
                        conflicts.append(dict(kind='recursive-read', mode=m, ty=ty, line=line, bb=bb,
                                              held=sorted({(g[1], g[2], g[3]) for g in rr})))
                if 'proj' not in t['dest']:
                    st = {g for g in st if g[0] != t['dest']['l']}
                    st.add((t['dest']['l'], m, ty, line))
                else:
                    st.add((-1, m, ty, line))
            else:
                # callee summaries
                acq = set()
                if t['func'].get('local'):
                    acq |= summ.of(p)
                for c in closure_args(fn, t):
                    acq |= summ.of(c)
                if acq and st and record:
                    for (am, aty) in sorted(acq):
                        held = [g for g in st if (g[2] == aty or g[2] == '?' or aty == '?') and g[0] not in moved_args]
                        bad = [g for g in held if am == 'W' or g[1] == 'W']
                        if bad:
                            key = (bb, 'call', am, aty)
                            if key not in seen_conf:
                                seen_conf.add(key)
                                conflicts.append(dict(kind='call', mode=am, ty=aty, line=line, bb=bb, callee=p,
                                                      held=sorted({(g[1], g[2], g[3]) for g in bad})))
                        rr = [g for g in held if am == 'R' and g[1] == 'R']
                        if rr:
                            key = (bb, 'callrr', aty)
                            if key not in seen_conf:
                                seen_conf.add(key)
                                conflicts.append(dict(kind='recursive-read-call', mode=am, ty=aty, line=line, bb=bb,
                                                      callee=p, held=sorted({(g[1], g[2], g[3]) for g in rr})))
                # guards moved into the call: transferred to the result if the callee maps guards, else consumed
                if moved_guards:
                    st -= set(moved_guards)
                    dest_ty = fn.locals[t['dest']['l']]['s'] if 'proj' not in t['dest'] else ''
                    if GUARD_TY.search(dest_ty) and 'proj' not in t['dest']:
                        for g in moved_guards:
                            st.add((t['dest']['l'],) + g[1:])
                elif 'proj' not in t['dest']:
                    st = {g for g in st if g[0] != t['dest']['l']}
        return frozenset(st)

    rpo = cfg.rpo()
    changed = True
    it = 0
    while changed and it < 40:
        changed = False
        it += 1
        for b in rpo:
            if b == 0:
                st = frozenset()
            else:
                st = frozenset().union(*[OUT.get(p, frozenset()) for p in cfg.pred[b]]) if cfg.pred[b] else frozenset()
            IN[b] = st
            o = transfer(b, st, False)
            if OUT.get(b) != o:
                OUT[b] = o
                changed = True
    for b in rpo:
        transfer(b, IN.get(b, frozenset()), True)
    return sites, conflicts
