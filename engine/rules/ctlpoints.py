"""Control point vectors are mutated only inside the ControlPoint::add impls (C06-R4 / C19-R4)."""
import fieldidx
import prov
from common import as_param_path
from facts import callee_path

VECS = {
    'timing_points': 'model::control_point::timing::TimingPoint',
    'difficulty_points': 'model::control_point::difficulty::DifficultyPoint',
    'effect_points': 'model::control_point::effect::EffectPoint',
}
OWNERS = ['model::beatmap::Beatmap', 'model::beatmap::decode::BeatmapState']
ADD_TRAIT = 'rosu_map::section::timing_points::ControlPoint'
MUTATORS = {'push', 'insert', 'remove', 'swap_remove', 'truncate', 'clear', 'retain', 'retain_mut', 'drain', 'splice', 'extend',
            'extend_from_slice', 'append', 'sort', 'sort_by', 'sort_unstable_by', 'sort_by_key', 'dedup', 'dedup_by', 'dedup_by_key',
            'pop', 'resize', 'swap', 'reverse', 'iter_mut', 'last_mut', 'first_mut', 'get_mut', 'index_mut', 'as_mut_slice', 'deref_mut',
            'set_len', 'split_off', 'rotate_left', 'rotate_right', 'fill'}


def add_impls(F):
    return [f for f in F.fns if f.name == 'add' and f.impl_trait == ADD_TRAIT]


def insert_shape(F, fn, add_paths, depth=0, key_fn_is_time=False):
    """classify an `add` implementation (following one local helper): ('search', '', fn) | ('delegates', path, fn) | ('bad', why, fn)"""
    import combin
    P = prov.prov_of(fn)
    calls = [(bi, t) for bi, t in fn.calls()]
    names = [t['func'].get('name') for _, t in calls]
    local = [(bi, t) for bi, t in calls if t['func'].get('local') and not callee_path(t).endswith('}')]
    if 'binary_search_by' not in names:
        if len(local) == 1 and callee_path(local[0][1]) in add_paths:
            return 'delegates', callee_path(local[0][1]), fn
        if len(local) == 1 and depth < 2:
            helper = F.fn(callee_path(local[0][1]))
            if helper is not None:
                # is a key-extractor closure `|p| p.time` handed to the helper?
                key_ok = False
                for a in P.call_args(local[0][0]):
                    sa = prov.strip(a)
                    body = F.fn(sa[2]) if sa[0] == 'agg' and sa[1] == 'closure' else None
                    if body is not None:
                        rvk = prov.strip(prov.prov_of(body).return_value(), names=set())
                        pk = as_param_path(rvk)
                        key_ok = key_ok or (pk is not None and pk[1][-1:] == ('time',))
                return insert_shape(F, helper, add_paths, depth + 1, key_ok)
        return 'bad', 'neither a binary-search insert nor a delegation to one (calls %s)' % [callee_path(t) for _, t in local], fn
    # every mutation of the vector must be insert(Err(i)) or overwrite at Ok(i)
    for bi, t in calls:
        name = t['func'].get('name')
        if name in MUTATORS and name not in ('insert', 'index_mut', 'deref_mut', 'as_mut_slice'):
            recv_ty = ''
            if t['args'] and t['args'][0]['k'] in ('copy', 'move') and 'proj' not in t['args'][0]['p']:
                recv_ty = fn.locals[t['args'][0]['p']['l']]['s']
            if 'Vec<' in recv_ty or 'Point' in recv_ty:
                return 'bad', 'the vector is also mutated by `%s`, bypassing the search' % name, fn
        if name == 'insert':
            a = P.call_args(bi)
            idx = prov.show(a[1], maxdepth=6) if len(a) > 1 else ''
            if 'binary_search_by' not in idx or 'as Err' not in idx:
                return 'bad', 'insert position `%s` is not the Err(i) of the binary search' % idx, fn
        if name == 'index_mut':
            a = P.call_args(bi)
            idx = prov.show(a[1], maxdepth=6) if len(a) > 1 else ''
            if 'binary_search_by' not in idx or 'as Ok' not in idx:
                return 'bad', 'overwrite position `%s` is not the Ok(i) of the binary search' % idx, fn
    # comparator: total_cmp on `time` of the probe and of the new point (directly, or through a key function parameter whose
    # argument at the call site is a closure returning `.time`)
    bs = [(bi, t) for bi, t in calls if t['func'].get('name') == 'binary_search_by']
    args = P.call_args(bs[0][0])
    clo = prov.strip(args[1]) if len(args) > 1 else None
    cmp_ok = False
    if clo is not None and clo[0] == 'agg' and clo[1] == 'closure':
        rv = prov.strip(combin.apply_fn(F, clo, [('param', 99)], 2), names=set())
        if rv[0] == 'call' and rv[1].get('name') == 'total_cmp':
            txt = [prov.show(a, maxdepth=4) for a in rv[2]]
            direct = all('time' in x for x in txt) and any('param#99' in x for x in txt) and not all('param#99' in x for x in txt)
            via_key = all('indirect(' in x for x in txt) and any('param#99' in x for x in txt) and key_fn_is_time
            cmp_ok = direct or via_key
    if not cmp_ok:
        return 'bad', 'the binary search does not compare `time` of the probe with `time` of the new point via total_cmp', fn
    if 'insert' not in names:
        return 'bad', 'no insert at the searched position', fn
    return 'search', '', fn


def check(ctx, F, rule, only=None):
    adds = add_impls(F)
    add_paths = {f.path for f in adds}
    n_ok = 0
    for vec, elem in VECS.items():
        if only and vec not in only:
            continue
        mine = [f for f in adds if f.self_adt == elem]
        if not mine:
            ctx.violation(rule, 'anchor-missing:add:' + vec, 'ControlPoint::add for %s not found' % elem)
            continue
        searchers = 0
        for add in mine:
            ctx.saw(add)
            verdict, why, target = insert_shape(F, add, add_paths)
            if verdict == 'search':
                searchers += 1
                ctx.ok(rule, 'add-shape:%s:%s' % (vec, add.path), '%s = binary_search_by(total_cmp on time) then insert at Err(i) / overwrite at Ok(i)%s' % (
                    add.path, '' if target is add else ' (in helper %s)' % target.path), add.where())
            elif verdict == 'delegates':
                ctx.ok(rule, 'add-shape:%s:%s' % (vec, add.path), '%s delegates to %s' % (add.path, why), add.where())
            else:
                ctx.violation(rule, 'add-shape:%s:%s' % (vec, add.path), '%s: %s — strict time order / uniqueness of %s is not maintained' % (add.path, why, vec), add.where())
        ctx.require(searchers >= 1, rule, 'add-search:' + vec, '%d binary-search insert implementation(s) for %s' % (searchers, vec),
                    bad='no ControlPoint::add for %s performs the binary-search insert' % elem)
        # who mutates the vectors
        bad = []
        for owner in OWNERS:
            for a in fieldidx.accesses(F, owner, vec):
                fn = a['fn']
                if fn.path in add_paths:
                    continue
                if a['kind'] == 'assign' and a['last']:
                    # whole-vector assignment is allowed only from a constructor-like aggregate or a converted copy
                    if fn.impl_trait in ('std::clone::Clone', 'std::default::Default'):
                        continue
                    bad.append((fn, 'assigns the whole vector', a['line']))
                elif a['kind'] == 'assign':
                    bad.append((fn, 'writes an element in place', a['line']))
                elif a['kind'] == 'mutborrow':
                    # where does the &mut go?
                    s = a.get('stmt')
                    target = None
                    if s is not None and 'proj' not in s['p']:
                        al = {s['p']['l']}
                        grew = True
                        while grew:
                            grew = False
                            for bi2, si2, s2 in fn.assigns():
                                if 'proj' in s2['p'] or s2['p']['l'] in al:
                                    continue
                                rv2 = s2['rv']
                                src = rv2['op']['p'] if rv2['k'] == 'use' and rv2['op']['k'] in ('copy', 'move') else (rv2['p'] if rv2['k'] == 'ref' else None)
                                if src is not None and src['l'] in al and all(e == '*' for e in src.get('proj', [])):
                                    al.add(s2['p']['l'])
                                    grew = True
                        for bi, t in fn.calls():
                            if any(x['k'] in ('copy', 'move') and x['p']['l'] in al and 'proj' not in x['p'] for x in t['args']):
                                target = t
                    if target is not None and callee_path(target) in add_paths:
                        continue
                    if target is not None and target['func'].get('trait') == ADD_TRAIT and target['func'].get('name') == 'add':
                        continue
                    if target is not None and target['func'].get('local'):
                        k = next((i + 1 for i, x in enumerate(target['args']) if x['k'] in ('copy', 'move') and x['p']['l'] in al and 'proj' not in x['p']), None)
                        if k is not None and add_only_param(F, callee_path(target), k, add_paths):
                            continue
                    bad.append((fn, '&mut passed to %s' % (callee_path(target) if target else 'unknown use'), a['line']))
        for fn, what, line in bad:
            ctx.violation(rule, '%s:%s' % (vec, fn.path), '%s %s of %s outside ControlPoint::add: the vector may lose its strict time order' % (fn.path, what, vec), fn.where(line))
        if not bad:
            n_ok += 1
            ctx.ok(rule, 'only-add:' + vec, '%s of Beatmap / BeatmapState is mutated only through %s::add' % (vec, elem.split('::')[-1]))
    return n_ok


def add_only_param(F, path, k, add_paths, depth=0):
    """local function `path` mutates the vector behind its &mut parameter k only by handing it to ControlPoint::add (or to
    another such helper); shared re-borrows (look-ups) are fine"""
    h = F.fn(path)
    if h is None or depth > 2:
        return False
    al = {k}
    grew = True
    while grew:
        grew = False
        for bi, si, s2 in h.assigns():
            if 'proj' in s2['p'] or s2['p']['l'] in al:
                continue
            rv2 = s2['rv']
            src = None
            if rv2['k'] == 'use' and rv2['op']['k'] in ('copy', 'move'):
                src = rv2['op']['p']
            elif rv2['k'] == 'ref' and rv2.get('bk') in ('mut', 'Mut', 'two-phase', 'TwoPhase'):
                src = rv2['p']
            if src is not None and src['l'] in al and all(e == '*' for e in src.get('proj', [])):
                al.add(s2['p']['l'])
                grew = True
    # no write through the pointer
    for bi, si, s2 in h.assigns():
        if s2['p']['l'] in al and s2['p'].get('proj'):
            return False
    handed = 0
    for bi, t in h.calls():
        for i, x in enumerate(t['args']):
            if x['k'] in ('copy', 'move') and x['p']['l'] in al and 'proj' not in x['p']:
                cp = callee_path(t)
                if cp in add_paths or (t['func'].get('trait') == ADD_TRAIT and t['func'].get('name') == 'add'):
                    handed += 1
                elif t['func'].get('local') and add_only_param(F, cp, i + 1, add_paths, depth + 1):
                    handed += 1
                else:
                    return False
    return handed > 0
