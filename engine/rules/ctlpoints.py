"""Control point vectors are mutated only inside the ControlPoint::add impls (C06-R4 / C19-R4)."""
import fieldidx
import prov
from common import as_param_path
from facts import callee_path

VECS = {
    'timing_points': 'model::control_point::timing::TimingPoint',
    'difficulty_points': 'model::control_point::difficulty::DifficultyPoint',
    'effect_points': 'model::control_point::effect::EffectPoint',
}
OWNERS = ['model::beatmap::Beatmap', 'model::beatmap::decode::BeatmapState']
ADD_TRAIT = 'rosu_map::section::timing_points::ControlPoint'
MUTATORS = {'push', 'insert', 'remove', 'swap_remove', 'truncate', 'clear', 'retain', 'retain_mut', 'drain', 'splice', 'extend',
            'extend_from_slice', 'append', 'sort', 'sort_by', 'sort_unstable_by', 'sort_by_key', 'dedup', 'dedup_by', 'dedup_by_key',
            'pop', 'resize', 'swap', 'reverse', 'iter_mut', 'last_mut', 'first_mut', 'get_mut', 'index_mut', 'as_mut_slice', 'deref_mut',
            'set_len', 'split_off', 'rotate_left', 'rotate_right', 'fill'}


def add_impls(F):
    return [f for f in F.fns if f.name == 'add' and f.impl_trait == ADD_TRAIT]


def check(ctx, F, rule, only=None):
    adds = add_impls(F)
    add_paths = {f.path for f in adds}
    n_ok = 0
    for vec, elem in VECS.items():
        if only and vec not in only:
            continue
        mine = [f for f in adds if f.self_adt == elem]
        if not mine:
            ctx.violation(rule, 'anchor-missing:add:' + vec, 'ControlPoint::add for %s not found' % elem)
            continue
        searchers = 0
        for add in mine:
            ctx.saw(add)
            calls = {t['func'].get('name'): (bi, t) for bi, t in add.calls()}
            P = prov.prov_of(add)
            if 'binary_search_by' in calls and 'insert' in calls:
                cmp_ok = False
                args = P.call_args(calls['binary_search_by'][0])
                clo = prov.strip(args[1]) if len(args) > 1 else None
                if clo is not None and clo[0] == 'agg' and clo[1] == 'closure':
                    import combin
                    rv = prov.strip(combin.apply_fn(F, clo, [('param', 99)], 2), names=set())
                    if rv[0] == 'call' and rv[1].get('name') == 'total_cmp':
                        leaves = [as_param_path(a) for a in rv[2]]
                        cmp_ok = all(l is not None and l[1][-1:] == ('time',) for l in leaves) and \
                            {l[0] for l in leaves if l} == {99, 1}
                ctx.require(cmp_ok, rule, 'add-shape:%s:%s' % (vec, add.path), '%s = binary_search_by(total_cmp on time) then insert / overwrite' % add.path, add.where(),
                            bad='%s: the binary search no longer compares `time` with total_cmp: ordering / uniqueness of %s is not maintained' % (add.path, vec))
                searchers += 1
            else:
                local = [callee_path(t) for _, t in add.calls() if t['func'].get('local')]
                deleg = len(local) == 1 and local[0] in add_paths
                ctx.require(deleg, rule, 'add-shape:%s:%s' % (vec, add.path), '%s delegates to %s' % (add.path, local[0] if local else '-'), add.where(),
                            bad='%s is neither a binary-search insert nor a delegation to one (calls %s)' % (add.path, local))
        ctx.require(searchers >= 1, rule, 'add-search:' + vec, '%d binary-search insert implementation(s) for %s' % (searchers, vec),
                    bad='no ControlPoint::add for %s performs the binary-search insert' % elem)
        # who mutates the vectors
        bad = []
        for owner in OWNERS:
            for a in fieldidx.accesses(F, owner, vec):
                fn = a['fn']
                if fn.path in add_paths:
                    continue
                if a['kind'] == 'assign' and a['last']:
                    # whole-vector assignment is allowed only from a constructor-like aggregate or a converted copy
                    if fn.impl_trait in ('std::clone::Clone', 'std::default::Default'):
                        continue
                    bad.append((fn, 'assigns the whole vector', a['line']))
                elif a['kind'] == 'assign':
                    bad.append((fn, 'writes an element in place', a['line']))
                elif a['kind'] == 'mutborrow':
                    # where does the &mut go?
                    s = a.get('stmt')
                    target = None
                    if s is not None and 'proj' not in s['p']:
                        al = {s['p']['l']}
                        grew = True
                        while grew:
                            grew = False
                            for bi2, si2, s2 in fn.assigns():
                                if 'proj' in s2['p'] or s2['p']['l'] in al:
                                    continue
                                rv2 = s2['rv']
                                src = rv2['op']['p'] if rv2['k'] == 'use' and rv2['op']['k'] in ('copy', 'move') else (rv2['p'] if rv2['k'] == 'ref' else None)
                                if src is not None and src['l'] in al and all(e == '*' for e in src.get('proj', [])):
                                    al.add(s2['p']['l'])
                                    grew = True
                        for bi, t in fn.calls():
                            if any(x['k'] in ('copy', 'move') and x['p']['l'] in al and 'proj' not in x['p'] for x in t['args']):
                                target = t
                    if target is not None and callee_path(target) in add_paths:
                        continue
                    if target is not None and target['func'].get('trait') == ADD_TRAIT and target['func'].get('name') == 'add':
                        continue
                    bad.append((fn, '&mut passed to %s' % (callee_path(target) if target else 'unknown use'), a['line']))
        for fn, what, line in bad:
            ctx.violation(rule, '%s:%s' % (vec, fn.path), '%s %s of %s outside ControlPoint::add: the vector may lose its strict time order' % (fn.path, what, vec), fn.where(line))
        if not bad:
            n_ok += 1
            ctx.ok(rule, 'only-add:' + vec, '%s of Beatmap / BeatmapState is mutated only through %s::add' % (vec, elem.split('::')[-1]))
    return n_ok
