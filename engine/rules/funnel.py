"""The override-aware funnel of the attribute builder.

`BeatmapAttributesBuilder::difficulty(&Difficulty)` is the one place where mods, clock rate and the ar/cs/hp/od overrides of a `Difficulty`
are combined (explicit override, else the mods' value, else the map's).  A calculator that configures a builder through the individual
setters instead sees only part of the settings (a lazer DifficultyAdjust value but not `Difficulty::ar`), and an individual setter placed
*before* `.difficulty(..)` turns into "default unless the Difficulty carries an override" — which makes a setting relevant for a mode that
documents it as ignored.  Rule: every builder chain that a calculator (any function outside model::beatmap::attributes) drives to a
terminal (`build`, `hit_windows`) contains `.difficulty(..)`, and no setting setter sits before it in the chain."""
import prov
from facts import callee_path

BUILDER = 'model::beatmap::attributes::BeatmapAttributesBuilder'
TERMINALS = ('build', 'hit_windows')
SETTINGS = ('mods', 'clock_rate', 'ar', 'cs', 'hp', 'od')


def chain_of(v):
    out = []
    cur = v
    for _ in range(40):
        cur = prov.strip(cur, names={'clone', 'into', 'from', 'to_owned'}, through_mut=True)
        if cur[0] == 'call' and cur[2] and (cur[1].get('impl_adt') or '') == BUILDER:
            out.append((cur[1].get('name'), cur[2][1:]))
            cur = cur[2][0]
            continue
        break
    return out, cur


def check(ctx, F, rule, floor=2):
    n = 0
    for fn in F.fns:
        if fn.path.startswith(('model::beatmap::attributes', '<model::beatmap::attributes')):
            continue
        P = None
        for bi, t in fn.calls():
            cp = callee_path(t)
            if not (cp.startswith(BUILDER + '::') and cp.split('::')[-1] in TERMINALS):
                continue
            P = P or prov.prov_of(fn)
            recv = P.call_args(bi)[0]
            recv = prov.inline_all(F, recv, depth=2, _seen=(fn.path,), only=lambda f_: not f_.get('trait') and (f_.get('impl_adt') or '') != BUILDER
                                   and not (f_.get('path') or '').startswith('model::beatmap'))
            chain, root = chain_of(recv)
            names = [c[0] for c in chain]           # outermost (latest) first
            n += 1
            key = '%s:%s' % (fn.path, cp.split('::')[-1])
            if 'difficulty' not in names:
                ctx.violation(rule, 'funnel:' + key,
                              '%s drives an attribute builder to %s() configured by %s only — not through .difficulty(..): explicit Difficulty overrides (ar/cs/hp/od/clock_rate) '
                              'are not seen there although the equivalent lazer mod settings are' % (fn.path, cp.split('::')[-1], [x for x in reversed(names)] or 'nothing'), fn.where(t.get('ln')))
                continue
            before = [x for x in names[names.index('difficulty') + 1:] if x in SETTINGS]
            if before:
                ctx.violation(rule, 'funnel-order:' + key,
                              '%s calls the builder setter(s) %s before .difficulty(..): they only act as a default that a Difficulty override replaces, so the result depends on a setting '
                              'this calculator documents as ignored (or the setter is dead)' % (fn.path, before), fn.where(t.get('ln')))
                continue
            ctx.ok(rule, 'funnel:' + key, '%s: builder chain %s' % (fn.path, ' -> '.join(reversed(names))))
    ctx.floor(rule, n, floor, 'attribute-builder terminals driven by calculators')
