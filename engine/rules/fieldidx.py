"""Who-may-write: index of all MIR accesses to (ADT, field)."""


def _field_hits(p, adt, field):
    """indices in the projection where (adt, field) is projected"""
    out = []
    for i, e in enumerate(p.get('proj', [])):
        if isinstance(e, dict) and e.get('f') == field and e.get('adt') == adt:
            out.append(i)
    return out


def accesses(F, adt, field):
    """list of dict(fn, kind, line, last) — kind in assign | mutborrow | move | read | borrow | agg-init
    `last` is True when the field is the final projection (the field itself is accessed, not a sub-place)"""
    out = []
    for fn in F.fns:
        for bi, b in enumerate(fn.blocks):
            if b['cleanup']:
                continue
            for s in b['s']:
                if s['k'] != 'assign':
                    continue
                ln = s.get('ln')
                p = s['p']
                for i in _field_hits(p, adt, field):
                    out.append(dict(fn=fn, kind='assign', line=ln, last=(i == len(p['proj']) - 1), stmt=s, bb=bi))
                rv = s['rv']
                if rv['k'] in ('ref', 'rawptr'):
                    for i in _field_hits(rv['p'], adt, field):
                        mut = rv['bk'] in ('mut', 'Mut')
                        out.append(dict(fn=fn, kind='mutborrow' if mut else 'borrow', line=ln,
                                        last=(i == len(rv['p']['proj']) - 1), stmt=s, bb=bi))
                elif rv['k'] == 'agg' and rv.get('ak') == 'adt' and rv['adt'] == adt and field in rv.get('fields', []):
                    out.append(dict(fn=fn, kind='agg-init', line=ln, last=True, stmt=s, bb=bi))
                ops = []
                for key in ('op', 'a', 'b'):
                    o = rv.get(key)
                    if isinstance(o, dict) and 'k' in o:
                        ops.append(o)
                ops += rv.get('ops', []) or []
                if rv['k'] == 'discr':
                    for i in _field_hits(rv['p'], adt, field):
                        out.append(dict(fn=fn, kind='read', line=ln, last=False, stmt=s, bb=bi))
                for o in ops:
                    if o.get('k') in ('copy', 'move'):
                        for i in _field_hits(o['p'], adt, field):
                            last = i == len(o['p']['proj']) - 1
                            out.append(dict(fn=fn, kind='move' if o['k'] == 'move' else 'read', line=ln, last=last, stmt=s, bb=bi))
            t = b['t']
            if t['k'] == 'call':
                for o in t['args']:
                    if o.get('k') in ('copy', 'move'):
                        for i in _field_hits(o['p'], adt, field):
                            last = i == len(o['p']['proj']) - 1
                            out.append(dict(fn=fn, kind='move' if o['k'] == 'move' else 'read', line=t.get('ln'), last=last, term=t, bb=bi))
                for i in _field_hits(t['dest'], adt, field):
                    out.append(dict(fn=fn, kind='assign', line=t.get('ln'), last=(i == len(t['dest']['proj']) - 1), term=t, bb=bi))
            elif t['k'] == 'drop':
                for i in _field_hits(t['p'], adt, field):
                    out.append(dict(fn=fn, kind='drop', line=t.get('ln'), last=True, term=t, bb=bi))
    return out
