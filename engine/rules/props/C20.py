"""C20 — concurrency: no shared mutable state, auto-trait table, ownership of the RefCount graph."""
import os
import re
import shutil
import subprocess
import tempfile

import guardrule
from facts import callee_path
from props import C01

EXPLANATION = (
    "Safe Rust excludes data races; with no shared mutable state there is nothing for schedules to interleave on. "
    "R1: no static mut, non-Freeze static, thread_local!, lazily initialised global or sync primitive outside util::sync "
    "(the C01-R1 scan restricted to shared state). R2: no `unsafe impl Send/Sync` and no std::thread use in the crate. "
    "R3: auto-trait table from rustc's trait solver per configuration: the value types (Beatmap, Difficulty, GameMods, "
    "attributes, strains, states, Performance) are Send+Sync; osu/catch/mania gradual types are Send; taiko gradual "
    "types and the two gradual enums are !Send without `sync` (documented) and Send with it (thorough: compile_fail / "
    "compile-pass witnesses through the public API). R4: no public signature or public field mentions RefCount / Weak / "
    "guard types, so every handle of the Rc/Arc graph stays inside the one calculator and a hand-over moves the whole "
    "graph; lock conflicts on one thread are excluded by the guard rule. Nothing numeric is involved.")

VALUE_TYPES = [
    'model::beatmap::Beatmap', 'any::difficulty::Difficulty', 'model::mods::GameMods', 'any::performance::Performance',
    'any::attributes::DifficultyAttributes', 'any::attributes::PerformanceAttributes', 'any::strains::Strains', 'any::score_state::ScoreState',
    'model::beatmap::attributes::BeatmapAttributes', 'model::beatmap::attributes::BeatmapAttributesBuilder', 'model::beatmap::attributes::HitWindows',
    'any::difficulty::inspect::InspectDifficulty',
] + ['%s::attributes::%sDifficultyAttributes' % (m, c) for m, c in (('osu', 'Osu'), ('taiko', 'Taiko'), ('catch', 'Catch'), ('mania', 'Mania'))] \
  + ['%s::attributes::%sPerformanceAttributes' % (m, c) for m, c in (('osu', 'Osu'), ('taiko', 'Taiko'), ('catch', 'Catch'), ('mania', 'Mania'))] \
  + ['%s::strains::%sStrains' % (m, c) for m, c in (('osu', 'Osu'), ('taiko', 'Taiko'), ('catch', 'Catch'), ('mania', 'Mania'))] \
  + ['%s::score_state::%sScoreState' % (m, c) for m, c in (('osu', 'Osu'), ('taiko', 'Taiko'), ('catch', 'Catch'), ('mania', 'Mania'))] \
  + ['%s::performance::%sPerformance' % (m, c) for m, c in (('osu', 'Osu'), ('taiko', 'Taiko'), ('catch', 'Catch'), ('mania', 'Mania'))]

GRADUAL_SEND_ALWAYS = ['osu::difficulty::gradual::OsuGradualDifficulty', 'osu::performance::gradual::OsuGradualPerformance',
                       'catch::difficulty::gradual::CatchGradualDifficulty', 'catch::performance::gradual::CatchGradualPerformance',
                       'mania::difficulty::gradual::ManiaGradualDifficulty', 'mania::performance::gradual::ManiaGradualPerformance']
GRADUAL_SEND_SYNC_ONLY = ['taiko::difficulty::gradual::TaikoGradualDifficulty', 'taiko::performance::gradual::TaikoGradualPerformance',
                          'any::difficulty::gradual::GradualDifficulty', 'any::performance::gradual::GradualPerformance']
HANDLE_TY = re.compile(r'util::sync::inner::(RefCount|Weak|Ref|RefWrap)\b|std::(rc::(Rc|Weak)|sync::(Arc|Weak|RwLock|Mutex))\b')


def run(ctx):
    F = ctx.facts('default')
    S = ctx.facts('sync')
    fx = ctx.fixture()
    for tag, G in (('', F), ('[sync]', S)):
        shared = [x for x in C01.banned_sources(G, ctx, 'C20-R1') if x[1] in ('thread local', 'sync global / lock', 'lazy global', 'lazy cell', 'atomic', 'thread')]
        for fn, what, detail, loc in shared:
            ctx.violation('C20-R1' if what != 'thread' else 'C20-R2', '%s%s:%s' % (tag, fn.path, what), '%s in %s' % (detail, fn.path), loc)
        for s, what in C01.banned_statics(G):
            ctx.violation('C20-R1', '%sstatic:%s' % (tag, s['path']), '%s %s: %s — shared mutable state' % (what, s['path'], s['ty']), '%s:%s' % (s['loc'][0], s['loc'][1]))
        ctx.ok('C20-R1', tag + 'scan', '%d statics (all immutable + Freeze), no thread-local, lazily initialised global, atomic or lock outside util::sync in %d bodies'
               % (len(G.statics), len(G.fns)))
        bad_impls = [i for i in G.impls if i.get('unsafe') and (i.get('trait') or '').endswith(('::Send', '::Sync'))]
        for i in bad_impls:
            ctx.violation('C20-R2', '%sunsafe-impl:%s:%s' % (tag, i['trait'].split('::')[-1], i['self']['s']), 'unsafe impl %s for %s' % (i['trait'], i['self']['s']),
                          '%s:%s' % (i['loc'][0], i['loc'][1]))
        neg = [i for i in G.impls if i.get('negative')]
        ctx.ok('C20-R2', tag + 'scan', 'no unsafe impl Send/Sync (%d trait impls scanned, %d negative impls), no std::thread use' % (len(G.impls), len(neg)))
    ctx.control('C20-R2', any(i.get('unsafe') and (i.get('trait') or '').endswith('::Send') for i in fx.impls), 'unsafe impl Send found in fixture')
    ctx.control('C20-R1', any(x[1] == 'thread' for x in C01.banned_sources(fx, ctx, 'x') if x[0].path == 'c20::spawns'), 'std::thread::spawn found in fixture')
    fa = fx.adts.get('c20::NotSend')
    ctx.control('C20-R3', fa is not None and fa['traits'].get('Send') is False, 'trait query reports an Rc-holding struct as !Send')
    # ---- R3
    n = 0
    for tag, G, sync in (('', F, False), ('[sync]', S, True)):
        for t in VALUE_TYPES:
            a = G.adts.get(t)
            if a is None:
                ctx.violation('C20-R3', '%sanchor-missing:%s' % (tag, t), 'type %s not found' % t)
                continue
            n += 1
            tr = a['traits']
            ctx.require(tr.get('Send') and tr.get('Sync'), 'C20-R3', '%s%s' % (tag, t), '%s: Send + Sync' % t.split('::')[-1],
                        bad='%s is no longer Send + Sync (Send=%s, Sync=%s): it cannot be shared / sent between threads as documented' % (t, tr.get('Send'), tr.get('Sync')))
        for t in GRADUAL_SEND_ALWAYS:
            a = G.adts.get(t)
            if a is None:
                ctx.violation('C20-R3', '%sanchor-missing:%s' % (tag, t), 'type %s not found' % t)
                continue
            n += 1
            ctx.require(a['traits'].get('Send') is True, 'C20-R3', '%s%s' % (tag, t), '%s: Send' % t.split('::')[-1],
                        bad='%s is no longer Send: it cannot be handed to another thread' % t)
        for t in GRADUAL_SEND_SYNC_ONLY:
            a = G.adts.get(t)
            if a is None:
                ctx.violation('C20-R3', '%sanchor-missing:%s' % (tag, t), 'type %s not found' % t)
                continue
            n += 1
            want = sync
            ctx.require(a['traits'].get('Send') is want, 'C20-R3', '%s%s' % (tag, t), '%s: %sSend %s' % (t.split('::')[-1], '' if want else '!', '(with sync)' if sync else '(documented: Rc<RefCell> inside)'),
                        bad='%s: Send=%s but the documented table says %s for this configuration' % (t, a['traits'].get('Send'), want))
    ctx.floor('C20-R3', n, 2 * (len(VALUE_TYPES) + 10), 'auto-trait table rows')
    # ---- R4
    for tag, G in (('', F), ('[sync]', S)):
        leaks = []
        for fn in G.fns:
            if fn.kind == 'Closure' or not fn.is_pub:
                continue
            if fn.path.startswith(('util::', '<util::')):
                continue
            sig = [i['s'] for i in fn.j.get('inputs', [])] + [fn.j.get('output', {}).get('s', '')]
            for s_ in sig:
                if HANDLE_TY.search(s_):
                    leaks.append((fn, s_))
        # only functions reachable through the public module tree matter; crate-private modules make `pub fn` invisible.
        # taiko::difficulty is a private module, so restrict to types that are re-exported: the gradual / performance / attribute types
        public_types = set(VALUE_TYPES + GRADUAL_SEND_ALWAYS + GRADUAL_SEND_SYNC_ONLY)
        real = [(fn, s_) for fn, s_ in leaks if fn.self_adt in public_types]
        for fn, s_ in real:
            ctx.violation('C20-R4', '%sleak:%s' % (tag, fn.path), 'public method %s exposes `%s`: a handle of the shared graph could outlive / leave the calculator' % (fn.path, s_), fn.where())
        field_leaks = []
        for t in public_types:
            a = G.adts.get(t)
            if not a:
                continue
            for v in a['variants']:
                for f in v['fields']:
                    if f['vis'] == 'Public' and HANDLE_TY.search(f['ty']['s']):
                        field_leaks.append((t, f['name'], f['ty']['s']))
        for t, f, s_ in field_leaks:
            ctx.violation('C20-R4', '%sfield:%s.%s' % (tag, t, f), 'public field %s.%s: %s exposes a graph handle' % (t, f, s_))
        holders = [p for p, a in G.adts.items() if any(HANDLE_TY.search(d['ty']) for d in a['deep']) or
                   any(HANDLE_TY.search(f['ty']['s']) for v in a['variants'] for f in v['fields'])]
        ctx.ok('C20-R4', tag + 'no-handle-escape', 'no public method signature or public field of the %d exported calculator/value types mentions RefCount/Weak/Rc/Arc/guards '
               '(%d crate-internal `pub fn` in private modules do; %d internal types hold handles)' % (len(public_types), len(leaks) - len(real), len(holders)))
        nsites, nw = guardrule.check(ctx, G, 'C20-R4', tag=tag or '[default]')
    if ctx.tier == 'thorough':
        witnesses(ctx)
    ctx.assume("rustc's Send/Sync checking; std's Rc/RefCell/Arc/RwLock")
    ctx.assume('Beatmap is deeply immutable behind & (C01-R4), so sharing &Beatmap between threads is read-only')


WITNESS = os.path.join(os.path.dirname(os.path.dirname(os.path.dirname(os.path.dirname(os.path.abspath(__file__))))), 'witness')


def witnesses(ctx):
    """E3: compile-pass / compile-fail doc tests against the public API, default and sync"""
    import harness
    repo = harness.REPO
    t = tempfile.mkdtemp(prefix='rppwit.')
    try:
        shutil.copytree(WITNESS, os.path.join(t, 'witness'), ignore=shutil.ignore_patterns('target', 'Cargo.lock'))
        w = os.path.join(t, 'witness')
        toml = open(os.path.join(w, 'Cargo.toml')).read().replace('/repo', repo)
        open(os.path.join(w, 'Cargo.toml'), 'w').write(toml)
        shutil.copy(os.path.join(repo, 'Cargo.lock'), os.path.join(w, 'Cargo.lock'))
        env = dict(os.environ, CARGO_NET_OFFLINE='true', CARGO_TARGET_DIR=os.path.join(t, 'target'))
        for feat, label in (([], 'default'), (['--features', 'sync'], 'sync')):
            r = subprocess.run(['cargo', '+nightly', 'test', '--doc', '--offline'] + feat, cwd=w, env=env, stdout=subprocess.PIPE, stderr=subprocess.STDOUT, text=True)
            m = re.search(r'test result: (\w+)\. (\d+) passed; (\d+) failed', r.stdout)
            ok = r.returncode == 0 and m and m.group(1) == 'ok' and int(m.group(2)) >= 6
            ctx.require(bool(ok), 'C20-R3', 'witness:' + label, 'type-level witnesses (%s): %s' % (label, m.group(0) if m else 'n/a'),
                        bad='witness doc-tests failed for configuration %s:\n%s' % (label, r.stdout[-1500:]))
    finally:
        shutil.rmtree(t, ignore_errors=True)
