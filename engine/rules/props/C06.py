"""C06 — decoding is total and well-formed: decoder discipline."""
import re

import callgraph
import ctlpoints
import prov
from common import as_param_path
from facts import callee_path

EXPLANATION = (
    "Decoder discipline over the call graph rooted at the 11 DecodeBeatmap::parse_* methods and From<BeatmapState>: "
    "every primitive number parse is either rosu_map's bounded ParseNumber or is compared against an upper and a lower "
    "bound with an error edge before any other use (R1); the six difficulty fields of the produced Beatmap and the "
    "beat length / slider velocity / bpm multiplier / scroll speed of control points are results of clamp, and every clamp fed (directly or one call down, private helpers inlined) by the deliberately NaN-tolerant beat-length parse lies behind a fact that excludes NaN for its operand — a TRUE ordered comparison, is_nan() false — because clamp hands NaN through (R2); objects "
    "and sounds are sorted with one TandemSorter built from total_cmp on start_time and every pushed object is paired "
    "with exactly one pushed sound (R3); control point vectors are mutated only through the binary-search ControlPoint::add "
    "(R4); no explicit panic API (unwrap/expect/panic!/assert!/unreachable!) in the decoder's call graph (R5); "
    "from_path/from_bytes/from_str are single delegations to rosu_map with the parameter passed through (R6). R3 also asks that the stable tandem sort is passed on EVERY path through From<BeatmapState> (the mania legacy sort alone does not order an unordered list). Overflow "
    "and bounds Assert terminators are arithmetic and NOT covered; rosu-map's line driver is trusted.")

DECODE_TRAIT = 'rosu_map::decode::DecodeBeatmap'
BM = 'model::beatmap::Beatmap'
NUMERIC = re.compile(r'^(f32|f64|i8|i16|i32|i64|i128|isize|u8|u16|u32|u64|u128|usize)$')
PANIC_CALLS = re.compile(r'^(core|std)::(panicking::(panic|panic_fmt|panic_explicit|unreachable_display|assert_failed|panic_display|panic_nounwind)|'
                         r'rt::(panic_fmt|begin_panic|panic_display)|option::(unwrap_failed|expect_failed)|result::unwrap_failed)')
UNWRAPS = re.compile(r'^std::(option::Option|result::Result)::<.*>::(unwrap|expect|unwrap_err|expect_err)$')


def decoder_roots(F):
    roots = []
    for f in F.fns:
        if f.impl_trait and f.impl_trait.endswith('DecodeBeatmap') and f.self_adt == BM and (f.name or '').startswith('parse_'):
            roots.append(f)
    frm = [f for f in F.fns if f.name == 'from' and f.impl_trait == 'std::convert::From' and f.self_adt == BM
           and f.j['inputs'] and 'BeatmapState' in f.j['inputs'][0]['s']]
    return roots, frm


def raw_parses(F, fns):
    out = []
    for fn in fns:
        for bi, t in fn.calls():
            f = t['func']
            p = callee_path(t)
            targs = f.get('targs') or []
            if p == 'core::str::<impl str>::parse' and targs and NUMERIC.match(targs[0]):
                out.append((fn, bi, t, targs[0]))
            elif re.match(r'^(core|std)::(num|f32|f64).*<impl (std|core)::str::FromStr for (f32|f64|i\d+|u\d+|isize|usize)>::from_str$', p):
                out.append((fn, bi, t, p))
        # fn items passed as values (e.g. `.map(str::parse::<f64>)`)
        for bi, si, s in fn.assigns():
            pass
    return out


def bounded_after(fn, bb, t):
    """the parsed value (payload of the Result) is compared Lt and Gt against constants with an error edge, and both
    comparisons dominate every other use"""
    P = prov.prov_of(fn)

    def is_parsed(v):
        return any(x[0] == 'call' and x[3] == (fn.path, bb) for x in prov.walk(v, limit=60))

    lows = []
    highs = []
    uses = []
    for bi, si, s in fn.assigns():
        rv = s['rv']
        if rv['k'] == 'binop' and rv['op'] in ('Lt', 'Le', 'Gt', 'Ge') and rv['aty'] in ('f32', 'f64'):
            a = P.operand(rv['a'], bi, si)
            b = P.operand(rv['b'], bi, si)
            if is_parsed(a) and not is_parsed(b):
                (lows if rv['op'] in ('Lt', 'Le') else highs).append(bi)
            elif is_parsed(b) and not is_parsed(a):
                (highs if rv['op'] in ('Lt', 'Le') else lows).append(bi)
    # other uses: calls taking the parsed payload (excluding Result plumbing)
    for bi, t2 in fn.calls():
        if bi == bb:
            continue
        name = t2['func'].get('name')
        if name in ('map_err', 'branch', 'from_residual', 'likely', 'unlikely', 'from'):
            continue
        args = P.call_args(bi)
        if any(is_parsed(a) for a in args):
            uses.append(bi)
    if not lows or not highs:
        return False, 'no %s bound test on the parsed value' % ('lower' if not lows else 'upper')
    dom = fn.cfg.dom()
    lo, hi = lows[0], highs[0]
    undominated = [u for u in uses if not (lo in dom.get(u, ()) and hi in dom.get(u, ()))]
    if undominated:
        return False, 'a use of the parsed value (block %s) is not dominated by both bound tests' % undominated
    # error edges: the true edge of each test must reach a return without passing the uses
    return True, 'lower and upper bound tests dominate all %d other use(s)' % len(uses)


def run(ctx):
    F = ctx.facts('default')
    cg = callgraph.of(F)
    roots, frm = decoder_roots(F)
    ctx.floor('C06-R1', len(roots), 11, 'DecodeBeatmap::parse_* methods of Beatmap')
    if not frm:
        ctx.violation('C06-R2', 'anchor-missing:From<BeatmapState>', 'From<BeatmapState> for Beatmap not found')
        return
    frm = frm[0]
    reach_paths = cg.reachable_from({f.path for f in roots} | {frm.path})
    # restrict to decoder-side code: model::beatmap::decode, control point constructors, sort helpers
    dec_fns = [F.fn(p) for p in sorted(reach_paths) if F.fn(p) is not None]
    for f in dec_fns:
        ctx.saw(f)
    # ---- R1
    raws = raw_parses(F, dec_fns)
    for fn, bi, t, ty in raws:
        ok, why = bounded_after(fn, bi, t)
        ctx.require(ok, 'C06-R1', 'raw-parse:%s:%s' % (fn.path, ty), 'raw str::parse::<%s> in %s: %s' % (ty, fn.path, why), fn.where(t['ln']),
                    bad='unbounded number parse str::parse::<%s> in %s (%s): values beyond the parser limits / inf reach the map' % (ty, fn.path, why))
    # fn-value uses of raw parse (e.g. `.map(str::parse::<f64>)`)
    for fn in dec_fns:
        for bi, b in enumerate(fn.blocks):
            if b['cleanup']:
                continue
            ops = []
            for s in b['s']:
                if s['k'] == 'assign':
                    rv = s['rv']
                    ops += [rv.get('op')] if isinstance(rv.get('op'), dict) else []
                    ops += rv.get('ops', []) or []
            if b['t']['k'] == 'call':
                ops += b['t']['args']
            for o in ops:
                if isinstance(o, dict) and o.get('k') == 'const' and 'fn' in o:
                    fr = o['fn']
                    if fr.get('path') == 'core::str::<impl str>::parse' and (fr.get('targs') or [''])[0] and NUMERIC.match(fr['targs'][0]):
                        ctx.violation('C06-R1', 'raw-parse-value:%s:%s' % (fn.path, fr['targs'][0]),
                                      'str::parse::<%s> passed as a function value in %s: unbounded parse' % (fr['targs'][0], fn.path), fn.where(b['t'].get('ln')))
    bounded = 0
    for fn in dec_fns:
        for bi, t in fn.calls():
            p = callee_path(t)
            if re.search(r'ParseNumber>::(parse|parse_with_limits)$|StrExt>::(parse_num|parse_with_limits)$|parse_number::', p) or \
                    (t['func'].get('krate') == 'rosu_map' and t['func'].get('name') in ('parse_num', 'parse_with_limits')) or \
                    (t['func'].get('trait') or '').endswith('ParseNumber'):
                bounded += 1
    ctx.ok('C06-R1', 'scan', '%d functions in the decoder call graph; %d raw primitive parse(s), %d bounded rosu_map ParseNumber call(s)' % (len(dec_fns), len(raws), bounded))
    ctx.floor('C06-R1', bounded, 12, 'bounded ParseNumber call sites')
    ctx.floor('C06-R1', len(raws), 1, 'raw parse sites (the NaN-tolerant beat length)')
    # ---- R2
    rv = prov.prov_of(frm).return_value()
    rv = prov.inline_all(F, rv, depth=2, _seen=(frm.path,))
    lit = [x for x in prov.walk(rv) if x[0] == 'agg' and x[2] == BM]
    n2 = 0
    if len(lit) != 1:
        ctx.violation('C06-R2', 'shape', 'cannot identify the Beatmap literal in From<BeatmapState>', frm.where())
    else:
        for fld in ('hp', 'cs', 'od', 'ar', 'slider_multiplier', 'slider_tick_rate'):
            v = lit[0][4].get(fld)
            n2 += 1
            clamp_field(ctx, F, frm, fld, v)
    for adt, fields in (('model::control_point::timing::TimingPoint', ['beat_len']),
                        ('model::control_point::difficulty::DifficultyPoint', ['slider_velocity', 'bpm_multiplier'])):
        new = F.method(adt, 'new', inherent_only=True)
        if new is None:
            ctx.violation('C06-R2', 'anchor-missing:%s::new' % adt, 'not found')
            continue
        ctx.saw(new)
        rvn = prov.prov_of(new).return_value()
        # a clamp moved into a private helper of the same type (`Self::clamp_beat_len(x)`) is read through
        rvn = prov.inline_all(F, rvn, depth=2, _seen=(new.path,), only=lambda f_: not f_.get('trait') and (f_.get('impl_adt') or '') == adt)
        for fld in fields:
            v = prov.project_field(rvn, fld)
            has_clamp = any(x[0] == 'call' and x[1].get('name') == 'clamp' for x in prov.walk(v, limit=200))
            # every non-constant alternative must pass through clamp
            alts = v[1] if v[0] == 'phi' else [v]
            good = has_clamp and all(a[0] == 'const' or any(x[0] == 'call' and x[1].get('name') == 'clamp' for x in prov.walk(a, limit=200)) for a in alts)
            n2 += 1
            ctx.require(good, 'C06-R2', '%s:%s' % (adt.split('::')[-1], fld), '%s::new clamps %s' % (adt.split('::')[-1], fld), new.where(),
                        bad='%s::new stores %s = `%s` without clamp' % (adt.split('::')[-1], fld, prov.show(v, maxdepth=4)))
    # scroll speed written by the decoder
    import fieldidx
    ss = [a for a in fieldidx.accesses(F, 'model::control_point::effect::EffectPoint', 'scroll_speed')
          if a['kind'] in ('assign', 'agg-init') and a['fn'].path in reach_paths and a['fn'].impl_trait not in ('std::default::Default',)]
    for a in ss:
        fn = a['fn']
        s = a['stmt']
        si_ = fn.blocks[a['bb']]['s'].index(s)
        if a['kind'] == 'agg-init':
            # a constructor of the effect point reached from the decoder (`EffectPoint::with_speed_multiplier(..)`): the value put into the literal
            rv_ = s['rv']
            v = prov.prov_of(fn).operand(rv_['ops'][rv_['fields'].index('scroll_speed')], a['bb'], si_)
            if prov.const_val(prov.strip(v)) is not None:
                continue                        # a constant default
        else:
            v = prov.prov_of(fn).rvalue(s['rv'], a['bb'], si_)
        n2 += 1
        ctx.require(prov.strip(v)[0] == 'call' and prov.strip(v)[1].get('name') == 'clamp', 'C06-R2', 'scroll_speed:' + fn.path,
                    'decoder writes scroll_speed = clamp(..)', fn.where(a['line']), bad='%s writes scroll_speed = `%s` without clamp' % (fn.path, prov.show(v, maxdepth=3)))
    ctx.floor('C06-R2', n2, 10, 'clamped fields')
    r2_nan(ctx, F, dec_fns)
    # ---- R3
    # the sort may sit in a local helper that From<BeatmapState> calls with the state or with its two lists: read through it
    import inline
    sfn = inline.inlined(F, frm, depth=2)
    P = prov.prov_of(sfn)
    sorts = [(bi, t) for bi, t in sfn.calls() if callee_path(t).endswith('TandemSorter::sort')]
    targets = {}
    sorter_ids = set()
    for bi, t in sorts:
        a = P.call_args(bi)
        tgt = as_param_path(a[1])
        targets[tgt[1][-1] if tgt else '?'] = bi
        sorter_ids.add(prov.show(prov.strip(a[0]), maxdepth=6))
    good = set(targets) == {'hit_objects', 'hit_sounds'} and len(sorter_ids) == 1
    cmp_ok = False
    if sorts:
        from props import C19
        a = P.call_args(sorts[0][0])
        for x in prov.walk(prov.strip(a[0]), limit=200):
            if x[0] == 'call' and x[1].get('name') == 'new_stable' and len(x[2]) == 2:
                src = as_param_path(x[2][0])
                cmp_ok = src is not None and src[1][-1:] == ('hit_objects',) and C19.is_time_comparator(F, x[2][1])
    ctx.require(good and cmp_ok, 'C06-R3', 'tandem-sort', 'one TandemSorter::new_stable(&hit_objects, total_cmp on start_time) sorts both hit_objects and hit_sounds', frm.where(),
                bad='From<BeatmapState>: tandem sort targets %s with %d distinct sorter(s), comparator ok=%s — objects and their sounds are no longer permuted together' % (
                    sorted(targets), len(sorter_ids), cmp_ok))
    # ... on every path (seed C06-7: mania files sent to the legacy sort alone, which is no total sort of an unordered list)
    if good and cmp_ok:
        every = all(sfn.cfg.must_pass_through(0, {bi_}) for bi_ in targets.values())
        ctx.require(every, 'C06-R3', 'tandem-sort:every-path', 'every path through From<BeatmapState> to the Beatmap passes the stable time sort of hit_objects and hit_sounds', frm.where(),
                    bad='From<BeatmapState>: a path reaches the returned Beatmap without the stable time sort of hit_objects / hit_sounds (a mode-specific shortcut): '
                        'the mania legacy sort is a depth-limited quicksort that is only applied to an already time-ordered list — files whose [HitObjects] are '
                        'not chronological come out unsorted')
    pho = [f for f in roots if f.name == 'parse_hit_objects']
    if not pho:
        ctx.violation('C06-R3', 'anchor-missing:parse_hit_objects', 'not found')
    else:
        f = inline.inlined(F, pho[0], depth=2)      # the paired push may be a small method of the parser state
        pushes = {}
        Pf = prov.prov_of(f)
        for bi, t in f.calls():
            if t['func'].get('name') == 'push':
                a = Pf.call_args(bi)
                tgt = as_param_path(a[0])
                if tgt and tgt[1] and tgt[1][-1] in ('hit_objects', 'hit_sounds'):
                    pushes.setdefault(tgt[1][-1], []).append(bi)
        o, s = pushes.get('hit_objects', []), pushes.get('hit_sounds', [])
        paired = len(o) == len(s) and len(o) >= 1 and all(any((f.cfg.dominates(a, b) and f.cfg.postdominates(b, a)) or (f.cfg.dominates(b, a) and f.cfg.postdominates(a, b)) for b in s) for a in o)
        ctx.require(paired, 'C06-R3', 'push-pair', 'every path that pushes a hit object pushes exactly one sound (%d pair(s))' % len(o), f.where(),
                    bad='parse_hit_objects pushes %d object(s) and %d sound(s) / not on the same paths' % (len(o), len(s)))
    # ---- R4
    ctlpoints.check(ctx, F, 'C06-R4')
    # ---- R5
    npanic = 0
    for fn in dec_fns:
        if not (fn.path.startswith('model::beatmap::decode') or fn.path.startswith('model::control_point')):
            continue
        for bi, t in fn.calls():
            p = callee_path(t)
            if PANIC_CALLS.search(p) or UNWRAPS.search(p):
                npanic += 1
                ctx.violation('C06-R5', '%s:%s' % (fn.path, p.split('::')[-1]), 'explicit panic API %s in the decoder (%s)' % (p, fn.path), fn.where(t['ln']))
    ctx.ok('C06-R5', 'scan', 'no unwrap/expect/panic!/assert!/unreachable! in the %d decoder functions of model::beatmap::decode and model::control_point' % len(
        [f for f in dec_fns if f.path.startswith(('model::beatmap::decode', 'model::control_point'))]))
    fx = ctx.fixture()
    fxhits = [t for f in fx.fns if f.path.startswith('c06::') for _, t in f.calls() if PANIC_CALLS.search(callee_path(t)) or UNWRAPS.search(callee_path(t))]
    ctx.control('C06-R5', len(fxhits) >= 2, 'unwrap() and panic!() are recognised')
    fxraw = raw_parses(fx, [f for f in fx.fns if f.path.startswith('c06::')])
    verdicts = {fn.path: bounded_after(fn, bi, t)[0] for fn, bi, t, ty in fxraw}
    ctx.control('C06-R1', verdicts.get('c06::raw_unbounded') is False, 'unbounded raw parse flagged')
    ctx.control('C06-R1', verdicts.get('c06::raw_bounded') is True, 'negative control: raw parse with both bound tests accepted')
    # ---- R6
    for name in ('from_path', 'from_bytes', 'from_str'):
        cands = [f for f in F.fns if f.name == name and f.self_adt == BM]
        if not cands:
            ctx.violation('C06-R6', 'anchor-missing:' + name, 'Beatmap::%s not found' % name)
            continue
        f = cands[0]
        ctx.saw(f)
        calls = [t for _, t in f.calls()]
        rvf = prov.strip(prov.prov_of(f).return_value(), names=set())
        good = len(calls) == 1 and calls[0]['func'].get('krate') == 'rosu_map' and calls[0]['func'].get('name') == name and \
            rvf[0] == 'call' and as_param_path(rvf[2][0], through_calls=False) == (1, ()) and (calls[0]['func'].get('targs') or [''])[0] == BM
        if not good:
            good = reads_only_its_input(F, f)
        ctx.require(good, 'C06-R6', name, 'Beatmap::%s = rosu_map::%s::<Beatmap>(param) or the same decode over a reader made from the parameter alone' % (name, name), f.where(),
                    bad='Beatmap::%s is not a pure delegation to rosu_map::%s with its parameter unchanged (calls: %s)' % (name, name, [callee_path(t) for t in calls]))
    ctx.assume('rosu-map 0.2.1: its DecodeBeatmap driver discards per-line parse_* errors and ParseNumber rejects NaN and |v| > limit')
    ctx.not_decided('bounds / overflow Assert terminators inside the decoder; finiteness of every derived field; equality of the three entry points\' '
                    'results beyond delegation')


READER_STEPS = {'new', 'open', 'as_bytes', 'as_ref', 'branch', 'from_residual', 'into', 'from', 'map_err', 'decode', 'from_bytes', 'from_str', 'from_path'}


def reads_only_its_input(F, f):
    """the entry point decodes a reader built from its parameter alone: one DecodeBeatmap::decode::<Beatmap> (directly, through a sibling entry point or a
    private reader helper), every other step a std reader constructor (`File::open`, `BufReader::new`, `Cursor::new`, `as_bytes`) or `?` plumbing — no buffer,
    cache or other state of the process takes part"""
    import inline
    own = lambda h: h.self_adt == BM and not h.impl_trait and (h.name in ('from_path', 'from_bytes', 'from_str') or not str(h.j.get('vis')).startswith('Public'))
    v = inline.inlined(F, f, depth=3, force=own, stop=lambda h: not own(h))
    decodes = 0
    for bi, t in v.calls():
        fn_ = t['func']
        nm = fn_.get('name')
        if nm == 'decode' and (fn_.get('trait') or '').endswith('DecodeBeatmap'):
            decodes += 1
            continue
        if fn_.get('krate') == 'rosu_map' and nm in ('from_path', 'from_bytes', 'from_str'):
            decodes += 1
            continue
        if fn_.get('local') or nm not in READER_STEPS or fn_.get('krate') not in ('std', 'core', 'alloc'):
            return False
    if decodes != 1:
        return False
    for bi, si, s_ in v.assigns():
        if s_['rv']['k'] in ('tls', 'static'):
            return False
    return True


# ---- R2 helper: a Beatmap difficulty value is clamped, either where the Beatmap is built (the mode is final there) or at
# every write of the parsed value with one mode-independent pair of bounds
DIFF_ADT = 'rosu_map::section::difficulty::Difficulty'


def _clamp_bounds(a):
    c = prov.strip(a, names={'from', 'into'})
    if c[0] == 'call' and c[1].get('name') == 'clamp' and len(c[2]) == 3:
        return (prov.const_val(c[2][1]), prov.const_val(c[2][2]))
    return None


def clamp_field(ctx, F, frm, fld, v):
    import fieldidx
    from common import as_param_path
    key = 'beatmap:' + fld
    if v is None:
        ctx.violation('C06-R2', key, 'Beatmap.%s is not set by From<BeatmapState>' % fld, frm.where())
        return
    alts = v[1] if v[0] == 'phi' else [v]
    bounds = [_clamp_bounds(a) for a in alts]
    if all(b is not None for b in bounds):
        ctx.ok('C06-R2', key, 'Beatmap.%s = clamp(.., %s) where the Beatmap is built' % (fld, bounds), frm.where())
        return
    # case B: handed through from the parser state; then every write of that state field must clamp, with the same bounds
    pp = as_param_path(prov.strip(v, names={'from', 'into'}), through_calls=False)
    if not (pp and pp[0] == 1 and len(pp[1]) == 2 and pp[1][0] == 'difficulty'):
        ctx.violation('C06-R2', key, 'Beatmap.%s is `%s`: the decoded value is not clamped' % (fld, prov.show(v, maxdepth=4)), frm.where())
        return
    g = pp[1][1]
    seen = set()

    def writes_bounds(g, depth=0):
        """set of bounds over all writes of Difficulty.g, or a string describing the offending write"""
        if g in seen or depth > 2:
            return set()
        seen.add(g)
        out = set()
        acc = [a for a in fieldidx.accesses(F, DIFF_ADT, g) if a['kind'] in ('assign', 'mutborrow') and a['last']]
        if not acc:
            return 'no write of Difficulty.%s found' % g
        for a in acc:
            fn = a['fn']
            if a['kind'] == 'mutborrow':
                return '%s takes &mut Difficulty.%s' % (fn.path, g)
            P = prov.prov_of(fn)
            if 'stmt' in a:
                s_ = a['stmt']
                w = P.rvalue(s_['rv'], a['bb'], fn.blocks[a['bb']]['s'].index(s_))
            else:
                return '%s writes Difficulty.%s with a call result' % (fn.path, g)
            for alt in (w[1] if w[0] == 'phi' else [w]):
                b = _clamp_bounds(alt)
                if b is not None:
                    out.add(b)
                    continue
                st = prov.strip(alt, names={'from', 'into'})
                if st[0] == 'field' and isinstance(st[2], str) and st[2] != g:
                    sub = writes_bounds(st[2], depth + 1)
                    if isinstance(sub, str):
                        return sub
                    out |= sub
                    continue
                return '%s (line %s) writes Difficulty.%s = `%s` without clamp' % (fn.path, a['line'], g, prov.show(alt, maxdepth=3))
        return out

    wb = writes_bounds(g)
    if isinstance(wb, str):
        ctx.violation('C06-R2', key, 'Beatmap.%s is handed through from the parser state and %s' % (fld, wb), frm.where())
    elif len(wb) != 1:
        ctx.violation('C06-R2', key, 'Beatmap.%s is handed through from the parser state and the writes of Difficulty.%s clamp with different bounds %s: '
                      'a bound chosen while parsing depends on parser state (the mode) that a later or repeated line can still change, so the final value can lie '
                      'outside the clamp documented for the final mode' % (fld, g, sorted(wb)), frm.where())
    else:
        ctx.ok('C06-R2', key, 'Beatmap.%s is handed through; every write of Difficulty.%s stores clamp(.., %s)' % (fld, g, sorted(wb)), frm.where())
        ctx.assumed('C06-R2', key + ':default', 'the default of rosu_map Difficulty.%s lies inside %s (dependency value, not read here)' % (g, sorted(wb)), frm.where())


# ---- R2 (NaN clause): clamp() hands a NaN through unchanged.  The beat length of an inherited timing point is parsed NaN-tolerantly on purpose, so
# every clamp fed (directly or one call down) by that parse must sit behind something that excludes NaN for its operand
def _contains(v, pred, limit=400):
    return any(pred(x) for x in prov.walk(v, limit=limit))


def _excludes_nan(fn, bb, pred):
    """a fact known on entry to bb that cannot hold for NaN: a TRUE ordered comparison of the source with a constant, is_nan() == false,
    is_finite() == true (the negation of `x >= 0.0` does hold for NaN and proves nothing)"""
    import arms
    facts = list(arms.bool_facts(fn, bb))
    known = {(prov.show(prov.strip(c, names={'likely', 'unlikely'}), maxdepth=12), lab) for c, lab in facts if c[0] != 'implies'}
    for c, lab in list(facts):
        # `if a && x.is_nan() { return Err }` earlier and `if a { .. }` here: the premises hold, so the conclusion does
        if c[0] == 'implies' and all((prov.show(prov.strip(pc, names={'likely', 'unlikely'}), maxdepth=12), pl) in known for pc, pl in c[1] if pc[0] != 'implies'):
            facts.append((c[2], lab))
    for c, lab in facts:
        if c[0] == 'implies':
            continue
        c = prov.strip(c, names={'likely', 'unlikely'})
        if c[0] == 'binop' and c[1] in ('Lt', 'Le', 'Gt', 'Ge', 'Eq') and lab == 'true':
            if (_contains(c[2], pred, 60) and not _contains(c[3], pred, 60)) or (_contains(c[3], pred, 60) and not _contains(c[2], pred, 60)):
                return True
        if c[0] == 'call' and c[1].get('name') in ('is_nan', 'is_finite') and c[2] and _contains(c[2][0], pred, 60):
            if (c[1]['name'] == 'is_nan' and lab == 'false') or (c[1]['name'] == 'is_finite' and lab == 'true'):
                return True
    return False


def nan_free(fn, op, bb, idx, pred, depth=0):
    """the operand cannot carry the NaN of the source `pred` when used in block bb: it does not depend on it, or the use / every
    definition that depends on it lies behind a NaN-excluding fact"""
    P = prov.prov_of(fn)
    if not isinstance(op, dict) or op.get('k') not in ('copy', 'move'):
        return True
    if not _contains(P.operand(op, bb, idx), pred):
        return True
    if _excludes_nan(fn, bb, pred):
        return True
    if depth > 8 or 'proj' in op['p'] and any(e != '*' for e in op['p']['proj']):
        return False
    defs = P.reaching(op['p']['l'], bb, idx)
    if not defs:
        return False
    for d in defs:
        if d.kind == 'param':
            return False
        if not _contains(P.def_value(d), pred):
            continue
        if _excludes_nan(fn, d.bb, pred):
            continue
        if d.kind == 'assign' and d.data['rv']['k'] == 'use' and nan_free(fn, d.data['rv']['op'], d.bb, d.idx, pred, depth + 1):
            continue
        if d.kind == 'assign' and d.data['rv']['k'] in ('binop', 'unop', 'cast'):
            rv_ = d.data['rv']
            ops_ = [rv_.get(k_) for k_ in ('a', 'b', 'op', 'operand', 'o') if isinstance(rv_.get(k_), dict) and 'k' in rv_.get(k_)]
            if ops_ and all(nan_free(fn, o_, d.bb, d.idx, pred, depth + 1) for o_ in ops_):
                continue
        if d.kind == 'call' and d.data.get('args') and d.data['func'].get('name') in ('from', 'into', 'abs', 'neg', 'unwrap_or', 'unwrap_or_default'):
            if all(nan_free(fn, o_, d.bb, len(fn.blocks[d.bb]['s']), pred, depth + 1) for o_ in d.data['args']):
                continue
        return False
    return True


def r2_nan(ctx, F, dec_fns):
    import inline
    # judged on the bodies with private helpers inlined: the tolerant parse may live in a helper that hands the number back (`parse_beat_len(s)?`)
    views = []
    for fn in dec_fns:
        views.append(inline.inlined(F, fn, depth=2))          # the function itself when nothing was inlined
    raws = [(fn, bi, t, ty) for fn, bi, t, ty in raw_parses(F, views) if 'f64' in str(ty) or 'f32' in str(ty)]
    nclamp = 0
    marked = {}           # (callee path, param index) -> where it was handed a NaN-tolerant value
    for g, pb, pt, ty in raws:
        pred = lambda x, g=g, pb=pb: x[0] == 'call' and len(x) > 3 and x[3] == (g.path, pb)
        for bi, t in g.calls():
            n_ = len(g.blocks[bi]['s'])
            f = t['func']
            if f.get('name') == 'clamp' and f.get('krate') in ('core', 'std') and t['args']:
                if _contains(prov.prov_of(g).call_args(bi)[0], pred):
                    nclamp += 1
                    ctx.require(nan_free(g, t['args'][0], bi, n_, pred), 'C06-R2', 'nan:%s:%s' % (g.path.split('::')[-1], t.get('ln') and 'clamp'), '%s: the clamp operand fed by the NaN-tolerant parse lies behind a NaN-excluding comparison' % g.path,
                                g.where(t.get('ln')), bad='%s: a value of the NaN-tolerant number parse reaches clamp() at line %s without a comparison that excludes NaN (clamp returns NaN for NaN): '
                                'a non-finite number is stored in the decoded map' % (g.path, t.get('ln')))
            elif f.get('local') and F.fn(f.get('path') or '') is not None:
                for i, a in enumerate(t['args']):
                    if a.get('k') in ('copy', 'move') and not nan_free(g, a, bi, n_, pred):
                        marked.setdefault((f['path'], i + 1), '%s line %s' % (g.path.split('::')[-1], t.get('ln')))
    for (hp, k), origin in sorted(marked.items()):
        h0 = F.fn(hp)
        h = inline.inlined(F, h0, depth=2)
        pred = lambda x, k=k: x == ('param', k)
        for bi, t in h.calls():
            f = t['func']
            if f.get('name') == 'clamp' and f.get('krate') in ('core', 'std') and t['args'] and _contains(prov.prov_of(h).call_args(bi)[0], pred):
                nclamp += 1
                ctx.require(nan_free(h, t['args'][0], bi, len(h.blocks[bi]['s']), pred), 'C06-R2', 'nan:%s:param%d' % (h0.path.split('::')[-2] + '::' + h0.name, k),
                            '%s: parameter %d may be NaN (from %s); the clamp it feeds lies behind a comparison that excludes NaN' % (h0.path, k, origin), h0.where(t.get('ln')),
                            bad='%s: parameter %d can be NaN (handed over unguarded in %s) and reaches clamp() at line %s without a TRUE ordered comparison / is_nan test in front of it '
                                '(clamp returns NaN for NaN; `!(x >= 0.0)` also holds for NaN): the decoded map stores a non-finite number' % (h0.path, k, origin, t.get('ln')))
    ctx.ok('C06-R2', 'nan:scan', '%d NaN-tolerant float parse(s); %d parameter(s) of local functions may receive NaN (%s); %d clamp(s) fed by them checked' % (
        len(raws), len(marked), ', '.join('%s#%d' % (p.split('::')[-2] + '::' + p.split('::')[-1], k) for p, k in sorted(marked)), nclamp))
    ctx.floor('C06-R2', nclamp, 1, 'clamps fed by the NaN-tolerant parse')
