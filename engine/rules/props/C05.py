"""C05 — no panic / hang: two structural clauses (float accumulator loops, guard discipline)."""
import re

import floatloops as fl
import guardrule
import prov

EXPLANATION = (
    "Two clauses only. R1: every natural loop of the crate whose exits are all floating point comparisons is "
    "classified by its accumulator updates; an additive f32 accumulator needs a progress guard (an exit comparing "
    "acc±step with acc) because f32 absorbs the step once |acc| >= 2^24*step — times reach 2^31 ms; f64 additive "
    "loops are accepted under the stated magnitude bound; multiplicative shrink loops are accepted when the start "
    "value provably comes from an integer (finite). R2: RefCount guard discipline (a get_mut while a guard of the "
    "same pointee type may be live panics in the default build). R3: the mania column search `find_available_column(col, None, &[prev_pattern])` "
    "asserts that a column outside `prev_pattern` exists; with the whole column range and that single exclusion set this is exactly "
    "`prev_pattern.column_with_objs() < total_columns`, which must be an established fact at the call. R4: `clamp(lo, hi)` panics when lo > hi: every clamp whose bounds are not two ordered constants has lo <= hi established — by a dominating comparison of the variable bound, by both bounds being the same value shifted by ordered constants, or by a constant lower bound <= 0 with an upper bound that is non-negative by construction (abs, squares, products and quotients of non-negative parts; local functions read through). NaN bounds are excluded only where a comparison establishes it. R5: the largest column count a mania conversion can choose — interval evaluation of the result of target_columns over constants, min / max / + / *, the key-mod accessor bounded by the constants written in it — does not exceed the bit width of the integer ContainedColumns shifts `1 << column` into. All other panic/hang corners (integer overflow, "
    "index arithmetic, empty windows, PRNG column search) are numeric and NOT decided.")


def _int_derived(v):
    if v[0] == 'cast' and v[1] == 'IntToFloat':
        return True
    return v[0] == 'call' and v[1].get('name') == 'from' and bool(re.search(r'From<[iu]\d+> for f(32|64)', v[1].get('path') or ''))


def init_is_finite(fn, L, acc_key):
    """value of the accumulator on loop entry comes from an integer-to-float conversion"""
    m = re.fullmatch(r'_(\d+)', acc_key)
    if not m:
        return False, 'accumulator is not a plain local'
    l = int(m.group(1))
    P = prov.prov_of(fn)
    vals = []
    for d in P.reaching(l, L.header, 0):
        if d.bb in L.body and d.bb != -1:
            continue
        vals.append(P.def_value(d))
    if not vals:
        return False, 'no definition outside the loop'
    for v in vals:
        v = prov.strip(v, names=prov.TRANSPARENT_NAMES - {'from', 'into'})
        ok = _int_derived(v)
        if not ok and v[0] == 'param' and not fn.is_pub:
            # a private helper: the start value is finite if every call site hands over an integer conversion
            F = fn.facts
            sites = F.callers().get(fn.path, []) if F is not None else []
            if sites:
                ok = True
                for cfn, cbb, ct in sites:
                    args = prov.prov_of(cfn).call_args(cbb)
                    if v[1] > len(args) or not _int_derived(prov.strip(args[v[1] - 1], names=prov.TRANSPARENT_NAMES - {'from', 'into'})):
                        ok = False
        if not ok:
            return False, 'start value `%s` is not an integer conversion' % prov.show(v, maxdepth=3)
    return True, 'start value converted from an integer (finite)'


def check_loops(ctx, F, rule, judge=True):
    n_float = 0
    results = []
    import inline
    fns = list(F.fns)
    # a float loop moved into a helper that receives its bound as a parameter is judged in the caller's context as well
    seen_paths = {f.path for f in fns}
    for fn in fns:
        for L in fl.analyse(fn):
            if not L.float_only:
                continue
            n_float += 1
            ctx.saw(fn)
            writes = fl.place_writes(fn, L.body)
            exits = ' ; '.join(fl.show_root(r) for _, r in L.exits)
            if not L.accs:
                results.append((fn, L, 'note', 'float-only exit without loop-variant operand: %s' % exits))
                continue
            for a in L.accs:
                kinds = [fl.classify_update(rr, a['place'], writes) for _, _, _, rr in a['updates']]
                # updates that merely copy acc±step computed into a temporary count as additive
                names = fn.local_names()
                m = re.fullmatch(r'_(\d+)', a['place'])
                label = names.get(int(m.group(1)), a['place']) if m else a['place'].split('.')[-1]
                key = '%s:%s' % (fn.path, label)
                ks = {k[0] for k in kinds}
                where = fn.where(L.line)
                if ks == {'additive'}:
                    if a['ty'] == 'f32':
                        if fl.progress_guard(L, a['place']):
                            results.append((fn, L, 'ok', key, 'f32 accumulator `%s += step` with progress guard (exit when acc+step <= acc): %s' % (label, exits), where))
                        else:
                            results.append((fn, L, 'violation', key,
                                            'f32 accumulator loop `while %s` advances `%s` by a loop-invariant step with no progress '
                                            'guard and no integer bound: once |%s| >= 2^24*step the addition is absorbed and the loop '
                                            'never terminates (times reach 2^31 ms)' % (exits, label, label), where))
                    else:
                        results.append((fn, L, 'ok', key, 'f64 accumulator `%s += step` (exit %s): accepted under the magnitude bound '
                                        '|t| <= 2^31/0.01 where ulp <= 3.1e-5' % (label, exits), where))
                elif ks == {'mult'}:
                    good, why = init_is_finite(fn, L, a['place'])
                    if good:
                        results.append((fn, L, 'ok', key, 'shrink loop `%s` on %s: %s' % (fl.show_root(a['updates'][0][3]), label, why), where))
                    else:
                        results.append((fn, L, 'violation', key, 'shrink loop `while %s` on `%s`: %s — an infinite start value never '
                                        'shrinks below the bound' % (exits, label, why), where))
                else:
                    results.append((fn, L, 'note', key, 'float loop with unclassified update(s) %s (exit %s): not judged' % (
                        [fl.show_root(k[-1]) if k[0] == 'other' else k[0] for k in kinds], exits), where))
    return n_float, results


def run(ctx):
    F = ctx.facts('default')
    fx = ctx.fixture()
    n, results = check_loops(ctx, F, 'C05-R1')
    for r in results:
        if r[2] == 'ok':
            ctx.ok('C05-R1', r[3], r[4], r[5])
        elif r[2] == 'violation':
            ctx.violation('C05-R1', r[3], r[4], r[5])
        else:
            ctx.note('C05-R1 %s' % (r[3:],))
    total_loops = sum(len(fn.cfg.natural_loops()) for fn in F.fns)
    ctx.ok('C05-R1', 'scan', '%d natural loops in %d bodies; %d have only floating-point exit tests' % (total_loops, len(F.fns), n))
    ctx.floor('C05-R1', n, 5, 'float-only loops (6 source loops, the skill section loop instantiated per skill)')
    # controls
    _, fr = check_loops(ctx, fx, 'C05-R1')
    verdicts = {r[0].path: r[2] for r in fr}
    ctx.control('C05-R1', verdicts.get('c05::f32_stall') == 'violation', 'f32 accumulator without progress guard')
    ctx.control('C05-R1', verdicts.get('c05::f32_guarded') == 'ok', 'negative control: f32 accumulator with progress guard accepted')
    ctx.control('C05-R1', verdicts.get('c05::f64_acc') == 'ok', 'negative control: f64 accumulator accepted')
    ctx.control('C05-R1', verdicts.get('c05::shrink_unknown') == 'violation', 'shrink loop from unknown float')
    ctx.control('C05-R1', verdicts.get('c05::shrink_int') == 'ok', 'negative control: shrink loop from integer accepted')

    nsites, nw = guardrule.check(ctx, F, 'C05-R2')
    ctx.floor('C05-R2', nw, 13, 'RefCount::get_mut sites')
    ctx.floor('C05-R2', nsites, 90, 'RefCount::get/get_mut sites')
    guardrule.controls(ctx, fx, 'C05-R2')
    r3_free_column(ctx, F)
    r4_clamp_bounds(ctx, F)
    r5_column_set_width(ctx, F)
    ctx.assume('all times come through the decoder bound 2^31 and a clock rate >= 0.01, so |t| <= 2.2e11 (f64 ulp <= 3.1e-5); '
               'every f64 step in the accepted loops is >= 1e-4')
    ctx.assume('RefCell permits nested shared borrows (read under read)')
    ctx.not_decided('integer overflow / truncation, usize underflow, empty windows, assert!(has_valid_column) and the PRNG column '
                    'search, iteration budgets, memory budgets')


# ---- R3: precondition of the asserted column search
def r3_free_column(ctx, F):
    import arms
    n = 0
    for fn in F.fns:
        if 'mania::convert::pattern_generator' not in fn.path:
            continue
        P = None
        for bi, t in fn.calls():
            if t['func'].get('name') != 'find_available_column' or not t['func'].get('local'):
                continue
            P = P or prov.prov_of(fn)
            args = P.call_args(bi)
            # (self, column, lower?, [upper?], patterns): whole range = every Option argument is None; patterns = the last argument
            opts = [prov.strip(a, names=set()) for a in args[2:-1]]
            if not opts or not all(o[0] == 'agg' and o[3] == 'None' for o in opts):
                continue
            pats = prov.strip(args[-1], names=set())
            if pats[0] != 'agg' or pats[1] != 'array':
                continue
            items = list(pats[-1].values()) if isinstance(pats[-1], dict) else list(pats[-1])
            if len(items) != 1:
                continue
            el = prov.strip(items[0], through_mut=True)
            while el[0] == 'mut':
                el = el[1]
            if not (el[0] == 'field' and el[2] == 'prev_pattern'):
                continue
            ctx.saw(fn)
            n += 1
            ok = False
            for c, lab in arms.bool_facts(fn, bi):
                c = prov.strip(c, names={'likely', 'unlikely'})
                if c[0] != 'binop':
                    continue
                l_is = any(x[0] == 'call' and x[1].get('name') == 'column_with_objs' for x in prov.walk(c[2], limit=20))
                r_is = any(x[0] == 'call' and x[1].get('name') == 'column_with_objs' for x in prov.walk(c[3], limit=20))
                tot_l = any(x[0] == 'field' and x[2] == 'total_columns' for x in prov.walk(c[2], limit=20))
                tot_r = any(x[0] == 'field' and x[2] == 'total_columns' for x in prov.walk(c[3], limit=20))
                if (c[1] == 'Lt' and l_is and tot_r and lab == 'true') or (c[1] == 'Gt' and tot_l and r_is and lab == 'true') or \
                        (c[1] == 'Ge' and l_is and tot_r and lab == 'false') or (c[1] == 'Le' and tot_l and r_is and lab == 'false') or \
                        (c[1] == 'Ne' and ((l_is and tot_r) or (tot_l and r_is)) and lab == 'true') or (c[1] == 'Eq' and ((l_is and tot_r) or (tot_l and r_is)) and lab == 'false'):
                    ok = True
            ctx.require(ok, 'C05-R3', '%s:free-column' % fn.path.split('pattern_generator::')[-1],
                        '%s: find_available_column(.., &[prev_pattern]) only where prev_pattern.column_with_objs() < total_columns is established' % fn.path, fn.where(t.get('ln')),
                        bad='%s searches for a column outside prev_pattern over the whole column range without `prev_pattern.column_with_objs() < total_columns` being '
                            'established on that path: when the previous pattern occupies every column (low key counts) the search has no valid column and '
                            '`assert!(has_valid_column)` panics during conversion' % fn.path)
    ctx.floor('C05-R3', n, 1, 'whole-range column searches excluding only prev_pattern (3 today; one if the prologues share a helper)')


# ---- R4: clamp(lo, hi) panics when lo > hi (or a bound is NaN): every clamp whose bounds are not two ordered constants needs lo <= hi established
NONNEG_CALLS = {'abs', 'sqrt', 'exp', 'exp2', 'cosh', 'len', 'count', 'powi_even', 'hypot', 'norm', 'length', 'dist', 'to_radians_abs'}


def _num(v):
    c = prov.const_val(prov.strip(v, names={'from', 'into'}))
    try:
        return float(c)
    except (TypeError, ValueError):
        return None


def nonneg(F, v, depth=0, _seen=None):
    """the value tree is >= 0 whenever it is a number: products / quotients / sums of non-negative parts, abs(), even powers, max with a non-negative
    part, unsigned integers; local functions are read through their return value"""
    if depth > 14:
        return False
    v = prov.strip(v, names={'from', 'into', 'clone', 'copied'})
    k = v[0]
    c = _num(v)
    if c is not None:
        return c >= 0
    if k == 'cast':
        if v[1] in ('IntToFloat', 'IntToInt') and len(v) > 3 and str(v[3]).startswith('u') is False:
            pass
        return nonneg(F, v[2], depth + 1)
    if k == 'phi':
        return all(nonneg(F, a, depth + 1) for a in v[1])
    if k == 'field' and v[2] == '0' and v[1][0] == 'binop' and v[1][1].endswith('WithOverflow'):
        return nonneg(F, ('binop', v[1][1][:-len('WithOverflow')], v[1][2], v[1][3]), depth + 1)
    if k == 'binop':
        op = v[1]
        a, b = v[2], v[3]
        if op in ('Mul', 'Div', 'Add'):
            if op == 'Mul' and prov.show(a, maxdepth=12) == prov.show(b, maxdepth=12):
                return True
            return nonneg(F, a, depth + 1) and nonneg(F, b, depth + 1)
        return False
    if k == 'call':
        f = v[1]
        nm = f.get('name')
        if nm in NONNEG_CALLS and not f.get('local'):
            return True
        if nm == 'powi' and len(v[2]) == 2:
            e = _num(v[2][1])
            return e is not None and int(e) % 2 == 0
        if nm == 'max' and len(v[2]) == 2:
            return nonneg(F, v[2][0], depth + 1) or nonneg(F, v[2][1], depth + 1)
        if nm == 'min' and len(v[2]) == 2:
            return nonneg(F, v[2][0], depth + 1) and nonneg(F, v[2][1], depth + 1)
        if nm == 'clamp' and len(v[2]) == 3:
            lo = _num(v[2][1])
            return lo is not None and lo >= 0
        if f.get('local') and F.fn(f.get('path') or '') is not None:
            w = prov.inline_call(F, v)
            if w is not v:
                return nonneg(F, w, depth + 1)
    return False


def _lin_offset(v):
    """(base text, constant offset) of `X + c` / `X - c` / X with c a constant expression"""
    v = prov.strip(v, names={'from', 'into'})
    if v[0] == 'binop' and v[1] in ('Add', 'Sub'):
        c = _const_expr(v[3])
        if c is not None:
            return prov.show(v[2], maxdepth=10), c if v[1] == 'Add' else -c
    return prov.show(v, maxdepth=10), 0.0


def _const_expr(v):
    v = prov.strip(v, names={'from', 'into'})
    c = _num(v)
    if c is not None:
        return c
    if v[0] == 'binop' and v[1] in ('Add', 'Sub', 'Mul', 'Div'):
        a, b = _const_expr(v[2]), _const_expr(v[3])
        if a is None or b is None:
            return None
        try:
            return {'Add': a + b, 'Sub': a - b, 'Mul': a * b, 'Div': a / b}[v[1]]
        except ZeroDivisionError:
            return None
    return None


def _const_alts(v):
    """set of constants a value can be (phi of constant expressions, projections of constant tuples resolved by prov), or None"""
    v = prov.strip(v, names={'from', 'into'})
    alts = v[1] if v[0] == 'phi' else [v]
    out = set()
    for a in alts:
        c = _const_expr(a)
        if c is None:
            return None
        out.add(c)
    return out


def _clamp_reason(F, fn, bi, t):
    """(constant verdict | None, reason | None) for the clamp call terminating block bi of fn (fn may be an inlined view)"""
    import arms
    P = prov.prov_of(fn)
    a = P.call_args(bi)
    lo, hi = a[1], a[2]
    cl, ch = _const_expr(lo), _const_expr(hi)
    if cl is not None and ch is not None:
        return (cl, ch), None, lo, hi
    why = None
    # (a') bounds chosen together from constant pairs (`let (lo, hi) = if c { (1.0, 18.0) } else { (0.0, 10.0) }`): every combination is ordered
    los, his = _const_alts(lo), _const_alts(hi)
    if los and his and max(los) <= min(his):
        why = 'each bound is one of a few constants (%s / %s) and every lower one is <= every upper one' % (sorted(los), sorted(his))
    # (b) an established comparison of the variable bound with a constant
    if cl is not None and why is None:
        his_ = prov.show(prov.strip(hi, names={'from', 'into'}), maxdepth=10)
        for c, lab in arms.bool_facts(fn, bi):
            c = prov.strip(c, names={'likely', 'unlikely'})
            if c[0] == 'binop' and c[1] in ('Gt', 'Ge', 'Lt', 'Le'):
                l_, r_ = c[2], c[3]
                op = c[1]
                if lab == 'false':
                    continue          # the negation of a float comparison also holds for NaN
                if op in ('Lt', 'Le'):
                    l_, r_, op = r_, l_, {'Lt': 'Gt', 'Le': 'Ge'}[op]
                k_ = _const_expr(r_)
                if k_ is not None and k_ >= cl and prov.show(prov.strip(l_, names={'from', 'into'}), maxdepth=10) == his_:
                    why = 'the upper bound is known to be %s %g here (which also excludes NaN)' % ('>' if op == 'Gt' else '>=', k_)
    # (c) X - d .. X + d'
    if why is None:
        bl, ol = _lin_offset(lo)
        bh, oh = _lin_offset(hi)
        if bl == bh and ol <= oh:
            why = 'bounds are the same value shifted by %g and %g' % (ol, oh)
    # (d) constant lower bound <= 0 and an upper bound that is non-negative by construction
    if why is None and cl is not None and cl <= 0 and nonneg(F, hi):
        why = 'lower bound %g, upper bound non-negative by construction (abs / squares / products of non-negative parts)' % cl
    return None, why, lo, hi


def r4_clamp_bounds(ctx, F):
    import inline
    n = nvar = 0
    callers = F.callers()
    for fn in F.fns:
        for bi, t in fn.calls():
            f = t['func']
            if f.get('name') != 'clamp' or f.get('krate') not in ('core', 'std') or len(t['args']) != 3:
                continue
            consts, why, lo, hi = _clamp_reason(F, fn, bi, t)
            n += 1
            key = 'clamp:%s:%s' % (fn.path, prov.show(hi, maxdepth=2)[:40])
            if consts is not None:
                cl, ch = consts
                ctx.require(cl <= ch, 'C05-R4', key, 'constant bounds %g <= %g' % (cl, ch), fn.where(t.get('ln')),
                            bad='%s: clamp(%g, %g) has its bounds the wrong way round: it panics on every call' % (fn.path, cl, ch))
                continue
            nvar += 1
            if why is None and not str(fn.j.get('vis')).startswith('Public') and callers.get(fn.path):
                # a private helper: the ordering may be established by each of its callers (judged on the caller's body with the helper inlined)
                reasons = []
                for cfn, cbi, ct in callers[fn.path]:
                    cv = inline.inlined(F, cfn, depth=2)
                    sites = [(bj, t2) for bj, t2 in cv.calls() if t2['func'].get('name') == 'clamp' and t2.get('ln') == t.get('ln') and len(t2['args']) == 3]
                    got = [_clamp_reason(F, cv, bj, t2) for bj, t2 in sites]
                    if sites and all(g[0] is not None and g[0][0] <= g[0][1] or g[1] for g in got):
                        reasons.append('%s: %s' % (cfn.path.split('::')[-1], '; '.join(sorted({g[1] or 'constants' for g in got}))))
                    else:
                        reasons = None
                        break
                if reasons:
                    why = 'established by every caller — ' + ' | '.join(reasons)
            ctx.require(why is not None, 'C05-R4', key, '%s: clamp(%s, %s): %s' % (fn.path, prov.show(lo, maxdepth=2)[:40], prov.show(hi, maxdepth=2)[:60], why), fn.where(t.get('ln')),
                        bad='%s: clamp(%s, %s) — nothing establishes lower <= upper: `clamp` panics ("min > max") as soon as the upper bound drops below the lower one, '
                            'e.g. for a setting at the edge of its documented range' % (fn.path, prov.show(lo, maxdepth=3)[:60], prov.show(hi, maxdepth=5)[:200]))
    ctx.floor('C05-R4', n, 20, 'clamp calls')
    ctx.ok('C05-R4', 'scan', '%d clamp calls, %d with a non-constant bound' % (n, nvar))


# ---- R5: the column bit set is wide enough for every column count a conversion can choose (seed C05-7: DualStages doubling the count to 18 / 20)
INF = float('inf')


def _interval(v, depth=0):
    """[lo, hi] of a numeric value tree: constants, phi hulls, + - *, min / max / clamp, bool and integer widenings; anything else is unbounded"""
    v = prov.strip(v, names=set())
    if depth > 40:
        return (-INF, INF)
    k = v[0]
    if k == 'const':
        c = prov.const_val(v)
        try:
            x = float(c)
            return (x, x)
        except (TypeError, ValueError):
            if c in ('true', 'false'):
                return (0.0, 1.0)
            return (-INF, INF)
    if k == 'phi':
        alts = [_interval(a, depth + 1) for a in v[1] if not _infeasible(a)]
        if not alts:
            return (-INF, INF)
        return (min(a[0] for a in alts), max(a[1] for a in alts))
    if k == 'cast':
        return _interval(v[2], depth + 1)
    if k == 'field' and str(v[2]) == '0' and v[1][0] == 'binop' and v[1][1].endswith('WithOverflow'):
        return _interval(('binop', v[1][1][:-len('WithOverflow')], v[1][2], v[1][3]), depth + 1)
    if k == 'field' and str(v[2]) == '0':
        inner = prov.strip(v[1], names=set())
        if inner[0] == 'variant' and inner[2] == 'Some':
            return _interval(inner[1], depth + 1)
    if k == 'agg' and len(v) > 4 and v[3] == 'Some' and '0' in v[4]:
        return _interval(v[4]['0'], depth + 1)
    if k == 'binop':
        op = v[1]
        if op in ('Gt', 'Ge', 'Lt', 'Le', 'Eq', 'Ne'):
            return (0.0, 1.0)
        a, b = _interval(v[2], depth + 1), _interval(v[3], depth + 1)
        if op.startswith('Add'):
            return (a[0] + b[0], a[1] + b[1])
        if op.startswith('Sub'):
            return (a[0] - b[1], a[1] - b[0])
        if op.startswith('Mul'):
            ps = [x * y for x in a for y in b if not (abs(x) == INF and y == 0) and not (abs(y) == INF and x == 0)]
            return (min(ps), max(ps)) if ps and not any(p != p for p in ps) else (-INF, INF)
        return (-INF, INF)
    if k == 'call':
        name = v[1].get('name')
        args = v[2]
        if name in _LEAF and v[1].get('local'):
            return _LEAF[name]
        if name in ('from', 'into') and len(args) == 1:
            return _interval(args[0], depth + 1)
        if name == 'min' and len(args) == 2:
            a, b = _interval(args[0], depth + 1), _interval(args[1], depth + 1)
            return (min(a[0], b[0]), min(a[1], b[1]))
        if name == 'max' and len(args) == 2:
            a, b = _interval(args[0], depth + 1), _interval(args[1], depth + 1)
            return (max(a[0], b[0]), max(a[1], b[1]))
        if name == 'clamp' and len(args) == 3:
            lo, hi = _interval(args[1], depth + 1), _interval(args[2], depth + 1)
            return (lo[0], hi[1])
        if name in ('round', 'round_ties_even', 'floor', 'ceil', 'trunc') and len(args) == 1:
            a = _interval(args[0], depth + 1)
            return (a[0] - 1, a[1] + 1)
    return (-INF, INF)


def _infeasible(a):
    a = prov.strip(a, names=set())
    while a[0] == 'field':
        a = prov.strip(a[1], names=set())
    return (a[0] == 'unknown' and len(a) > 1 and a[1] == 'variant mismatch') or (a[0] == 'agg' and len(a) > 3 and a[3] == 'None')


def _float_consts(F, fn, depth=0, seen=None):
    """every floating-point constant written in fn, its closures, the local functions it calls (two levels) and the constant items it names"""
    import json
    import re as _re
    seen = seen if seen is not None else set()
    if fn is None or fn.path in seen or depth > 2:
        return set()
    seen.add(fn.path)
    out = set()
    txt = json.dumps(fn.blocks)
    for m_ in _re.finditer(r'"tk": "float"[^}]*?"val": "([^"]+)"', txt):
        try:
            out.add(float(m_.group(1)))
        except ValueError:
            pass
    for c in F.j.get('consts', []):
        cp = c.get('path') or ''
        if cp and ('"%s"' % cp) in txt or (cp.startswith(fn.path + '::') and 'mir' in c):
            for m_ in _re.finditer(r'"tk": "float"[^}]*?"val": "([^"]+)"', json.dumps(c.get('mir', {}))):
                try:
                    out.add(float(m_.group(1)))
                except ValueError:
                    pass
    for g in F.fns:
        if g.path.startswith(fn.path + '::{closure'):
            out |= _float_consts(F, g, depth, seen)
    for bi, t in fn.calls():
        if t['func'].get('local'):
            out |= _float_consts(F, F.fn(t['func'].get('path') or ''), depth + 1, seen)
    return out


_LEAF = {}


def r5_column_set_width(ctx, F):
    """`ContainedColumns` keeps the occupied columns of a pattern as bits of one integer and shifts `1 << column`; columns run below the column count the
    conversion chose, which is what `target_columns` returns (it becomes `map.cs`, read back as `total_columns`).  The largest value `target_columns` can return
    (interval evaluation of its result: key-mod constants, the computed alternatives, min / max) must not exceed the bit width of that integer — beyond it the shift
    overflows (a panic with overflow checks, aliased columns without)."""
    import combin
    cc = F.adts.get('mania::convert::pattern::ContainedColumns')
    f = F.fn('mania::convert::target_columns')
    if cc is None or f is None:
        ctx.violation('C05-R5', 'anchor-missing:column-set', 'mania::convert::pattern::ContainedColumns / mania::convert::target_columns not found')
        return
    ctx.saw(f)
    ty = cc['variants'][0]['fields'][0]['ty'].get('s')
    width = {'u8': 8, 'u16': 16, 'u32': 32, 'u64': 64, 'u128': 128, 'usize': 64}.get(ty)
    rv = prov.prov_of(f).return_value()
    # the key-mod accessor answers with one of the constants written in it (row by row: C08-R1); however it finds the row (an if-chain, a table and a search),
    # its result lies between the smallest and the largest of them
    mk = F.fn('model::mods::GameMods::mania_keys')
    _LEAF.clear()
    if mk is not None:
        cs = _float_consts(F, mk)
        if cs:
            _LEAF['mania_keys'] = (min(cs), max(cs))
    rv = prov.inline_all(F, rv, depth=3, _seen=(f.path,), only=lambda f_: f_.get('local') and not f_.get('trait') and f_.get('name') != 'mania_keys')
    rv = combin.expand(F, rv)
    # helpers called from inside the expanded combinator closures (`.or_else(|| by_ratio(map))`) are read through in a second round
    rv = prov.inline_all(F, rv, depth=3, _seen=(f.path,), only=lambda f_: f_.get('local') and not f_.get('trait') and f_.get('name') != 'mania_keys')
    rv = combin.expand(F, rv)
    lo, hi = _interval(rv)
    # the shifts themselves: every `1 << column` of the set's methods is on the storage integer (not a narrower temporary)
    nshift = 0
    for fn in F.fns:
        if fn.self_adt == 'mania::convert::pattern::ContainedColumns':
            for bi, si, s_ in fn.assigns():
                if s_['rv']['k'] == 'binop' and str(s_['rv'].get('op', '')).startswith('Shl'):
                    nshift += 1
    ok = width is not None and hi != INF and hi <= width
    ctx.require(ok, 'C05-R5', 'column-set-width', 'target_columns returns at most %s columns; ContainedColumns stores them in a %s (%s bits, %d shift site(s))' % (
        ('%g' % hi) if hi != INF else 'an unbounded number of', ty, width, nshift), f.where(),
        bad='a conversion can choose up to %s columns (target_columns, helpers inlined) but ContainedColumns keeps them as bits of a %s: `1 << column` overflows for '
            'column >= %s — a panic with overflow checks on, silently aliased columns otherwise' % (('%g' % hi) if hi != INF else 'unboundedly many', ty, width))
    ctx.floor('C05-R5', nshift, 2, 'shift sites in ContainedColumns')
