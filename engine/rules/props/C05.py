"""C05 — no panic / hang: two structural clauses (float accumulator loops, guard discipline)."""
import re

import floatloops as fl
import guardrule
import prov

EXPLANATION = (
    "Two clauses only. R1: every natural loop of the crate whose exits are all floating point comparisons is "
    "classified by its accumulator updates; an additive f32 accumulator needs a progress guard (an exit comparing "
    "acc±step with acc) because f32 absorbs the step once |acc| >= 2^24*step — times reach 2^31 ms; f64 additive "
    "loops are accepted under the stated magnitude bound; multiplicative shrink loops are accepted when the start "
    "value provably comes from an integer (finite). R2: RefCount guard discipline (a get_mut while a guard of the "
    "same pointee type may be live panics in the default build). R3: the mania column search `find_available_column(col, None, &[prev_pattern])` "
    "asserts that a column outside `prev_pattern` exists; with the whole column range and that single exclusion set this is exactly "
    "`prev_pattern.column_with_objs() < total_columns`, which must be an established fact at the call. All other panic/hang corners (integer overflow, "
    "index arithmetic, empty windows, PRNG column search) are numeric and NOT decided.")


def _int_derived(v):
    if v[0] == 'cast' and v[1] == 'IntToFloat':
        return True
    return v[0] == 'call' and v[1].get('name') == 'from' and bool(re.search(r'From<[iu]\d+> for f(32|64)', v[1].get('path') or ''))


def init_is_finite(fn, L, acc_key):
    """value of the accumulator on loop entry comes from an integer-to-float conversion"""
    m = re.fullmatch(r'_(\d+)', acc_key)
    if not m:
        return False, 'accumulator is not a plain local'
    l = int(m.group(1))
    P = prov.prov_of(fn)
    vals = []
    for d in P.reaching(l, L.header, 0):
        if d.bb in L.body and d.bb != -1:
            continue
        vals.append(P.def_value(d))
    if not vals:
        return False, 'no definition outside the loop'
    for v in vals:
        v = prov.strip(v, names=prov.TRANSPARENT_NAMES - {'from', 'into'})
        ok = _int_derived(v)
        if not ok and v[0] == 'param' and not fn.is_pub:
            # a private helper: the start value is finite if every call site hands over an integer conversion
            F = fn.facts
            sites = F.callers().get(fn.path, []) if F is not None else []
            if sites:
                ok = True
                for cfn, cbb, ct in sites:
                    args = prov.prov_of(cfn).call_args(cbb)
                    if v[1] > len(args) or not _int_derived(prov.strip(args[v[1] - 1], names=prov.TRANSPARENT_NAMES - {'from', 'into'})):
                        ok = False
        if not ok:
            return False, 'start value `%s` is not an integer conversion' % prov.show(v, maxdepth=3)
    return True, 'start value converted from an integer (finite)'


def check_loops(ctx, F, rule, judge=True):
    n_float = 0
    results = []
    import inline
    fns = list(F.fns)
    # a float loop moved into a helper that receives its bound as a parameter is judged in the caller's context as well
    seen_paths = {f.path for f in fns}
    for fn in fns:
        for L in fl.analyse(fn):
            if not L.float_only:
                continue
            n_float += 1
            ctx.saw(fn)
            writes = fl.place_writes(fn, L.body)
            exits = ' ; '.join(fl.show_root(r) for _, r in L.exits)
            if not L.accs:
                results.append((fn, L, 'note', 'float-only exit without loop-variant operand: %s' % exits))
                continue
            for a in L.accs:
                kinds = [fl.classify_update(rr, a['place'], writes) for _, _, _, rr in a['updates']]
                # updates that merely copy acc±step computed into a temporary count as additive
                names = fn.local_names()
                m = re.fullmatch(r'_(\d+)', a['place'])
                label = names.get(int(m.group(1)), a['place']) if m else a['place'].split('.')[-1]
                key = '%s:%s' % (fn.path, label)
                ks = {k[0] for k in kinds}
                where = fn.where(L.line)
                if ks == {'additive'}:
                    if a['ty'] == 'f32':
                        if fl.progress_guard(L, a['place']):
                            results.append((fn, L, 'ok', key, 'f32 accumulator `%s += step` with progress guard (exit when acc+step <= acc): %s' % (label, exits), where))
                        else:
                            results.append((fn, L, 'violation', key,
                                            'f32 accumulator loop `while %s` advances `%s` by a loop-invariant step with no progress '
                                            'guard and no integer bound: once |%s| >= 2^24*step the addition is absorbed and the loop '
                                            'never terminates (times reach 2^31 ms)' % (exits, label, label), where))
                    else:
                        results.append((fn, L, 'ok', key, 'f64 accumulator `%s += step` (exit %s): accepted under the magnitude bound '
                                        '|t| <= 2^31/0.01 where ulp <= 3.1e-5' % (label, exits), where))
                elif ks == {'mult'}:
                    good, why = init_is_finite(fn, L, a['place'])
                    if good:
                        results.append((fn, L, 'ok', key, 'shrink loop `%s` on %s: %s' % (fl.show_root(a['updates'][0][3]), label, why), where))
                    else:
                        results.append((fn, L, 'violation', key, 'shrink loop `while %s` on `%s`: %s — an infinite start value never '
                                        'shrinks below the bound' % (exits, label, why), where))
                else:
                    results.append((fn, L, 'note', key, 'float loop with unclassified update(s) %s (exit %s): not judged' % (
                        [fl.show_root(k[-1]) if k[0] == 'other' else k[0] for k in kinds], exits), where))
    return n_float, results


def run(ctx):
    F = ctx.facts('default')
    fx = ctx.fixture()
    n, results = check_loops(ctx, F, 'C05-R1')
    for r in results:
        if r[2] == 'ok':
            ctx.ok('C05-R1', r[3], r[4], r[5])
        elif r[2] == 'violation':
            ctx.violation('C05-R1', r[3], r[4], r[5])
        else:
            ctx.note('C05-R1 %s' % (r[3:],))
    total_loops = sum(len(fn.cfg.natural_loops()) for fn in F.fns)
    ctx.ok('C05-R1', 'scan', '%d natural loops in %d bodies; %d have only floating-point exit tests' % (total_loops, len(F.fns), n))
    ctx.floor('C05-R1', n, 5, 'float-only loops (6 source loops, the skill section loop instantiated per skill)')
    # controls
    _, fr = check_loops(ctx, fx, 'C05-R1')
    verdicts = {r[0].path: r[2] for r in fr}
    ctx.control('C05-R1', verdicts.get('c05::f32_stall') == 'violation', 'f32 accumulator without progress guard')
    ctx.control('C05-R1', verdicts.get('c05::f32_guarded') == 'ok', 'negative control: f32 accumulator with progress guard accepted')
    ctx.control('C05-R1', verdicts.get('c05::f64_acc') == 'ok', 'negative control: f64 accumulator accepted')
    ctx.control('C05-R1', verdicts.get('c05::shrink_unknown') == 'violation', 'shrink loop from unknown float')
    ctx.control('C05-R1', verdicts.get('c05::shrink_int') == 'ok', 'negative control: shrink loop from integer accepted')

    nsites, nw = guardrule.check(ctx, F, 'C05-R2')
    ctx.floor('C05-R2', nw, 13, 'RefCount::get_mut sites')
    ctx.floor('C05-R2', nsites, 90, 'RefCount::get/get_mut sites')
    guardrule.controls(ctx, fx, 'C05-R2')
    r3_free_column(ctx, F)
    ctx.assume('all times come through the decoder bound 2^31 and a clock rate >= 0.01, so |t| <= 2.2e11 (f64 ulp <= 3.1e-5); '
               'every f64 step in the accepted loops is >= 1e-4')
    ctx.assume('RefCell permits nested shared borrows (read under read)')
    ctx.not_decided('integer overflow / truncation, usize underflow, empty windows, assert!(has_valid_column) and the PRNG column '
                    'search, iteration budgets, memory budgets')


# ---- R3: precondition of the asserted column search
def r3_free_column(ctx, F):
    import arms
    n = 0
    for fn in F.fns:
        if 'mania::convert::pattern_generator' not in fn.path:
            continue
        P = None
        for bi, t in fn.calls():
            if t['func'].get('name') != 'find_available_column' or not t['func'].get('local'):
                continue
            P = P or prov.prov_of(fn)
            args = P.call_args(bi)
            # (self, column, lower?, [upper?], patterns): whole range = every Option argument is None; patterns = the last argument
            opts = [prov.strip(a, names=set()) for a in args[2:-1]]
            if not opts or not all(o[0] == 'agg' and o[3] == 'None' for o in opts):
                continue
            pats = prov.strip(args[-1], names=set())
            if pats[0] != 'agg' or pats[1] != 'array':
                continue
            items = list(pats[-1].values()) if isinstance(pats[-1], dict) else list(pats[-1])
            if len(items) != 1:
                continue
            el = prov.strip(items[0], through_mut=True)
            while el[0] == 'mut':
                el = el[1]
            if not (el[0] == 'field' and el[2] == 'prev_pattern'):
                continue
            ctx.saw(fn)
            n += 1
            ok = False
            for c, lab in arms.bool_facts(fn, bi):
                c = prov.strip(c, names={'likely', 'unlikely'})
                if c[0] != 'binop':
                    continue
                l_is = any(x[0] == 'call' and x[1].get('name') == 'column_with_objs' for x in prov.walk(c[2], limit=20))
                r_is = any(x[0] == 'call' and x[1].get('name') == 'column_with_objs' for x in prov.walk(c[3], limit=20))
                tot_l = any(x[0] == 'field' and x[2] == 'total_columns' for x in prov.walk(c[2], limit=20))
                tot_r = any(x[0] == 'field' and x[2] == 'total_columns' for x in prov.walk(c[3], limit=20))
                if (c[1] == 'Lt' and l_is and tot_r and lab == 'true') or (c[1] == 'Gt' and tot_l and r_is and lab == 'true') or \
                        (c[1] == 'Ge' and l_is and tot_r and lab == 'false') or (c[1] == 'Le' and tot_l and r_is and lab == 'false') or \
                        (c[1] == 'Ne' and ((l_is and tot_r) or (tot_l and r_is)) and lab == 'true') or (c[1] == 'Eq' and ((l_is and tot_r) or (tot_l and r_is)) and lab == 'false'):
                    ok = True
            ctx.require(ok, 'C05-R3', '%s:free-column' % fn.path.split('pattern_generator::')[-1],
                        '%s: find_available_column(.., &[prev_pattern]) only where prev_pattern.column_with_objs() < total_columns is established' % fn.path, fn.where(t.get('ln')),
                        bad='%s searches for a column outside prev_pattern over the whole column range without `prev_pattern.column_with_objs() < total_columns` being '
                            'established on that path: when the previous pattern occupies every column (low key counts) the search has no valid column and '
                            '`assert!(has_valid_column)` panics during conversion' % fn.path)
    ctx.floor('C05-R3', n, 1, 'whole-range column searches excluding only prev_pattern (3 today; one if the prologues share a helper)')
