"""C02 — gradual difficulty equals prefix difficulty: the one structural clause (same converted and
preprocessed map in the gradual constructor and the one-shot calculation)."""
from props import C07
import prov

EXPLANATION = (
    "Decides four structural clauses only. R1: for each of the four modes the gradual constructor "
    "(IGameMode::gradual_difficulty) and the one-shot calculation (IGameMode::difficulty) start from the same "
    "map — both use their map parameter solely as receiver of convert_ref(own mode, difficulty.get_mods()) and "
    "both invoke the same set of &mut Beatmap preprocessors on the converted map under the same guards (followed "
    "through helpers). A gradual constructor that forgets a preprocessor passes the suite (its tests use no mods) "
    "and breaks the property for every play with that mod. R2: the set of Difficulty::get_* settings reachable from the "
    "one-shot calculation equals the set reachable from the gradual calculator's methods (passed_objects aside): a setting "
    "consulted by only one side (e.g. the clock rate) makes the two disagree for every non-default value. R3: the gradual count state (mania NoteState, osu gradual "
    "attribute counters) is written only by its per-object delta function or reset to zero, so no object is counted by a second formula. R4: no integer truncation is fed by a value that was stored divided by the "
    "clock rate and multiplied by it again (inexact round trip; the one-shot path truncates the unscaled value). R5: a mode whose "
    "skills read a FORWARD neighbour of the current difficulty object (index = idx + k) builds the one-shot difficulty objects from the whole "
    "object list, as the gradual constructor does, and not from a list cut at passed_objects (the last note of a prefix would lose its successor "
    "in one path only). R6 (catch): the ObjectCountBuilder handed into the shared conversion — Regular{take} by the one-shot path, Gradual by the gradual one — is write-only there: its variant and fields are read only inside its own impl and its &self/&mut self methods return nothing, so the conversion (whose output is sorted by time only afterwards) cannot depend on the counting mode. R7 (catch): a counter kept under the same name by ObjectCount and GradualObjectCount is at least as wide in the gradual count and updated by the same expression in both arms. R8: the one-shot calculation and the gradual next() feed each skill type under the same private conditions (container forwarders inlined, closures included). R9: every numeric argument that the one-shot entry (calculate inlined) and the gradual constructor hand to the same callee of the mode's difficulty module is the same expression skeleton over (difficulty, MAP) — helpers and set-up structs read through, every way of naming the converted map collapsed. Equality of the values per prefix (nth arithmetic, "
    "count deltas) is numeric and NOT decided.")


def run(ctx):
    F = ctx.facts('default')
    C07.r2_r4(ctx, F, r2='C02-R1a', r4='C02-R1b', methods=['difficulty', 'gradual_difficulty'])
    # ---- R2: both paths consult the same Difficulty settings
    import entries
    from common import MODES, CAP
    for mode in MODES:
        one = entries.difficulty_getters(F, ['%s::difficulty::difficulty' % mode])
        gadt = '%s::difficulty::gradual::%sGradualDifficulty' % (mode, CAP[mode])
        groots = [f.path for f in F.fns if f.self_adt == gadt]
        grad = entries.difficulty_getters(F, groots)
        a = set(one) - {'get_passed_objects'}
        b = set(grad) - {'get_passed_objects'}
        if not groots or not one:
            ctx.violation('C02-R2', 'anchor-missing:' + mode, 'one-shot / gradual entry of %s not found' % mode)
            continue
        for g in sorted(a - b):
            ctx.violation('C02-R2', '%s:-%s' % (mode, g), 'the one-shot %s difficulty consults Difficulty::%s (in %s) but no method of %s does: that setting '
                          'influences the one-shot result and not the gradual one' % (mode, g, sorted(set(one[g]))[:2], gadt.split('::')[-1]))
        for g in sorted(b - a):
            ctx.violation('C02-R2', '%s:+%s' % (mode, g), '%s consults Difficulty::%s (in %s) but the one-shot calculation never does' % (
                gadt.split('::')[-1], g, sorted(set(grad[g]))[:2]))
        if a == b:
            ctx.ok('C02-R2', mode + ':settings', 'one-shot and gradual %s paths consult the same Difficulty settings: %s (passed_objects aside)' % (mode, sorted(a)))
    r3_counters(ctx, F)
    r4_roundtrip(ctx, F)
    r5_lookahead(ctx, F)
    r6_count_mode_write_only(ctx, F)
    r7_sibling_counters(ctx, F)
    r8_same_feeding(ctx, F)
    r9_replicated_setup(ctx, F)
    ctx.not_decided('equality of the i-th gradual value with the one-shot value for passed_objects(i); number of values; '
                    'final value equals full calculation (arithmetic over runtime values)')


# ---- R3: gradual count state changes only through its per-object delta function (or is reset to zero)
COUNTERS = [
    # (adt, fields, scope prefix of functions considered, label)
    ('mania::difficulty::gradual::NoteState', ('curr_combo', 'n_hold_notes'), '', 'mania NoteState'),
    ('osu::attributes::OsuDifficultyAttributes', ('n_circles', 'n_sliders', 'n_spinners', 'n_large_ticks', 'max_combo'),
     'osu::difficulty::gradual', 'osu gradual attribute counters'),
]


def r3_counters(ctx, F):
    import fieldidx
    import prov
    for adt, fields, scope, label in COUNTERS:
        if adt not in F.adts:
            ctx.violation('C02-R3', 'anchor-missing:' + label, 'type %s not found' % adt)
            continue
        writes = []
        for fld in fields:
            for a in fieldidx.accesses(F, adt, fld):
                fn = a['fn']
                if a['kind'] not in ('assign', 'agg-init'):
                    continue
                if scope and not (fn.path.startswith(scope) or fn.path.startswith('<' + scope)):
                    continue
                if fn.impl_trait in ('std::default::Default', 'std::clone::Clone'):
                    continue
                st = a.get('stmt')
                if st is None:
                    continue
                P = prov.prov_of(fn)
                idx = fn.blocks[a['bb']]['s'].index(st)
                if a['kind'] == 'assign':
                    v = P.rvalue(st['rv'], a['bb'], idx)
                else:
                    rv = st['rv']
                    v = P.operand(rv['ops'][rv['fields'].index(fld)], a['bb'], idx)
                # self-referential increment?
                incr = any(n[0] == 'binop' and n[1] in ('Add', 'AddWithOverflow') for n in prov.walk(v, limit=60)) and \
                    any(n[0] == 'field' and n[2] == fld for n in prov.walk(v, limit=60))
                writes.append((fn, fld, v, incr, a['line']))
        delta_fns = sorted({w[0].path for w in writes if w[3]})
        if not delta_fns:
            # no incremental counting at all: accepted when every write copies the one-shot calculation's own counters
            # (the state is then a table of one-shot counts, equal by construction)
            from_oneshot = bool(writes) and all(
                (prov.strip(w[2], names=set())[0] == 'call' and (prov.strip(w[2], names=set())[1].get('impl_adt') or '').endswith('ObjectParams')) or
                (prov.strip(w[2])[0] == 'const' and prov.strip(w[2])[1].get('val') in ('0', 'false')) for w in writes)
            ctx.require(from_oneshot, 'C02-R3', label + ':table', '%s is filled from the one-shot counters (ObjectParams) only: %d write(s)' % (label, len(writes)),
                        bad='no function increments the %s per object and it is not filled from the one-shot counters either' % label)
            continue
        bad = 0
        for fn, fld, v, incr, line in writes:
            if incr:
                continue
            sv = prov.strip(v)
            zero = sv[0] == 'const' and sv[1].get('val') in ('0', 'false')
            if not zero:
                bad += 1
                ctx.violation('C02-R3', '%s:%s:%s' % (label, fn.path, fld), '%s writes %s.%s = `%s` directly instead of going through the per-object delta function(s) %s: the '
                              'gradual count for that object can differ from what the one-shot calculation counts' % (fn.path, adt.split('::')[-1], fld, prov.show(sv, maxdepth=4), delta_fns),
                              fn.where(line))
        if not bad:
            ctx.ok('C02-R3', label, '%s: %d write(s); all non-reset writes are increments inside %s' % (label, len(writes), delta_fns))


# ---- R4: no clock-rate scale round trip ((x / rate) * rate) feeds an integer truncation in the gradual path
def r4_roundtrip(ctx, F):
    """A value stored divided by the clock rate and multiplied by it again is not the original value in floating point;
    truncating it to an integer turns the 1-ulp error into an off-by-one count that the one-shot calculation (which
    truncates the unscaled value) does not make."""
    import fieldidx
    import prov
    from common import as_param_path

    def rate_like(fn, v):
        v = prov.strip(v)
        if v[0] == 'call' and v[1].get('name') == 'get_clock_rate':
            return True
        if v[0] == 'param' and 'clock_rate' in fn.arg_name(v[1]):
            return True
        pp = as_param_path(v)
        return bool(pp and pp[1] and 'clock_rate' in pp[1][-1])

    # fields whose every write is  X / <clock rate>
    scaled = set()
    for a in F.adts.values():
        if '::difficulty::' not in a['path']:
            continue
        for var in a['variants']:
            for f in var['fields']:
                if f['ty']['s'] != 'f64':
                    continue
                ws = [x for x in fieldidx.accesses(F, a['path'], f['name']) if x['kind'] in ('assign', 'agg-init')
                      and x['fn'].impl_trait not in ('std::clone::Clone', 'std::default::Default') and x.get('stmt') is not None]
                if not ws:
                    continue
                ok = True
                for x in ws:
                    fn, st = x['fn'], x['stmt']
                    P = prov.prov_of(fn)
                    idx = fn.blocks[x['bb']]['s'].index(st)
                    v = P.rvalue(st['rv'], x['bb'], idx) if x['kind'] == 'assign' else \
                        P.operand(st['rv']['ops'][st['rv']['fields'].index(f['name'])], x['bb'], idx)
                    v = prov.strip(v)
                    if not (v[0] == 'binop' and v[1] == 'Div' and rate_like(fn, v[3])):
                        ok = False
                if ok:
                    scaled.add((a['path'], f['name']))
    ctx.floor('C02-R4', len(scaled), 8, 'difficulty-object fields stored divided by the clock rate')
    ncasts = 0
    hits = set()
    for fn in F.fns:
        P = None
        for bi, si, s in fn.assigns():
            rv = s['rv']
            if rv['k'] != 'cast' or rv['ck'] != 'FloatToInt':
                continue
            ncasts += 1
            P = P or prov.prov_of(fn)
            v = P.operand(rv['op'], bi, si)
            cands = [(fn, v)]
            for cfn, cbb, ct in F.callers().get(fn.path, []):
                args = prov.prov_of(cfn).call_args(cbb)
                cands.append((cfn, prov.subst(v, {i + 1: a for i, a in enumerate(args)})))
            for cfn, vv in cands:
                for n in prov.walk(vv, limit=400):
                    if n[0] == 'binop' and n[1] == 'Mul':
                        for a, b in ((n[2], n[3]), (n[3], n[2])):
                            if rate_like(cfn, b):
                                pa = as_param_path(a)
                                if pa and pa[1] and pa[0] <= len(cfn.j.get('inputs', [])):
                                    ty = cfn.j['inputs'][pa[0] - 1]
                                    adt = ty.get('to_adt') or ty.get('adt')
                                    if (adt, pa[1][-1]) in scaled:
                                        hits.add((fn.path, adt, pa[1][-1], fn.where(s['ln'])))
    for path, adt, fld, where in sorted(hits):
        ctx.violation('C02-R4', '%s:%s.%s' % (path, adt.split('::')[-1], fld),
                      '%s truncates to an integer a value computed from %s.%s * clock_rate, although that field is stored as (unscaled / clock_rate): the round trip is '
                      'inexact, so the gradual count can be one less than the one-shot count (which truncates the unscaled value) for clock rates != 1' % (path, adt.split('::')[-1], fld), where)
    if not hits:
        ctx.ok('C02-R4', 'scan', '%d float-to-int truncations (with callers substituted one level): none takes a (field / rate) * rate round trip of the %d clock-rate-scaled fields'
               % (ncasts, len(scaled)))


# ---- R5: look-ahead vs truncated object list
TRUNCATORS = {'take', 'take_while', 'skip', 'skip_while', 'step_by', 'truncate', 'split_at', 'get', 'index'}


def forward_access_sites(F):
    """functions that access a collection at (something's idx) + k"""
    import prov
    out = {}
    for fn in F.fns:
        P = None
        for bi, t in fn.calls():
            if t['func'].get('name') not in ('get', 'index', 'get_unchecked'):
                continue
            if P is None:
                P = prov.prov_of(fn)
            args = P.call_args(bi)
            if len(args) < 2:
                continue
            for n in prov.walk(args[1], limit=200):
                if n[0] == 'binop' and n[1] in ('Add', 'AddWithOverflow', 'AddUnchecked'):
                    idxish = False
                    for m in prov.walk(n, limit=120):
                        if m[0] == 'field' and str(m[2]).endswith('idx'):
                            idxish = True
                        if m[0] == 'call' and m[1].get('name') == 'idx':
                            idxish = True
                    if idxish:
                        out.setdefault(fn.path, fn)
    return out


def r5_lookahead(ctx, F):
    import prov
    import callgraph
    from common import MODES
    sites = forward_access_sites(F)
    ctx.floor('C02-R5', len(sites), 2, 'forward-neighbour accessors (IDifficultyObject::next, TaikoDifficultyObjects::next_note)')
    cg = callgraph.CallGraph(F)
    for mode in MODES:
        path = '%s::difficulty::DifficultyValues::calculate' % mode
        f = next((x for x in F.fns if x.path == path), None)
        if f is None:
            ctx.violation('C02-R5', 'anchor-missing:%s' % mode, '%s not found' % path)
            continue
        ctx.saw(f)
        reach = cg.reachable_from([path])
        # the call graph resolves calls on generic receivers to every local impl; keep to the mode's own functions and the
        # accessors they call directly
        own = [p for p in reach if p.lstrip('<&').startswith(mode + '::')]
        ahead = sorted({p for p in own if p in sites} | {q for p in own for q in cg.succ.get(p, ()) if q in sites})
        # the construction may sit in a private preparation step shared with the gradual constructor (`DifficultyValues::prepare`): read through it
        import inline
        _mod = path.rsplit('::', 2)[0]
        _loc = lambda h, _mod=_mod: not h.impl_trait and h.kind != 'Closure' and h.path.startswith(_mod) and h.name not in ('create_difficulty_objects', 'calculate', 'new')
        fv = inline.inlined(F, f, depth=2, force=_loc, stop=lambda h: not _loc(h))
        P = prov.prov_of(fv)
        cuts, margins, ncalls = [], [], 0
        for bi, t in fv.calls():
            if t['func'].get('name') != 'create_difficulty_objects':
                continue
            ncalls += 1
            for a in P.call_args(bi):
                if a[0] in ('param', 'const'):
                    continue
                for n in prov.walk(a, limit=1500):
                    if n[0] == 'call' and n[1].get('name') in TRUNCATORS and len(n[2]) >= 2:
                        cnt = n[2][1]
                        inner = list(prov.walk(cnt, limit=300))
                        if any(m[0] == 'call' and m[1].get('name') == 'get_passed_objects' for m in inner):
                            (margins if any(m[0] == 'binop' and m[1] in ('Add', 'AddWithOverflow', 'AddUnchecked') for m in inner) else cuts).append(n[1].get('name'))
        if ncalls == 0:
            ctx.violation('C02-R5', 'anchor-missing:%s:create_difficulty_objects' % mode, '%s no longer calls create_difficulty_objects' % path)
            continue
        key = '%s:lookahead' % mode
        if not ahead:
            ctx.ok('C02-R5', key, 'no forward-neighbour access is reachable from %s: cutting the object list at passed_objects (%s) cannot be observed' % (path, cuts or 'not done'), f.where())
        elif cuts:
            ctx.violation('C02-R5', key, '%s builds its difficulty objects from an object list cut at passed_objects (%s) although %s read(s) the next '
                          'difficulty object: the last object of a prefix has a successor in the gradual calculator (which builds the whole list) and none here, '
                          'so the i-th gradual value differs from the one-shot value with passed_objects(i)' % (path, ', '.join(cuts), ', '.join(ahead[:3])), f.where())
        elif margins:
            ctx.assumed('C02-R5', key, '%s cuts the object list at passed_objects plus a margin (%s); whether the margin covers the look-ahead depth of %s is not decided' % (
                path, margins, ahead[:3]), f.where())
        else:
            ctx.ok('C02-R5', key, '%s reaches forward-neighbour accessors (%s) and builds its difficulty objects from the whole object list' % (path, ', '.join(x.split('::')[-1] for x in ahead)), f.where())


# ---- R6 / R7: catch — the counting mode is the one input of the shared conversion that differs between the two paths
OCB = 'catch::attributes::ObjectCountBuilder'
REG, GRAD = 'catch::attributes::ObjectCount', 'catch::attributes::GradualObjectCount'
WIDTH = {'bool': 1, 'u8': 8, 'u16': 16, 'u32': 32, 'u64': 64, 'usize': 64, 'u128': 128, 'i8': 8, 'i16': 16, 'i32': 32, 'i64': 64, 'isize': 64}


def r6_count_mode_write_only(ctx, F):
    """The one-shot path hands `Regular { take }` and the gradual path `Gradual` into the same conversion functions. If that conversion can
    *observe* the counting mode (or how much of `take` is left), the two paths convert different object lists — and the list is sorted only
    afterwards.  So: the builder's variant and fields are read only inside its own impl, and its `&self` / `&mut self` methods return nothing."""
    import fieldidx
    a = F.adts.get(OCB)
    if a is None:
        ctx.violation('C02-R6', 'anchor-missing:ObjectCountBuilder', 'catch::attributes::ObjectCountBuilder not found')
        return
    own = [f for f in F.fns if f.self_adt == OCB or (f.kind == 'Closure' and f.path.startswith(OCB + '::'))]
    ownp = {f.path for f in own}
    n = 0
    for v in a['variants']:
        for fl in v['fields']:
            for acc in fieldidx.accesses(F, OCB, fl['name']):
                if acc['fn'].path in ownp or acc['kind'] == 'agg-init':
                    continue
                n += 1
                ctx.violation('C02-R6', 'field:%s:%s' % (fl['name'], acc['fn'].path), '%s reads/writes ObjectCountBuilder::%s.%s directly: the shared conversion may not depend on the counting mode' % (
                    acc['fn'].path, v['name'], fl['name']), acc['fn'].where(acc['line']))
    for fn in F.fns:
        if fn.path in ownp:
            continue
        for bi, si, s in fn.assigns():
            rv = s['rv']
            if rv['k'] == 'discr':
                ty = (fn.locals[rv['p']['l']].get('s') or '')
                if 'ObjectCountBuilder' in ty and all(e == '*' or (isinstance(e, dict) and e.get('k') == 'deref') for e in rv['p'].get('proj', [])):
                    ctx.violation('C02-R6', 'variant:%s' % fn.path, '%s matches on the variant of the ObjectCountBuilder: the conversion shared by the one-shot and the gradual path '
                                  'behaves differently for the two' % fn.path, fn.where(s.get('ln')))
    callers = F.callers()
    observers = []
    for m in own:
        if m.kind != 'AssocFn' or not m.j.get('inputs'):
            continue
        recv = (m.j['inputs'][0].get('s') or '')
        out = (m.j.get('output') or {}).get('s') or '()'
        if recv.startswith('&') and out not in ('()', ''):
            observers.append(m)
            for fn, bi, t in callers.get(m.path, []):
                if fn.path in ownp:
                    continue
                ctx.violation('C02-R6', 'observer:%s:%s' % (m.name, fn.path), '%s asks ObjectCountBuilder::%s() (-> %s): whatever it decides with the answer differs between the one-shot path '
                              '(Regular, limited by passed_objects) and the gradual path (Gradual) — e.g. objects left unconverted before the list is sorted by time' % (
                                  fn.path, m.name, out), fn.where(t.get('ln')))
    recorders = [m for m in own if m.kind == 'AssocFn' and m.name.startswith('record_')]
    ctx.ok('C02-R6', 'scan', 'ObjectCountBuilder: %d recorder(s) returning (), %d observer method(s) with callers outside the impl checked, no outside read of variant / fields' % (
        len(recorders), len(observers)))
    ctx.floor('C02-R6', len(recorders), 1, 'record_* methods of the catch count builder')


def r7_sibling_counters(ctx, F):
    """a counter kept under the same name by the regular and the gradual count is as wide in the gradual one and updated by the same expression"""
    import fieldidx
    import re as _re
    ra, ga = F.adts.get(REG), F.adts.get(GRAD)
    if ra is None or ga is None:
        ctx.violation('C02-R7', 'anchor-missing:counts', 'ObjectCount / GradualObjectCount not found')
        return
    rf = {f['name']: f['ty']['s'] for f in ra['variants'][0]['fields']}
    gf = {f['name']: f['ty']['s'] for f in ga['variants'][0]['fields']}
    shared = sorted(set(rf) & set(gf))
    gloc = '%s:%s' % (ga['loc'][0], ga['loc'][1])
    ctx.floor('C02-R7', len(shared), 1, 'counters kept by both the regular and the gradual catch count')
    for name in shared:
        wr, wg = WIDTH.get(rf[name]), WIDTH.get(gf[name])
        ctx.require(wr is not None and wg is not None and wg >= wr, 'C02-R7', 'width:' + name, '`%s`: %s (regular) / %s (gradual)' % (name, rf[name], gf[name]), gloc,
                    bad='the gradual count keeps `%s` as %s while the regular count uses %s: a section with more than %s of them is counted differently by the gradual calculator' % (
                        name, gf[name], rf[name], (2 ** wg - 1) if wg else '?'))

        def updates(adt):
            out = set()
            for acc in fieldidx.accesses(F, adt, name):
                if acc['kind'] != 'assign' or acc['fn'].self_adt != OCB:
                    continue
                fn = acc['fn']
                s = acc['stmt']
                v = prov.prov_of(fn).rvalue(s['rv'], acc['bb'], fn.blocks[acc['bb']]['s'].index(s))
                txt = prov.show(v, maxdepth=8)
                txt = _re.sub(r'\b(Regular|Gradual)\b', 'V', txt)
                txt = _re.sub(r'\bas (u8|u16|u32|u64|usize)\b', 'as uN', txt)
                out.add((fn.name, txt))
            return out
        ur, ug = updates(REG), updates(GRAD)
        ctx.require(bool(ur) and ur == ug, 'C02-R7', 'update:' + name, '`%s` is updated alike in both arms: %s' % (name, sorted(ur)), gloc,
                    bad='`%s` is updated by %s in the regular arm but by %s in the gradual arm' % (name, sorted(ur), sorted(ug)))


# ---- R8: the one-shot calculation and the gradual `next()` feed each skill under the same conditions (seed C03-7)
def feeds_by_type(F, fn):
    """{skill process callee: sorted list of frozenset(private guard facts)} of fn with container forwarders inlined; private = not shared by every feed of fn"""
    import arms
    import inline
    from props.C15 import _forwards_process
    bodies = [inline.inlined(F, fn, depth=2, force=_forwards_process) or fn]
    # a feed written as `objects.iter().for_each(|h| skills.process(h, ..))` sits in a closure body of fn
    for c_ in F.fns:
        if c_.path.startswith(fn.path + '::{closure'):
            bodies.append(inline.inlined(F, c_, depth=2, force=_forwards_process) or c_)
    sites = []
    for g in bodies:
      for bi, t in g.calls():
          if t['func'].get('name') != 'process' or not t['args']:
              continue
          cp = t['func'].get('path') or ''
          cal = F.fn(cp)
          if (cal is not None and _forwards_process(cal)) or ('::skills::' not in cp and 'StrainSkill' not in cp):
              continue
          facts = set()
          import re as _re
          # the container the fed skill lives in (`self.skills`, a local `skills`, `OsuSkills::new(..)`): conditions on it are compared modulo how each path names it
          P = prov.prov_of(g)
          rv_ = prov.strip(P.call_args(bi)[0], names=set())
          while rv_[0] in ('ref', 'mut', 'deref') and len(rv_) > 1 and isinstance(rv_[1], tuple):
              rv_ = prov.strip(rv_[1], names=set())
          container = prov.show(rv_[1], maxdepth=12) if rv_[0] == 'field' else None
          for c, lab in arms.bool_facts(g, bi):
              txt = prov.show(prov.strip(c, names={'likely', 'unlikely'}), maxdepth=12)
              if container and container in txt:
                  txt = txt.replace(container, '$skills')
              facts.add('%s = %s' % (_re.sub(r'param#\d+|\(\*?_\d+\)', '_', txt), lab))
          sites.append((cp, facts))
    if not sites:
        return None
    common = set.intersection(*[f_ for _, f_ in sites])
    out = {}
    for cp, f_ in sites:
        out.setdefault(cp, []).append(tuple(sorted(f_ - common)))
    return {k: sorted(v) for k, v in out.items()}


def r8_same_feeding(ctx, F, rule='C02-R8'):
    """The i-th gradual value equals the one-shot value for the first i objects only if both feed the same skills with the same objects.  Which skills are fed, and under
    which conditions private to a skill (conditions shared by all feeds of a function — the loop bound, the first-object case — are factored out), must agree between
    `DifficultyValues::calculate` and the gradual `next()`, container `process` forwarders inlined.  (next vs the bulk step of nth is C15-R8.)"""
    from common import MODES, CAP
    n = 0
    for mode in MODES:
        one = F.fn('%s::difficulty::DifficultyValues::calculate' % mode)
        nxt = F.method('%s::difficulty::gradual::%sGradualDifficulty' % (mode, CAP[mode]), 'next', trait='std::iter::Iterator')
        if one is None or nxt is None:
            ctx.violation(rule, 'anchor-missing:' + mode, 'DifficultyValues::calculate / gradual next() of %s not found' % mode)
            continue
        ctx.saw(one)
        ctx.saw(nxt)
        a, b = feeds_by_type(F, one), feeds_by_type(F, nxt)
        if a is None or b is None:
            ctx.violation(rule, '%s:feeds-shape' % mode, '%s feeds no skill directly or through a container forwarder' % (one.path if a is None else nxt.path), (one if a is None else nxt).where())
            continue
        n += len(a)
        diff = sorted(k for k in set(a) | set(b) if a.get(k) != b.get(k))
        short = lambda k: k.split(' for ')[-1].split('>::')[0].split('::')[-1] if ' for ' in k else k.split('::')[-2]     # noqa: E731
        ctx.require(not diff, rule, '%s:same-feeding' % mode, 'one-shot calculate and gradual next() of %s feed the same %d skill(s) under the same conditions' % (mode, len(a)), nxt.where(),
                    bad='%s: the skill(s) %s are fed under different conditions by the one-shot calculation (%s) and by the gradual next() (%s): the gradual values stop being '
                        'the values of the prefix' % (mode, ', '.join(short(k) for k in diff), '; '.join(str(a.get(k)) for k in diff)[:200], '; '.join(str(b.get(k)) for k in diff)[:200]))
    ctx.floor(rule, n, 8, 'skill types fed by the one-shot calculations (4 + 4 + 1 + 1 today)')


# ---- R9: the numbers both set-ups compute are computed by the same expression (seeds C02-8 / C03-8: the catcher-width reduction capped in one replica only)
def _mapish(fn, v, d=0):
    """v IS the (converted, possibly preprocessed) map — however this function got hold of it"""
    v = prov.strip(v, names=set())
    if d > 14:
        return False
    k = v[0]
    if k == 'param':
        ins = fn.j.get('inputs') or []
        return 1 <= v[1] <= len(ins) and (ins[v[1] - 1].get('to_adt') or ins[v[1] - 1].get('adt') or '').endswith('beatmap::Beatmap')
    if k == 'mut':
        return _mapish(fn, v[1], d + 1)
    if k == 'call':
        name = v[1].get('name')
        if name == 'convert_ref':
            return True
        if name in ('deref', 'deref_mut', 'to_mut', 'borrow', 'as_ref', 'into_owned', 'clone', 'branch') and v[2]:
            return _mapish(fn, v[2][0], d + 1)
        if v[1].get('local') and 'Beatmap' in str(v[1].get('output') or v[1].get('path') or '') and v[2]:
            return any(_mapish(fn, a, d + 1) for a in v[2])
        return False
    if k == 'field' and str(v[2]) == '0':
        inner = prov.strip(v[1], names=set())
        if inner[0] == 'variant' and inner[2] in ('Continue', 'Ok', 'Some', 'Borrowed', 'Owned'):
            return _mapish(fn, inner[1], d + 1)
        return False
    if k == 'variant':
        return _mapish(fn, v[1], d + 1)
    if k == 'agg' and len(v) > 4 and v[3] in ('Ok', 'Some', 'Continue', 'Borrowed', 'Owned') and isinstance(v[4], dict) and '0' in v[4]:
        return _mapish(fn, v[4]['0'], d + 1)
    if k == 'phi':
        def _failure(a):
            a = prov.strip(a, names=set())
            return (a[0] == 'call' and a[1].get('name') == 'from_residual') or (a[0] == 'agg' and len(a) > 3 and a[3] in ('Err', 'Break', 'None'))
        alts = [a for a in v[1] if not _failure(a)]
        return bool(alts) and all(_mapish(fn, a, d + 1) for a in alts)
    return False


def _skel(fn, v, d=0):
    """the expression with every way of naming the map collapsed to MAP and parameters named by their type"""
    v = prov.strip(v, names=set())
    if d > 40:
        return '..'
    if _mapish(fn, v):
        return 'MAP'
    k = v[0]
    if k == 'param':
        ins = fn.j.get('inputs') or []
        if 1 <= v[1] <= len(ins):
            return '<%s>' % str(ins[v[1] - 1].get('to_adt') or ins[v[1] - 1].get('adt') or ins[v[1] - 1].get('s')).split('::')[-1]
        return 'param'
    if k == 'mut':
        return _skel(fn, v[1], d + 1)
    if k == 'field':
        return '%s.%s' % (_skel(fn, v[1], d + 1), v[2])
    if k == 'variant':
        return '(%s as %s)' % (_skel(fn, v[1], d + 1), v[2])
    if k == 'binop':
        return '%s(%s, %s)' % (v[1], _skel(fn, v[2], d + 1), _skel(fn, v[3], d + 1))
    if k == 'cast':
        return 'cast(%s)' % _skel(fn, v[2], d + 1)
    if k == 'call':
        return '%s(%s)' % ((v[1].get('path') or v[1].get('name') or '?'), ', '.join(_skel(fn, a, d + 1) for a in v[2]))
    if k == 'phi':
        return 'phi(%s)' % ' | '.join(sorted(set(_skel(fn, a, d + 1) for a in v[1])))
    return prov.show(v, maxdepth=6)


def _norm_arg(fn, v, F=None):
    if F is not None:
        # helpers, set-up structs and second-step constructors on the way are read through: what is compared is the expression over (difficulty, map)
        import combin
        v = prov.inline_all(F, v, depth=3, _seen=(fn.path,), only=lambda f_: f_.get('local') and not f_.get('trait') and
                            f_.get('name') not in ('convert_ref', 'attributes', 'difficulty', 'build', 'hit_windows', 'get_clock_rate', 'get_mods', 'get_passed_objects'))
        v = combin.expand(F, v)
    return _skel(fn, v)


def r9_strains_pair(ctx, F, rule='C16-R9'):
    """the same comparison for the (difficulty, strains) pair of entries: both hand the shared `DifficultyValues::calculate` (and whatever else both call) the same numbers"""
    from common import MODES
    n = 0
    for mode in MODES:
        A = F.fn('%s::difficulty::difficulty' % mode)
        B = F.fn('%s::strains::strains' % mode)
        if A is None or B is None:
            ctx.violation(rule, 'anchor-missing:' + mode, 'difficulty / strains entry of %s not found' % mode)
            continue
        ctx.saw(A)
        ctx.saw(B)
        a, b = _numeric_args(F, A, mode), _numeric_args(F, B, mode)
        for cp in sorted(set(a) & set(b)):
            if len(a[cp]) != 1 or len(b[cp]) != 1:
                continue
            for (i, ty, x), (_, _, y) in zip(a[cp][0], b[cp][0]):
                n += 1
                key = '%s:%s:arg%d' % (mode, cp.split('::')[-2] + '::' + cp.split('::')[-1], i)
                ctx.require(x == y, rule, key, 'difficulty() and strains() of %s hand %s the same expression as argument %d (%s)' % (mode, cp.split('::', 1)[-1], i, ty), B.where(),
                            bad='%s: argument %d (%s) of %s is computed by different expressions in difficulty() (`%s`) and in strains() (`%s`): the strains no longer describe the '
                                'calculation the stars come from' % (mode, i, ty, cp, _first_diff(x, y)[0], _first_diff(x, y)[1]))
    ctx.ok(rule, 'pairs', '%d numeric argument(s) handed to shared callees by difficulty() and strains() compared' % n)


def _numeric_args(F, fn, mode):
    P = prov.prov_of(fn)
    out = {}
    for bi, t in fn.calls():
        cp = t['func'].get('path') or ''
        if not t['func'].get('local') or not cp.startswith(mode + '::') or cp.startswith(mode + '::convert'):
            continue
        g = F.fn(cp)
        if g is None:
            continue
        ins = g.j.get('inputs') or []
        args = P.call_args(bi)
        row = [(i, (ins[i].get('s') or '?'), _norm_arg(fn, a, F)) for i, a in enumerate(args) if i < len(ins) and ins[i].get('k') in ('float', 'int', 'uint', 'bool')]
        if row:
            out.setdefault(cp, []).append(row)
    return out


def r9_replicated_setup(ctx, F, rule='C02-R9'):
    """The one-shot entry (`<mode>::difficulty::difficulty` with `DifficultyValues::calculate` inlined) and the gradual constructor both prepare the same calculation: they
    call the same constructors of the mode's difficulty module (skills, difficulty objects, catcher width ..).  Every NUMERIC argument (float / integer / bool
    parameter of the callee) that both hand to the same callee must be the same expression over (difficulty, converted map) — a formula ported into one replica only
    makes the gradual values differ from the prefix values for the inputs where the formulas part."""
    import inline
    from common import MODES, CAP
    n = 0
    for mode in MODES:
        ent = F.fn('%s::difficulty::difficulty' % mode)
        B = F.method('%s::difficulty::gradual::%sGradualDifficulty' % (mode, CAP[mode]), 'new', inherent_only=True)
        if ent is None or B is None:
            ctx.violation(rule, 'anchor-missing:' + mode, 'one-shot entry / gradual constructor of %s not found' % mode)
            continue
        A = inline.inlined(F, ent, depth=1, force=lambda h: h.path.endswith('DifficultyValues::calculate')) or ent
        ctx.saw(ent)
        ctx.saw(B)

        def numeric_args(fn):
            P = prov.prov_of(fn)
            out = {}
            for bi, t in fn.calls():
                cp = t['func'].get('path') or ''
                if not t['func'].get('local') or not cp.startswith(mode + '::') or cp.startswith(mode + '::convert'):
                    continue
                g = F.fn(cp)
                if g is None:
                    continue
                ins = g.j.get('inputs') or []
                args = P.call_args(bi)
                row = [(i, (ins[i].get('s') or '?'), _norm_arg(fn, a, F)) for i, a in enumerate(args) if i < len(ins) and ins[i].get('k') in ('float', 'int', 'uint', 'bool')]
                if row:
                    out.setdefault(cp, []).append(row)
            return out
        a, b = numeric_args(A), numeric_args(B)
        for cp in sorted(set(a) & set(b)):
            if len(a[cp]) != 1 or len(b[cp]) != 1:
                continue                 # called several times on one side: no unique pairing
            for (i, ty, x), (_, _, y) in zip(a[cp][0], b[cp][0]):
                if 'get_passed_objects' in x or 'get_passed_objects' in y:
                    continue             # the one-shot calculation is cut at passed_objects, the gradual one is not
                n += 1
                key = '%s:%s:arg%d' % (mode, cp.split('::')[-2] + '::' + cp.split('::')[-1], i)
                ctx.require(x == y, rule, key, 'one-shot set-up and gradual constructor of %s hand %s the same expression as argument %d (%s)' % (mode, cp.split('::', 1)[-1], i, ty), B.where(),
                            bad='%s: argument %d (%s) of %s is computed by different expressions in the one-shot set-up (`%s`) and in the gradual constructor (`%s`): a formula that was '
                                'changed in one replica only — the gradual values differ from the prefix values wherever the two formulas part' % (
                                    mode, i, ty, cp, _first_diff(x, y)[0], _first_diff(x, y)[1]))
    ctx.floor(rule, n, 4, 'numeric arguments handed to shared callees by both set-ups (13 today)')


def _first_diff(x, y):
    i = 0
    while i < min(len(x), len(y)) and x[i] == y[i]:
        i += 1
    lo = max(0, i - 40)
    return x[lo:i + 60], y[lo:i + 60]
