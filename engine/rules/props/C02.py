"""C02 — gradual difficulty equals prefix difficulty: the one structural clause (same converted and
preprocessed map in the gradual constructor and the one-shot calculation)."""
from props import C07

EXPLANATION = (
    "Decides one necessary clause only: for each of the four modes the gradual constructor "
    "(IGameMode::gradual_difficulty) and the one-shot calculation (IGameMode::difficulty) start from the same "
    "map — both use their map parameter solely as receiver of convert_ref(own mode, difficulty.get_mods()) and "
    "both invoke the same set of &mut Beatmap preprocessors on the converted map under the same guards (followed "
    "through helpers). A gradual constructor that forgets a preprocessor passes the suite (its tests use no mods) "
    "and breaks the property for every play with that mod. Equality of the values per prefix (nth arithmetic, "
    "count deltas) is numeric and NOT decided.")


def run(ctx):
    F = ctx.facts('default')
    C07.r2_r4(ctx, F, r2='C02-R1a', r4='C02-R1b', methods=['difficulty', 'gradual_difficulty'])
    ctx.not_decided('equality of the i-th gradual value with the one-shot value for passed_objects(i); number of values; '
                    'final value equals full calculation (arithmetic over runtime values)')
