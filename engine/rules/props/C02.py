"""C02 — gradual difficulty equals prefix difficulty: the one structural clause (same converted and
preprocessed map in the gradual constructor and the one-shot calculation)."""
from props import C07

EXPLANATION = (
    "Decides two necessary clauses only. R1: for each of the four modes the gradual constructor "
    "(IGameMode::gradual_difficulty) and the one-shot calculation (IGameMode::difficulty) start from the same "
    "map — both use their map parameter solely as receiver of convert_ref(own mode, difficulty.get_mods()) and "
    "both invoke the same set of &mut Beatmap preprocessors on the converted map under the same guards (followed "
    "through helpers). A gradual constructor that forgets a preprocessor passes the suite (its tests use no mods) "
    "and breaks the property for every play with that mod. R2: the set of Difficulty::get_* settings reachable from the "
    "one-shot calculation equals the set reachable from the gradual calculator's methods (passed_objects aside): a setting "
    "consulted by only one side (e.g. the clock rate) makes the two disagree for every non-default value. Equality of the values per prefix (nth arithmetic, "
    "count deltas) is numeric and NOT decided.")


def run(ctx):
    F = ctx.facts('default')
    C07.r2_r4(ctx, F, r2='C02-R1a', r4='C02-R1b', methods=['difficulty', 'gradual_difficulty'])
    # ---- R2: both paths consult the same Difficulty settings
    import entries
    from common import MODES, CAP
    for mode in MODES:
        one = entries.difficulty_getters(F, ['%s::difficulty::difficulty' % mode])
        gadt = '%s::difficulty::gradual::%sGradualDifficulty' % (mode, CAP[mode])
        groots = [f.path for f in F.fns if f.self_adt == gadt]
        grad = entries.difficulty_getters(F, groots)
        a = set(one) - {'get_passed_objects'}
        b = set(grad) - {'get_passed_objects'}
        if not groots or not one:
            ctx.violation('C02-R2', 'anchor-missing:' + mode, 'one-shot / gradual entry of %s not found' % mode)
            continue
        for g in sorted(a - b):
            ctx.violation('C02-R2', '%s:-%s' % (mode, g), 'the one-shot %s difficulty consults Difficulty::%s (in %s) but no method of %s does: that setting '
                          'influences the one-shot result and not the gradual one' % (mode, g, sorted(set(one[g]))[:2], gadt.split('::')[-1]))
        for g in sorted(b - a):
            ctx.violation('C02-R2', '%s:+%s' % (mode, g), '%s consults Difficulty::%s (in %s) but the one-shot calculation never does' % (
                gadt.split('::')[-1], g, sorted(set(grad[g]))[:2]))
        if a == b:
            ctx.ok('C02-R2', mode + ':settings', 'one-shot and gradual %s paths consult the same Difficulty settings: %s (passed_objects aside)' % (mode, sorted(a)))
    ctx.not_decided('equality of the i-th gradual value with the one-shot value for passed_objects(i); number of values; '
                    'final value equals full calculation (arithmetic over runtime values)')
