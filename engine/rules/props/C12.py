"""C12 — generated score states: five structural clauses."""
import combin
import prov
from common import MODES, CAP, as_param_path

EXPLANATION = (
    "Flow / sibling rules over resolved MIR with closures and Option combinators expanded semantically: "
    "calculate() feeds the calculator with the result of generate_state() (R1); a provided miss count reaches the "
    "returned state only below min(_, object-count bound) in all four modes (R2); a provided combo reaches max_combo "
    "only below min(_, bound derived from the attributes' max combo) in every mode that has a combo (R3, sibling rule); "
    "the eight From impls between ScoreState and the mode states are field permutations that are mutually inverse "
    "(R4); state(), generate_state()'s write-back and the single-value setters agree on one field map (R5); every "
    "subtraction in generate_state, read as a linear form in (object count, clamped misses) with hit-result fields as opaque "
    "counts, takes the misses off the object count at most once (R6). R8 (shared with C14-R8): in a mode entry no read of the converted map is followed by one of the entry's in-place rewrites (HoldOff, Invert, Random) — an object count taken before Invert is not the count the calculation runs on. R7: Performance::state hands the ScoreState over whole or reads every one of its fields (helpers inlined): a count read nowhere is dropped for every mode. The rest of the "
    "remainder arithmetic (adds up, keeps what fits, idempotence) is u32 arithmetic over runtime counts: NOT decided.")


def perf_adt(mode):
    return '%s::performance::%sPerformance' % (mode, CAP[mode])


def state_adt(mode):
    return '%s::score_state::%sScoreState' % (mode, CAP[mode])


def ok_payloads(rv):
    xs = rv[1] if rv[0] == 'phi' else [rv]
    return [prov.strip(x[4]['0']) for x in xs if x[0] == 'agg' and x[3] == 'Ok']


def ok_payload(rv):
    """the state returned in Ok(..); several return sites are merged into one phi so that every one of them is judged"""
    oks = ok_payloads(rv)
    if not oks:
        return None
    return prov.phi(oks) if len(oks) > 1 else oks[0]


def src_pred(field):
    def is_src(n):
        pp = as_param_path(n)
        return pp is not None and pp[0] == 1 and pp[1][:1] == (field,)
    return is_src


def r1(ctx, F):
    n = 0
    for mode in MODES:
        f = F.method(perf_adt(mode), 'calculate', inherent_only=True)
        if f is None:
            ctx.violation('C12-R1', 'anchor-missing:%s:calculate' % mode, '%sPerformance::calculate not found' % CAP[mode])
            continue
        ctx.saw(f)
        n += 1
        P = prov.prov_of(f)
        gen = [(bi, t) for bi, t in f.calls() if t['func'].get('name') == 'generate_state' and t['func'].get('impl_adt') == perf_adt(mode)]
        ctor = [(bi, t) for bi, t in f.calls() if t['func'].get('local') and 'PerformanceCalculator' in (t['func'].get('impl_adt') or '')
                and t['func'].get('name') == 'new']
        if len(gen) != 1 or not ctor:
            ctx.violation('C12-R1', '%s:calculate' % mode, '%s: expected one generate_state() call and a calculator constructor, found %d / %d'
                          % (f.path, len(gen), len(ctor)), f.where())
            continue
        good = False
        detail = ''
        for bi, t in ctor:
            args = P.call_args(bi)
            for ai, a in enumerate(args):
                hits = [x for x in prov.walk(a) if x[0] == 'call' and x[1].get('name') == 'generate_state']
                if hits:
                    # the state argument must be exactly the Ok payload of generate_state(self)
                    s = prov.strip(a)
                    src = as_param_path(hits[0][2][0])
                    is_payload = s[0] == 'field' and s[2] == '0' and not any(
                        x[0] in ('binop', 'agg', 'update') for x in prov.walk(s))
                    if src == (1, ()) and is_payload:
                        good = True
                        detail = 'arg %d of %s = payload of self.generate_state()' % (ai, t['func']['path'])
        # and the result is that calculator's calculate()
        rv = P.return_value()
        calc_calls = [x for x in prov.walk(rv) if x[0] == 'call' and x[1].get('name') == 'calculate'
                      and 'PerformanceCalculator' in (x[1].get('impl_adt') or '')]
        good = good and len(calc_calls) >= 1
        ctx.require(good, 'C12-R1', '%s:calculate' % mode, '%s: %s; result = calculator.calculate()' % (f.path, detail), f.where(),
                    bad='%s does not build its calculator from the unmodified result of self.generate_state()' % f.path)
    ctx.floor('C12-R1', n, 4, 'calculate() functions')


def r2_r3(ctx, F):
    n2 = n3 = 0
    for mode in MODES:
        f = F.method(perf_adt(mode), 'generate_state', inherent_only=True)
        if f is None:
            ctx.violation('C12-R2', 'anchor-missing:%s:generate_state' % mode, 'generate_state not found')
            continue
        ctx.saw(f)
        for c in F.all_closures_of(f):
            ctx.saw(c)
        rv = prov.prov_of(f).return_value()
        st = ok_payload(rv)
        if st is None:
            ctx.violation('C12-R2', '%s:shape' % mode, 'cannot identify the Ok(state) value of %s' % f.path, f.where())
            continue
        state_fields = F.adt_fields(state_adt(mode)) or []
        for rule, sfield, src in (('C12-R2', 'misses', 'misses'), ('C12-R3', 'max_combo', 'combo')):
            if sfield not in state_fields:
                if rule == 'C12-R3':
                    ctx.ok(rule, '%s:no-combo' % mode, '%sScoreState has no max_combo field (nothing to clamp)' % CAP[mode])
                continue
            v = prov.project_field(st, sfield)
            # free helper functions (`util::clamp_combo(combo, max_combo, misses)`) are read through
            v = prov.inline_all(F, v, depth=2, _seen=(f.path,), only=lambda f_: not f_.get('trait') and '{closure' not in (f_.get('path') or '') and
                                not (f_.get('impl_adt') or '').endswith(('Performance', 'Difficulty', 'Attributes', 'ScoreState', 'MapOrAttrs', 'GameMods')))
            e = combin.expand(F, v)
            o = combin.unclamped_occurrences(e, src_pred(src))
            if rule == 'C12-R2':
                n2 += 1
            else:
                n3 += 1
            key = '%s:%s' % (mode, sfield)
            if o['unclamped']:
                ctx.violation(rule, key,
                              '%s: a provided `%s` reaches state.%s without min(_, bound): %s  [value: %s]' % (
                                  f.path, src, sfield, ', '.join(prov.show(x) for x in o['unclamped']), prov.show(e, maxdepth=5)[:300]),
                              f.where())
            elif o['clamped'] == 0:
                ctx.violation(rule, key + ':unused', '%s: the provided `%s` does not reach state.%s at all' % (f.path, src, sfield), f.where())
            else:
                bound_ok = True
                if rule == 'C12-R3':
                    bound_ok = all(any((n[0] == 'field' and n[2] == 'max_combo') or
                                       (n[0] == 'call' and n[1].get('name') == 'max_combo') for n in prov.walk(b))
                                   for b in o['bounds'])
                ctx.require(bound_ok, rule, key, '%s: provided `%s` reaches state.%s only as min(provided, %s)' % (
                    f.path, src, sfield, '; '.join(prov.show(b, maxdepth=3)[:120] for b in o['bounds'])), f.where(),
                    bad='%s: combo clamp bound is not derived from the attributes\' max combo: %s' % (
                        f.path, '; '.join(prov.show(b, maxdepth=4) for b in o['bounds'])))
    ctx.floor('C12-R2', n2, 4, 'generate_state miss clamps')
    ctx.floor('C12-R3', n3, 3, 'generate_state combo clamps')


def from_impl(F, src_adt, dst_adt):
    for f in F.fns:
        if f.name == 'from' and f.impl_trait == 'std::convert::From' and f.self_adt == dst_adt:
            inputs = f.j.get('inputs', [])
            if inputs and inputs[0].get('adt') == src_adt:
                return f
    return None


def field_perm(f):
    """dst field -> src field | ('const', val) for a From impl that is a struct literal of projections"""
    rv = prov.strip(prov.prov_of(f).return_value())
    if rv[0] != 'agg':
        return None
    out = {}
    for fld, v in rv[4].items():
        pp = as_param_path(v)
        if pp is not None and pp[0] == 1 and len(pp[1]) == 1:
            out[fld] = pp[1][0]
        elif v[0] == 'const':
            out[fld] = ('const', v[1].get('val'))
        else:
            out[fld] = ('other', prov.show(v, maxdepth=3))
    return out


def r4(ctx, F):
    SS = 'any::score_state::ScoreState'
    n = 0
    for mode in MODES:
        X = state_adt(mode)
        to_any = from_impl(F, X, SS)
        from_any = from_impl(F, SS, X)
        if not to_any or not from_any:
            ctx.violation('C12-R4', 'anchor-missing:%s' % mode, 'From impls between ScoreState and %s not found' % X)
            continue
        ctx.saw(to_any)
        ctx.saw(from_any)
        a = field_perm(to_any)      # ScoreState field <- X field / const
        b = field_perm(from_any)    # X field <- ScoreState field
        if a is None or b is None:
            ctx.violation('C12-R4', '%s:shape' % mode, 'From impl is not a struct literal', to_any.where())
            continue
        n += 1
        for xf, sf in sorted(b.items()):
            back = a.get(sf) if isinstance(sf, str) else None
            ctx.require(back == xf, 'C12-R4', '%s:%s' % (mode, xf),
                        '%sScoreState.%s -> ScoreState.%s -> %sScoreState.%s (identity)' % (CAP[mode], xf, sf, CAP[mode], xf),
                        from_any.where(),
                        bad='round trip breaks on %sScoreState.%s: From<ScoreState> reads ScoreState.%s, but From<%sScoreState> fills that '
                            'from `%s`' % (CAP[mode], xf, sf, CAP[mode], back))
        # fields of ScoreState not fed by X must be constants (0), never another X field twice
        used = [v for v in a.values() if isinstance(v, str)]
        dup = {v for v in used if used.count(v) > 1}
        ctx.require(not dup, 'C12-R4', '%s:injective' % mode, 'From<%sScoreState> for ScoreState uses each source field once' % CAP[mode],
                    to_any.where(), bad='From<%sScoreState> for ScoreState copies %s into several fields' % (CAP[mode], sorted(dup)))
    ctx.floor('C12-R4', n, 4, 'ScoreState conversion pairs')


def written_slots(v, F=None):
    """for a value `param#1 with {slot: Some{0: x}}` return {slot: x}"""
    out = {}
    if F is not None:
        v = prov.resolve_mut(F, prov.strip(v, through_mut=False))        # writes done by a private `&mut self` helper
    layers = []
    steps = 0
    while steps < 40:
        steps += 1
        v = prov.strip(v, through_mut=True)
        while v[0] == 'mut':
            v = v[1]
        if v[0] == 'update':
            layers.append(v[2])
            v = v[1]
            continue
        # `self.combo(a).fruits(b)..`: a chain of the builder's own by-value setters is the nested update they perform (spine only)
        if F is not None and v[0] == 'call' and v[1].get('local') and (v[1].get('impl_adt') or '').endswith('Performance') and \
                v[1].get('name') not in ('generate_state', 'calculate', 'new', 'from_map_or_attrs', 'try_mode', 'mode_or_ignore') and v[2]:
            w = prov.inline_call(F, v)
            if w is not v and w != v:
                v = w
                continue
        break
    for upd in reversed(layers):          # innermost first, outer writes win
        for p, x in upd.items():
            if len(p) == 1:
                x = prov.strip(x)
                if x[0] == 'agg' and x[3] == 'Some':
                    out[p[0]] = x[4]['0']
                else:
                    out[p[0]] = x
    return out


def r5(ctx, F):
    rows = 0
    for mode in MODES:
        padt = perf_adt(mode)
        gen = F.method(padt, 'generate_state', inherent_only=True)
        st_fn = F.method(padt, 'state', inherent_only=True)
        if not gen or not st_fn:
            ctx.violation('C12-R5', 'anchor-missing:%s' % mode, 'generate_state/state not found')
            continue
        ctx.saw(st_fn)
        # map defined by generate_state: state field f -> builder slot g (same value written back to self.g)
        P = prov.prov_of(gen)
        st = ok_payload(P.return_value())
        gen_map = {}
        if st is not None and st[0] in ('agg', 'update', 'phi'):
            fields = F.adt_fields(state_adt(mode)) or []
            # value of *self at the Ok return
            wb = {}
            for r in gen.cfg.returns:
                n = len(gen.blocks[r]['s'])
                sv = P.local(1, r, n)
                for alt in (sv[1] if sv[0] == 'phi' else [sv]):
                    wb.update(written_slots(alt, F))
            for f in fields:
                fv = prov.strip(prov.project_field(st, f))
                fvs = [fv] + ([prov.strip(a) for a in fv[1]] if fv[0] == 'phi' else [])
                for g, x in wb.items():
                    if prov.strip(x) in fvs:
                        gen_map[f] = g
        # map defined by state(s)
        sv = prov.prov_of(st_fn).return_value()
        st_map = {}
        for g, x in written_slots(sv, F).items():
            pp = as_param_path(x)
            if pp is not None and pp[0] == 2 and len(pp[1]) == 1:
                st_map[pp[1][0]] = g
        fields = F.adt_fields(state_adt(mode)) or []
        for f in fields:
            rows += 1
            g1 = gen_map.get(f)
            g2 = st_map.get(f)
            if g2 is None:
                ctx.violation('C12-R5', '%s:state:%s' % (mode, f), '%sPerformance::state does not store state.%s into any slot' % (CAP[mode], f), st_fn.where())
                continue
            if g1 is None:
                ctx.violation('C12-R5', '%s:generate:%s' % (mode, f), '%sPerformance::generate_state does not write the generated `%s` back '
                              'into the builder (a second call would regenerate it differently)' % (CAP[mode], f), gen.where())
                continue
            ctx.require(g1 == g2, 'C12-R5', '%s:%s' % (mode, f), 'state.%s <-> builder slot `%s` in both state() and generate_state()' % (f, g1),
                        st_fn.where(), bad='%sPerformance: generate_state() writes state.%s back to slot `%s` but state() stores it in `%s`' % (
                            CAP[mode], f, g1, g2))
            # the single-value setter of that name
            sname = 'combo' if f == 'max_combo' else f
            setter = F.method(padt, sname, inherent_only=True)
            if setter is None:
                ctx.violation('C12-R5', '%s:setter:%s' % (mode, f), 'no setter %sPerformance::%s (anchor-missing)' % (CAP[mode], sname))
                continue
            ctx.saw(setter)
            ws = written_slots(prov.prov_of(setter).return_value(), F)
            hit = [g for g, x in ws.items() if as_param_path(x) == (2, ())]
            ctx.require(hit == [g2] and len(ws) == 1, 'C12-R5', '%s:setter:%s' % (mode, f),
                        '%sPerformance::%s(n) writes slot `%s` only' % (CAP[mode], sname, g2), setter.where(),
                        bad='%sPerformance::%s(n) writes %s, but state() stores state.%s in `%s`' % (
                            CAP[mode], sname, {g: prov.show(x, maxdepth=3) for g, x in ws.items()}, f, g2))
    ctx.floor('C12-R5', rows, 24, 'state field rows')


def run(ctx):
    F = ctx.facts('default')
    r1(ctx, F)
    r2_r3(ctx, F)
    r4(ctx, F)
    r5(ctx, F)
    r6(ctx, F)
    r7_state_hands_over_every_field(ctx, F)
    from props import C07 as _c07
    _c07.no_stale_map_reads(ctx, F, 'C12-R8')
    ctx.not_decided('keeps every provided result that fits; hit results add up to the object count; idempotence of '
                    'generate_state (u32 arithmetic over runtime counts)')


# ---- R6: unit consistency of the remainder arithmetic — misses are taken off the object count exactly once
ADDS = ('Add', 'AddWithOverflow', 'AddUnchecked')
SUBS = ('Sub', 'SubWithOverflow', 'SubUnchecked')
SUB_CALLS = ('saturating_sub', 'checked_sub', 'wrapping_sub')
ADD_CALLS = ('saturating_add', 'checked_add', 'wrapping_add')


def lin(F, v, N_trees, m_tree, depth=0):
    """(coefficient of the object count, coefficient of the clamped misses) of a u32 expression tree; every other leaf is an opaque count
    (0, 0); None when the expression mixes them non-linearly"""
    if depth > 40:
        return None
    v = prov.strip(v, names={'from', 'into', 'unwrap_or', 'unwrap_or_default'})
    if v == m_tree:
        return (0, 1)
    if any(v == b for b in N_trees):
        return (1, 0)
    k = v[0]
    if k == 'field' and v[1][0] == 'binop' and str(v[2]) == '0':
        return lin(F, v[1], N_trees, m_tree, depth + 1)           # (a op b).0 of a checked operation
    if k == 'binop':
        a, b = lin(F, v[2], N_trees, m_tree, depth + 1), lin(F, v[3], N_trees, m_tree, depth + 1)
        if v[1] in ADDS or v[1] in SUBS:
            if a is None or b is None:
                return None
            sgn = 1 if v[1] in ADDS else -1
            return (a[0] + sgn * b[0], a[1] + sgn * b[1])
        if a == (0, 0) and b == (0, 0):
            return (0, 0)
        return None
    if k == 'call':
        name = v[1].get('name')
        if name in SUB_CALLS + ADD_CALLS and len(v[2]) == 2:
            a, b = lin(F, v[2][0], N_trees, m_tree, depth + 1), lin(F, v[2][1], N_trees, m_tree, depth + 1)
            if a is None or b is None:
                return None
            sgn = 1 if name in ADD_CALLS else -1
            return (a[0] + sgn * b[0], a[1] + sgn * b[1])
        if v[1].get('local') and name in ('total_hits',) and len(v[2]) == 1:
            # a sum over the fields of a score state: every hit-result field is a count whatever expression produced it; only the
            # `misses` field keeps its value
            target = F.fn(v[1].get('path'))
            fields = F.adt_fields(v[1].get('impl_adt') or '') or []
            if target is not None and 'misses' in fields:
                S = prov.strip(v[2][0])
                S2 = ('agg', 'adt', v[1].get('impl_adt'), None,
                      {f_: (prov.project_field(S, 'misses') if f_ == 'misses' else ('unknown', 'count')) for f_ in fields})
                return lin(F, prov.subst(prov.prov_of(target).return_value(), {1: S2}), N_trees, m_tree, depth + 1)
            return None
        subs = [lin(F, a, N_trees, m_tree, depth + 1) for a in v[2]]
        if all(x == (0, 0) for x in subs):
            return (0, 0)
        if name in ('min', 'max', 'clamp') or any(x is None for x in subs):
            return None
        return (0, 0)            # an opaque function of counts is a count
    if k == 'phi':
        subs = [lin(F, a, N_trees, m_tree, depth + 1) for a in v[1]]
        if subs and all(x == subs[0] for x in subs):
            return subs[0]
        return None
    if k == 'cast':
        inner = next((y for y in v[1:] if isinstance(y, tuple) and y and isinstance(y[0], str)), None)
        return lin(F, inner, N_trees, m_tree, depth + 1) if inner else (0, 0)
    return (0, 0)


def r6(ctx, F):
    n6 = 0
    for mode in MODES:
        f = F.method(perf_adt(mode), 'generate_state', inherent_only=True)
        if f is None:
            continue
        P = prov.prov_of(f)
        st = ok_payload(P.return_value())
        if st is None or 'misses' not in (F.adt_fields(state_adt(mode)) or []):
            continue
        m_alts = prov.project_field(st, 'misses')
        m_alts = m_alts[1] if m_alts[0] == 'phi' else [m_alts]
        m_tree = prov.strip(m_alts[0], names={'from', 'into'})
        o = combin.unclamped_occurrences(combin.expand(F, m_tree), src_pred('misses'))
        N_trees = [prov.strip(b, names={'from', 'into'}) for b in o.get('bounds', [])]
        if not N_trees:
            continue
        bad = []
        for bi, si, s_ in f.assigns():
            rv = s_['rv']
            if rv['k'] == 'binop' and rv['op'] in SUBS:
                a, b = P.operand(rv['a'], bi, si), P.operand(rv['b'], bi, si)
                what = '%s - %s'
            else:
                continue
            la, lb = lin(F, a, N_trees, m_tree), lin(F, b, N_trees, m_tree)
            if la is None or lb is None:
                continue
            res = (la[0] - lb[0], la[1] - lb[1])
            if res[0] >= 1:
                n6 += 1
                if res[1] < -res[0]:
                    bad.append((s_.get('ln'), what % (prov.show(a, maxdepth=2)[:80], prov.show(b, maxdepth=2)[:80]), res))
        for bi, t in f.calls():
            if t['func'].get('name') in SUB_CALLS:
                args = P.call_args(bi)
                la, lb = lin(F, args[0], N_trees, m_tree), lin(F, args[1], N_trees, m_tree)
                if la is None or lb is None:
                    continue
                res = (la[0] - lb[0], la[1] - lb[1])
                if res[0] >= 1:
                    n6 += 1
                    if res[1] < -res[0]:
                        bad.append((t.get('ln'), '%s.%s(%s)' % (prov.show(args[0], maxdepth=2)[:80], t['func'].get('name'), prov.show(args[1], maxdepth=2)[:80]), res))
        ctx.require(not bad, 'C12-R6', '%s:remainder-units' % mode,
                    '%s: no remainder takes the misses off the object count more than once' % f.path, f.where(),
                    bad='%s: %s evaluates to (object count) %+d x misses: the misses are subtracted twice, so the hit results of the generated state add up to less than '
                        'the object count whenever misses > 0 (and a second generate_state() call tops the state up differently)' % (
                            f.path, '; '.join('`%s` at line %s' % (w, l) for l, w, _ in bad[:2]), bad[0][2][1] if bad else 0))
    ctx.floor('C12-R6', n6, 6, 'remainder computations (object count minus counts) in generate_state')


# ---- R7: Performance::state hands over every field of the ScoreState (seed C12-7: state() rebuilt on a chain of setters that leaves n_geki out)
def r7_state_hands_over_every_field(ctx, F):
    """"keeps every provided hit result that fits" starts at the door: the mode-agnostic `Performance::state(s)` either hands `s` over whole (to the payload's
    `state(s.into())`) or reads each field of ScoreState somewhere (helpers of Performance inlined).  A field that is read nowhere is dropped for every mode —
    each of the ten fields is a judgement count of at least one mode."""
    import combin
    from common import as_param_path
    PERF = 'any::performance::Performance'
    SS = 'any::score_state::ScoreState'
    f = F.method(PERF, 'state', inherent_only=True)
    adt = F.adts.get(SS)
    if f is None or adt is None:
        ctx.violation('C12-R7', 'anchor-missing:Performance::state', 'Performance::state / ScoreState not found')
        return
    ctx.saw(f)
    allf = [x['name'] for x in adt['variants'][0]['fields']]
    rv = prov.prov_of(f).return_value()
    rv = prov.inline_all(F, rv, depth=4, _seen=(f.path,), only=lambda f_: (f_.get('impl_adt') or '') == PERF and not f_.get('trait'))
    rv = combin.expand(F, rv)
    read = set()
    whole = False
    for n in prov.walk(rv, limit=40000):
        if n[0] == 'call':
            for a in n[2]:
                pa = as_param_path(a, through_calls=False)
                if pa is not None and pa[0] == 2 and pa[1] == ():
                    whole = True
        pp = as_param_path(n, through_calls=False)
        if pp and pp[0] == 2 and pp[1]:
            read.add(pp[1][0])
    missing = [x for x in allf if x not in read]
    ctx.require(whole or not missing, 'C12-R7', 'state:every-field', 'Performance::state hands the ScoreState over %s' % (
        'whole to the mode builder' if whole else 'field by field, all %d fields' % len(allf)), f.where(),
        bad='Performance::state never reads %s of the ScoreState it is given (and does not hand the state over whole): that judgement count is dropped and later '
            're-derived as a remainder, so a provided hit result is not kept' % ', '.join('`%s`' % m_ for m_ in missing))
    ctx.floor('C12-R7', len(allf), 10, 'fields of ScoreState')
