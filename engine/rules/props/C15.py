"""C15 — iterator protocol: delegation clauses."""
import arms
import prov
from common import MODES, CAP, as_param_path

EXPLANATION = (
    "Delegation clauses over resolved MIR: next(s) is exactly self.nth(s, 0) and last(s) exactly self.nth(s, usize::MAX) "
    "for the four mode gradual performance calculators and the enum wrapper; len() is the inner calculator's len() (R1); "
    "every arm of the enum wrappers' next/nth/size_hint/len (GradualDifficulty) and nth/len (GradualPerformance) calls "
    "the same-named method of its own payload with the parameters passed through and re-wraps in its own variant (R2); "
    "size_hint of the four mode iterators is (len, Some(len)) with len = ExactSizeIterator::len(self) (R3); len() consults every "
    "collection whose emptiness makes next() return None at once (R4); a custom nth(n) that clamps n must have a None return guarded "
    "by a comparison of n with len() (R5: std's contract nth(n >= len) == None, which step_by/skip rely on); len() measures the "
    "collection whose get(idx - 1)? ends next() (R6); in every nth the caller's n (usize::MAX included) takes part in overflow-capable "
    "arithmetic only after a dominating comparison of n itself or through min / saturating_* / checked_* (R7). "
    "R8: the bulk step of nth() feeds exactly the skills next() feeds and under the same private conditions (a container's forwarding process() is inlined; guards shared by every feed of a function — position, loop — are factored out). "
    "R9: the n >= len() branch of nth() leaves the calculator exhausted: it drains with next(), or it sets the position to exactly the end len() measures (linear forms) and next() decides exhaustion from that position rather than from a separate cursor. "
    "R10: dimension check — an integer parameter of a private helper called from the gradual calculators is asked either with positions (self.idx-based, lengths) or with step counts (the caller's n, len(), distances) at all call sites, never both (a step count equals a position only for a step that starts at 0). "
    "R11: every alternative of a gradual performance nth() result is derived from the inner difficulty iterator's nth() — it cannot answer None on a condition of its own that len() does not know. "
    "nth(n) == n+1 x next, len == remaining, behaviour after exhaustion are arithmetic over runtime state: NOT decided.")

GD = 'any::difficulty::gradual::GradualDifficulty'
GP = 'any::performance::gradual::GradualPerformance'
USIZE_MAX = str(2 ** 64 - 1)


def gp_adt(mode):
    return '%s::performance::gradual::%sGradualPerformance' % (mode, CAP[mode])


def gd_adt(mode):
    return '%s::difficulty::gradual::%sGradualDifficulty' % (mode, CAP[mode])


def single_call_value(fn):
    rv = prov.strip(prov.prov_of(fn).return_value(), names=set())
    return rv


def _map_tree(v, fn_, memo=None):
    """bottom-up rebuild of a value tree; fn_(node with mapped children) -> node"""
    if memo is None:
        memo = {}
    key = id(v)
    if key in memo:
        return memo[key]
    k = v[0]
    if k == 'call':
        r = ('call', v[1], [_map_tree(a, fn_, memo) for a in v[2]], v[3])
    elif k == 'agg':
        r = ('agg', v[1], v[2], v[3], {f: _map_tree(x, fn_, memo) for f, x in v[4].items()})
    elif k == 'field':
        r = prov.project_field(_map_tree(v[1], fn_, memo), v[2])
    elif k == 'variant':
        r = prov.project_variant(_map_tree(v[1], fn_, memo), v[2])
    elif k == 'binop':
        r = ('binop', v[1], _map_tree(v[2], fn_, memo), _map_tree(v[3], fn_, memo))
    elif k == 'unop':
        r = ('unop', v[1], _map_tree(v[2], fn_, memo))
    elif k == 'cast':
        r = ('cast', v[1], _map_tree(v[2], fn_, memo), v[3])
    elif k == 'phi':
        r = prov.phi([_map_tree(x, fn_, memo) for x in v[1]])
    elif k == 'mut':
        r = ('mut', _map_tree(v[1], fn_, memo), v[2], v[3] if len(v) > 3 else ())
    elif k == 'update':
        r = ('update', _map_tree(v[1], fn_, memo), {p_: _map_tree(x, fn_, memo) for p_, x in v[2].items()})
    elif k in ('discr', 'len'):
        r = (k, _map_tree(v[1], fn_, memo))
    else:
        r = v
    r = fn_(r)
    memo[key] = r
    return r


def same_as_nth_at(F, adt, f, const):
    """the value next()/last() returns equals the value nth() returns for n := const, both expanded through private helpers and closures, with the
    identities min(0, x) = 0 and min(usize::MAX, x) = x on usize"""
    import combin
    nth = F.method(adt, 'nth', inherent_only=True)
    if nth is None or len(f.j.get('inputs', [])) != 2 or len(nth.j.get('inputs', [])) != 3:
        return False

    def expanded(g):
        rv = prov.prov_of(g).return_value()
        rv = prov.inline_all(F, rv, depth=2, _seen=(g.path,), only=lambda f_: not f_.get('trait') and (f_.get('impl_adt') or '') == adt and f_.get('name') not in ('nth', 'next', 'last', 'new'))
        return combin.expand(F, rv)

    def simp(n_):
        if n_[0] == 'call' and n_[1].get('name') == 'min' and len(n_[2]) == 2:
            a, b = n_[2]
            for x, y in ((a, b), (b, a)):
                cv = prov.const_val(prov.strip(x))
                if cv == '0':
                    return x
                if cv == USIZE_MAX:
                    return y
        return n_

    cnode = ('const', {'k': 'const', 'ty': 'usize', 'tk': 'uint', 'val': const})

    def fold(n_):
        """constant folding of the few unsigned operations a clamp is made of"""
        if n_[0] == 'call' and n_[1].get('name') in ('saturating_sub', 'min', 'max') and len(n_[2]) == 2:
            ca, cb = prov.const_val(prov.strip(n_[2][0])), prov.const_val(prov.strip(n_[2][1]))
            if ca is not None and cb is not None and ca.isdigit() and cb.isdigit():
                va, vb = int(ca), int(cb)
                r_ = {'saturating_sub': max(va - vb, 0), 'min': min(va, vb), 'max': max(va, vb)}[n_[1]['name']]
                return ('const', {'k': 'const', 'ty': 'usize', 'tk': 'uint', 'val': str(r_)})
        return simp(n_)

    def special(n_):
        """a private helper called with a constant argument: if every path through it yields the same constant (an unsigned `!(0 < r)` meaning r == 0 on
        that path), the call is that constant"""
        if n_[0] != 'call' or not n_[1].get('local') or n_[1].get('trait') or not any(prov.const_val(prov.strip(a_)) is not None for a_ in n_[2]):
            return n_
        h = F.fn(n_[1].get('path') or '')
        if h is None or len(h.blocks) > 30:
            return n_
        sp = arms.specialized_paths(h, n_[2])
        if not sp:
            return n_
        vals = set()
        for rest, val in sp:
            env = {}
            for c, lab in rest:
                c = prov.strip(c, names={'likely', 'unlikely'})
                if c[0] == 'binop' and c[1] in ('Lt', 'Gt', 'Le', 'Eq', 'Ne'):
                    l_, r_ = prov.strip(c[2]), prov.strip(c[3])
                    zero_l, zero_r = prov.const_val(l_) == '0', prov.const_val(r_) == '0'
                    is_zero = (c[1] == 'Lt' and zero_l and lab == 'false') or (c[1] == 'Gt' and zero_r and lab == 'false') or \
                              (c[1] == 'Le' and zero_r and lab == 'true') or (c[1] == 'Eq' and (zero_l or zero_r) and lab == 'true') or \
                              (c[1] == 'Ne' and (zero_l or zero_r) and lab == 'false')
                    if is_zero:
                        env[prov.show(r_ if zero_l else l_, maxdepth=12)] = True
            z = ('const', {'k': 'const', 'ty': 'usize', 'tk': 'uint', 'val': '0'})
            v2 = _map_tree(val, lambda m_: z if m_[0] != 'const' and prov.show(m_, maxdepth=12) in env else m_)
            v2 = _map_tree(v2, fold)
            cv = prov.const_val(prov.strip(v2))
            if cv is None:
                return n_
            vals.add(cv)
        if len(vals) == 1:
            return ('const', {'k': 'const', 'ty': 'usize', 'tk': 'uint', 'val': vals.pop()})
        return n_

    def pipeline(g, params=None):
        rv = prov.prov_of(g).return_value()
        if params:
            rv = prov.subst(rv, params)
        rv = _map_tree(rv, special)
        rv = prov.inline_all(F, rv, depth=2, _seen=(g.path,), only=lambda f_: not f_.get('trait') and (f_.get('impl_adt') or '') == adt and f_.get('name') not in ('nth', 'next', 'last', 'new'))
        rv = _map_tree(rv, special)
        return _map_tree(combin.expand(F, rv), simp)
    a = pipeline(f)
    b = pipeline(nth, {3: cnode})
    sa, sb = prov.show(a, maxdepth=40), prov.show(b, maxdepth=40)
    # closures are named after the function they are written in
    import re as _re
    norm = lambda t: _re.sub(r'::(next|last|nth)::\{closure#\d+\}', '::{closure}', t)
    return 'nth(' in sa and norm(sa) == norm(sb)


def r1(ctx, F):
    n = 0
    types = [(gp_adt(m), CAP[m] + 'GradualPerformance') for m in MODES] + [(GP, 'GradualPerformance')]
    for adt, short in types:
        for name, const in (('next', '0'), ('last', USIZE_MAX)):
            f = F.method(adt, name, inherent_only=True)
            if f is None:
                ctx.violation('C15-R1', 'anchor-missing:%s::%s' % (short, name), 'method not found')
                continue
            ctx.saw(f)
            n += 1
            rv = single_call_value(f)
            good = rv[0] == 'call' and rv[1].get('name') == 'nth' and rv[1].get('impl_adt') == adt and len(rv[2]) == 3 and \
                as_param_path(rv[2][0]) == (1, ()) and as_param_path(rv[2][1]) == (2, ()) and prov.const_val(rv[2][2]) == const
            ncalls = sum(1 for _ in f.calls())
            if not good and name == 'last':
                # `last` may also name the last index itself: nth(state, self.len() - 1) (saturating), possibly through a private helper
                rv2 = prov.strip(prov.inline_all(F, rv, depth=2, _seen=(f.path,), only=lambda f_: not f_.get('trait') and f_.get('name') not in ('nth', 'len', 'next')), names=set())
                if rv2[0] == 'call' and rv2[1].get('name') == 'nth' and rv2[1].get('impl_adt') == adt and len(rv2[2]) == 3 and \
                        as_param_path(rv2[2][0]) == (1, ()) and as_param_path(rv2[2][1]) == (2, ()):
                    x = prov.strip(rv2[2][2], names=set())
                    if x[0] == 'call' and x[1].get('name') in ('saturating_sub',) and len(x[2]) == 2 and prov.const_val(prov.strip(x[2][1])) == '1':
                        l_ = prov.strip(x[2][0], names=set())
                        if l_[0] == 'call' and l_[1].get('name') == 'len' and (l_[1].get('impl_adt') or '') == adt and as_param_path(l_[2][0]) == (1, ()):
                            ctx.ok('C15-R1', '%s::%s' % (short, name), 'last(state) = self.nth(state, self.len() - 1): the last remaining index', f.where())
                            continue
            if not (good and ncalls == 1) and adt == GP and arms.arm_return_values(f)[1]:
                # the wrapper may also dispatch straight to its payload's next / last (each of which is nth(0) / nth(usize::MAX), judged above)
                if wrapper_arms(ctx, F, 'C15-R1', short, name, f, gp_adt) == len(MODES):
                    continue
            if not (good and ncalls == 1) and same_as_nth_at(F, adt, f, const):
                ctx.ok('C15-R1', '%s::%s' % (short, name), '%s(state) computes exactly what nth(state, %s) computes (both bodies expanded through their shared private helper, '
                       'n := %s, min(0, x) = 0 / min(usize::MAX, x) = x)' % (name, 'usize::MAX' if const != '0' else '0', 'usize::MAX' if const != '0' else '0'), f.where())
                continue
            ctx.require(good and ncalls == 1, 'C15-R1', '%s::%s' % (short, name),
                        '%s(state) = self.nth(state, %s)' % (name, 'usize::MAX' if const != '0' else '0'), f.where(),
                        bad='%s::%s is `%s`, expected exactly self.nth(state, %s)' % (short, name, prov.show(rv, maxdepth=3),
                                                                                     'usize::MAX' if const != '0' else '0'))
        if adt != GP:
            f = F.method(adt, 'len', inherent_only=True)
            if f is None:
                ctx.violation('C15-R1', 'anchor-missing:%s::len' % short, 'method not found')
                continue
            ctx.saw(f)
            n += 1
            rv = single_call_value(f)
            good = rv[0] == 'call' and rv[1].get('name') == 'len' and 'GradualDifficulty' in (rv[1].get('path') or '') and \
                as_param_path(rv[2][0]) == (1, ('difficulty',))
            ctx.require(good, 'C15-R1', '%s::len' % short, 'len() = inner gradual difficulty len()', f.where(),
                        bad='%s::len is `%s`, expected self.difficulty.len()' % (short, prov.show(rv, maxdepth=3)))
    ctx.floor('C15-R1', n, 14, 'next/last/len delegations')


def find_payload_call(v, adt_of_mode, method, variant):
    """the call of `method` on the payload of `variant` inside value v"""
    for nnode in prov.walk(v, limit=500):
        if nnode[0] == 'call' and nnode[1].get('name') == method and nnode[2]:
            recv = as_param_path(nnode[2][0])
            if recv == (1, ('as ' + variant, '0')):
                return nnode
    return None


def wrapper_arms(ctx, F, rule, short, name, f, payload_adt):
    """every variant arm of the enum wrapper method calls the same-named method of its own payload with the parameters passed through
    and re-wraps in its own variant; returns the number of arms judged"""
    narms = 0
    cond, vals = arms.arm_return_values(f)
    if not vals:
        ctx.violation(rule, '%s::%s:shape' % (short, name), 'no single match on the variant', f.where())
        return 0
    for label, val in vals.items():
        for variant in label.split('|'):
            mode = variant.lower()
            if mode not in MODES:
                continue
            narms += 1
            key = '%s::%s:%s' % (short, name, variant)
            if val is None:
                ctx.violation(rule, key, 'arm assigns no value', f.where())
                continue
            call = find_payload_call(val, payload_adt(mode), name, variant)
            if call is None:
                ctx.violation(rule, key, 'arm %s of %s::%s does not call `%s` on its payload: %s' % (
                    variant, short, name, name, prov.show(val, maxdepth=4)), f.where())
                continue
            p = call[1].get('path') or ''
            own = (CAP[mode] + 'Gradual') in p
            args_ok = all(as_param_path(a) == (i + 2, ()) for i, a in enumerate(call[2][1:]))
            # re-wrapping constructor (if any) must be the same variant
            wraps = [x for x in prov.walk(val, limit=500) if x[0] == 'const' and 'fn' in x[1] and x[1]['fn'].get('ctor')]
            wrap_ok = all(w[1]['fn']['path'].endswith('::' + variant) for w in wraps)
            ctx.require(own and args_ok and wrap_ok, rule, key, '%s arm: payload.%s(params)%s' % (
                variant, name, ' re-wrapped as ' + variant if wraps else ''), f.where(),
                bad='arm %s of %s::%s: callee %s, args passed through=%s, wrapper(s) %s' % (
                    variant, short, name, p, args_ok, [w[1]['fn']['path'] for w in wraps]))
    return narms


def r2(ctx, F):
    narms = 0
    specs = []
    for name in ('next', 'nth', 'size_hint'):
        f = F.method(GD, name, trait='std::iter::Iterator')
        specs.append((GD, 'GradualDifficulty', name, f, gd_adt))
    f = F.method(GD, 'len', trait='std::iter::ExactSizeIterator')
    specs.append((GD, 'GradualDifficulty', 'len', f, gd_adt))
    for name in ('nth', 'len'):
        specs.append((GP, 'GradualPerformance', name, F.method(GP, name, inherent_only=True), gp_adt))
    for adt, short, name, f, payload_adt in specs:
        if f is None:
            ctx.violation('C15-R2', 'anchor-missing:%s::%s' % (short, name), 'method not found')
            continue
        ctx.saw(f)
        narms += wrapper_arms(ctx, F, 'C15-R2', short, name, f, payload_adt)
    ctx.floor('C15-R2', narms, 24, 'enum wrapper arms')


def r3(ctx, F):
    n = 0
    for mode in MODES:
        adt = gd_adt(mode)
        f = F.method(adt, 'size_hint', trait='std::iter::Iterator')
        if f is None:
            ctx.violation('C15-R3', 'anchor-missing:%s:size_hint' % mode, 'Iterator::size_hint for %s not found' % adt)
            continue
        ctx.saw(f)
        n += 1
        rv = prov.strip(prov.prov_of(f).return_value(), names=set())
        good = False
        if rv[0] == 'agg' and rv[1] == 'tuple':
            lo = prov.strip(rv[4].get('0'), names=set())
            hi = prov.strip(rv[4].get('1'), names=set())
            is_len = lo[0] == 'call' and lo[1].get('name') == 'len' and as_param_path(lo[2][0]) == (1, ()) and \
                (lo[1].get('trait') == 'std::iter::ExactSizeIterator' or 'ExactSizeIterator' in (lo[1].get('path') or ''))
            good = is_len and hi[0] == 'agg' and hi[3] == 'Some' and prov.strip(hi[4]['0'], names=set()) == lo
        ctx.require(good, 'C15-R3', '%s:size_hint' % mode, 'size_hint() = (len, Some(len)) with len = ExactSizeIterator::len(self)', f.where(),
                    bad='%sGradualDifficulty::size_hint returns `%s`, expected (self.len(), Some(self.len()))' % (CAP[mode], prov.show(rv, maxdepth=4)))
        nth = F.method(adt, 'nth', trait='std::iter::Iterator')
        if nth is not None:
            ends_in_next = any(t['func'].get('name') == 'next' for _, t in nth.calls())
            ctx.note('%sGradualDifficulty::nth custom implementation; ends in self.next(): %s (recorded, not judged)' % (CAP[mode], ends_in_next))
    ctx.floor('C15-R3', n, 4, 'mode Iterator::size_hint impls')


def run(ctx):
    F = ctx.facts('default')
    r1(ctx, F)
    r2(ctx, F)
    r3(ctx, F)
    r4_r5(ctx, F)
    r7(ctx, F)
    r8(ctx, F)
    r9(ctx, F)
    r10(ctx, F)
    r11_none_only_from_inner(ctx, F)
    ctx.not_decided('nth(n) == n+1 next calls; len()/size_hint() == number of values still to come; None after exhaustion without panic')


_LEN_EXTRA = {}


def len_value(F, adt, ln):
    """value tree of len(), with every field that only the constructor fills replaced by what the constructor puts there — expressed in the calculator's
    own fields again (`n_total: if count.is_empty() { 0 } else { diff_objects.len() + 1 }` reads as that expression over self.count / self.diff_objects)"""
    import fieldidx
    rv = prov.prov_of(ln).return_value()
    new = F.method(adt, 'new', inherent_only=True)
    if new is None:
        return rv
    rvn = prov.prov_of(new).return_value()
    lits = [x for x in prov.walk(rvn) if x[0] == 'agg' and x[2] == adt]
    if len(lits) != 1:
        return rv
    lit = lits[0][4]
    used = set()
    for x in prov.walk(rv, limit=300):
        pp = as_param_path(x, through_calls=False)
        if x[0] == 'field' and pp is not None and pp[0] == 1 and len(pp[1]) == 1:
            used.add(pp[1][0])
    repl = {}
    for g in used:
        if g not in lit:
            continue
        if any(a['kind'] in ('assign', 'mutborrow') and a['fn'].path != new.path for a in fieldidx.accesses(F, adt, g)):
            continue                                  # the calculator updates it while running (the position): not a constructor constant
        tg = lit[g]
        fty = next((f_['ty'].get('s') for f_ in F.adts[adt]['variants'][0]['fields'] if f_['name'] == g), '') if adt in F.adts else ''
        if fty not in ('usize', 'u32', 'u64') or prov.strip(tg)[0] in ('param', 'const'):
            continue                                  # only a derived count is read through
        others = [(f, prov.strip(v, names={'clone'})) for f, v in lit.items() if f != g and prov.strip(v)[0] not in ('const', 'param')]
        # whatever the constructor looked at to compute it counts as consulted by len() (conditions of the constructor and of a private helper)
        Pn = prov.prov_of(new)
        seen_fields = set()
        cond_trees = [tg]
        for bi, b in enumerate(new.blocks):
            if b['t']['k'] == 'switch' and not b.get('cleanup'):
                cond_trees.append(arms.switch_info(new, bi)['cond'])
        for ct in cond_trees:
            for y in prov.walk(ct, limit=400):
                for f, vf in others:
                    if y == vf:
                        seen_fields.add(f)
        _LEN_EXTRA.setdefault(adt, set()).update(seen_fields)
        tg = prov.inline_all(F, tg, depth=2, _seen=(new.path,), only=lambda f_: not f_.get('trait') and f_.get('is_const', True) is not False and
                             (f_.get('path') or '').startswith(adt.rsplit('::', 1)[0]))

        def back(n_, others=others):
            for f, vf in others:
                if n_ == vf:
                    return ('field', ('param', 1), f)
            return n_
        repl[g] = _map_tree(tg, back)
    if not repl:
        return rv

    def fwd(n_):
        if n_[0] == 'field' and n_[1] == ('param', 1) and n_[2] in repl:
            return repl[n_[2]]
        return n_
    return _map_tree(rv, fwd)


# ---- R4 / R5: the custom len() and nth() of the four mode iterators against next()
def r4_r5(ctx, F):
    import combin
    n4 = n5 = 0
    for mode in MODES:
        adt = gd_adt(mode)
        nxt = F.method(adt, 'next', trait='std::iter::Iterator')
        ln = F.method(adt, 'len', trait='std::iter::ExactSizeIterator')
        nth = F.method(adt, 'nth', trait='std::iter::Iterator')
        if not (nxt and ln and nth):
            ctx.violation('C15-R4', 'anchor-missing:%s' % mode, 'Iterator::{next, nth} / ExactSizeIterator::len of %s not all found' % adt)
            continue
        for f in (nxt, ln, nth):
            ctx.saw(f)
        # R4: collections whose emptiness makes next() return None at once must be consulted by len()
        P = prov.prov_of(nxt)
        empties = set()
        for bi, si, s in nxt.assigns():
            if s['p']['l'] == 0 and 'proj' not in s['p'] and s['rv']['k'] == 'agg' and s['rv'].get('variant') == 'None':
                for c, lab in arms.bool_facts(nxt, bi):
                    c = prov.strip(c, names={'likely', 'unlikely'})
                    if lab == 'true' and c[0] == 'call' and c[1].get('name') == 'is_empty':
                        pp = as_param_path(c[2][0])
                        if pp is not None and pp[0] == 1 and pp[1]:
                            empties.add(pp[1][0])
        lrv = len_value(F, adt, ln)
        reads = set()
        for nn in prov.walk(lrv, limit=300):
            pp = as_param_path(nn)
            if pp is not None and pp[0] == 1 and pp[1] and nn[0] == 'field':
                reads.add(pp[1][0])
        # also fields only tested in conditions of len()
        for bi, b in enumerate(ln.blocks):
            if b['t']['k'] == 'switch' and not b['cleanup']:
                info = arms.switch_info(ln, bi)
                for nn in prov.walk(info['cond'], limit=100):
                    pp = as_param_path(nn)
                    if pp is not None and pp[0] == 1 and pp[1] and nn[0] == 'field':
                        reads.add(pp[1][0])
        reads |= _LEN_EXTRA.get(adt, set())
        n4 += 1
        missing = sorted(empties - reads)
        ctx.require(not missing, 'C15-R4', '%s:len-empty' % mode,
                    '%sGradualDifficulty::len() consults every collection whose emptiness ends next() (%s)' % (CAP[mode], sorted(empties) or 'none'), ln.where(),
                    bad='%sGradualDifficulty::next() returns None at once when self.%s is empty, but len() (%s) never looks at it: an empty calculator announces '
                        'len() >= 1 and then produces nothing' % (CAP[mode], '/'.join(missing), prov.show(lrv, maxdepth=5)))
        # R6: the collection whose `get(idx - 1)?` ends next() is the one len() measures
        term = set()
        for bi, t in nxt.calls():
            if t['func'].get('name') == 'get' and ('slice' in (t['func'].get('path') or '') or 'Vec' in (t['func'].get('path') or '')):
                a = P.call_args(bi)
                pp = as_param_path(a[0])
                if pp is not None and pp[0] == 1 and pp[1] and any(x[0] == 'field' and x[2] == 'idx' for x in prov.walk(a[1], limit=40)):
                    term.add(pp[1][0])
        if term:
            measured = set()
            for nn in prov.walk(lrv, limit=300):
                if nn[0] == 'len' or (nn[0] == 'call' and nn[1].get('name') == 'len'):
                    inner = nn[1] if nn[0] == 'len' else nn[2][0]
                    pp = as_param_path(inner)
                    if pp is not None and pp[0] == 1 and pp[1]:
                        measured.add(pp[1][0])
            ctx.require(measured == term, 'C15-R6', '%s:len-collection' % mode,
                        '%sGradualDifficulty::len() measures self.%s, the collection whose get(idx - 1)? ends next()' % (CAP[mode], '/'.join(sorted(term))), ln.where(),
                        bad='%sGradualDifficulty::next() stops when self.%s runs out, but len() measures self.%s: with a passed_objects limit (or any other '
                            'length difference) len()/size_hint() no longer equal the number of values to come' % (CAP[mode], '/'.join(sorted(term)), '/'.join(sorted(measured)) or '?'))
        # R5: nth(n) must not silently clamp n: a comparison of n with len() has to guard a None return
        Pn = prov.prov_of(nth)
        clamps = []
        for bi, t in nth.calls():
            if t['func'].get('name') == 'min':
                args = Pn.call_args(bi)
                if any(as_param_path(a, through_calls=False) == (2, ()) for a in args):
                    clamps.append(t.get('ln'))
        guarded = False
        for bi, b in enumerate(nth.blocks):
            if b['cleanup'] or b['t']['k'] != 'switch':
                continue
            info = arms.switch_info(nth, bi)
            c = prov.strip(info['cond'], names={'likely', 'unlikely'})
            if c[0] == 'binop' and c[1] in ('Ge', 'Gt', 'Lt', 'Le'):
                sides = [c[2], c[3]]
                has_n = any(as_param_path(x, through_calls=False) == (2, ()) for x in sides)
                has_len = any(x[0] == 'call' and x[1].get('name') == 'len' and as_param_path(x[2][0]) == (1, ()) for x in (prov.strip(y, names=set()) for y in sides))
                if has_n and has_len:
                    # one edge must lead to a None result without going through the clamp
                    for lab, tgt in info['edges']:
                        reg = arms.region(nth, tgt)
                        for rb in reg:
                            for s in nth.blocks[rb]['s']:
                                if s['k'] == 'assign' and s['p']['l'] == 0 and 'proj' not in s['p'] and s['rv']['k'] == 'agg' and s['rv'].get('variant') == 'None':
                                    guarded = True
        n5 += 1
        ctx.require(guarded or not clamps, 'C15-R5', '%s:nth-beyond' % mode,
                    '%sGradualDifficulty::nth(n) returns None when n >= len() (guarded None return%s)' % (CAP[mode], ', then clamps' if clamps else ''), nth.where(),
                    bad='%sGradualDifficulty::nth(n) clamps n with min(n, ..) (line %s) and no comparison of n with len() guards a None return: for n >= len() it yields '
                        'the last value instead of None, so step_by / skip / nth see a different sequence than repeated next()' % (CAP[mode], clamps))
    ctx.floor('C15-R4', n4, 4, 'ExactSizeIterator::len impls')
    ctx.floor('C15-R5', n5, 4, 'custom Iterator::nth impls')


# ---- R7: the caller's n (any usize, usize::MAX included) takes part in overflowing arithmetic only after it has been bounded
BOUNDERS = ('min', 'clamp', 'saturating_add', 'saturating_sub', 'saturating_mul', 'checked_add', 'checked_sub', 'checked_mul',
            'wrapping_add', 'wrapping_sub', 'overflowing_add', 'try_from', 'try_into')
OVERFLOWING = ('Add', 'AddWithOverflow', 'AddUnchecked', 'Mul', 'MulWithOverflow', 'MulUnchecked', 'Shl', 'ShlUnchecked')


def _raw_use(v, idx, depth=0):
    """does the tree reach parameter `idx` without passing through a bounding call"""
    if depth > 40:
        return False
    k = v[0]
    if k == 'param':
        return v[1] == idx
    if k == 'call':
        if v[1].get('name') in BOUNDERS:
            return False
        return any(_raw_use(a, idx, depth + 1) for a in v[2])
    if k == 'phi':
        return any(_raw_use(a, idx, depth + 1) for a in v[1])
    if k == 'binop':
        return _raw_use(v[2], idx, depth + 1) or _raw_use(v[3], idx, depth + 1)
    if k in ('field', 'discr', 'variant', 'unop'):
        return _raw_use(v[1] if k != 'unop' else v[2], idx, depth + 1)
    if k == 'cast':
        return any(isinstance(x, tuple) and _raw_use(x, idx, depth + 1) for x in v[1:])
    return False


def r7(ctx, F):
    n7 = 0
    for fn in F.fns:
        if fn.name not in ('nth', 'nth_back', 'advance_by') or 'gradual' not in fn.path:
            continue
        ins = fn.j.get('inputs') or []
        idxs = [i + 1 for i, t in enumerate(ins) if t.get('s') == 'usize']
        if not idxs:
            continue
        ctx.saw(fn)
        n7 += 1
        nidx = idxs[-1]
        P = prov.prov_of(fn)
        bad = []
        for bi, si, s in fn.assigns():
            rv = s['rv']
            if rv['k'] != 'binop' or rv['op'] not in OVERFLOWING:
                continue
            a, b = P.operand(rv['a'], bi, si), P.operand(rv['b'], bi, si)
            if not (_raw_use(a, nidx) or _raw_use(b, nidx)):
                continue
            # bounded by a dominating comparison of n itself?
            ok = False
            for c, lab in arms.bool_facts(fn, bi):
                c = prov.strip(c, names={'likely', 'unlikely'})
                if c[0] == 'binop' and c[1] in ('Ge', 'Gt', 'Lt', 'Le'):
                    left = as_param_path(c[2], through_calls=False) == (nidx, ())
                    right = as_param_path(c[3], through_calls=False) == (nidx, ())
                    if left == right:
                        continue
                    n_is_smaller_when_true = (c[1] in ('Lt', 'Le')) == left
                    if (lab == 'true') == n_is_smaller_when_true:
                        ok = True
            if not ok:
                bad.append((s.get('ln'), '%s(%s, %s)' % (rv['op'], prov.show(a, maxdepth=2), prov.show(b, maxdepth=2))))
        ctx.require(not bad, 'C15-R7', '%s:n-arith' % fn.path, '%s: the caller\'s n is compared, clamped or saturated before any addition / multiplication' % fn.path, fn.where(),
                    bad='%s computes %s with the caller\'s unbounded n before n has been compared with the remaining length or clamped: nth(usize::MAX) after at least one '
                        'step overflows (panic with overflow checks, wrap-around to an earlier index without) instead of returning None' % (
                            fn.path, '; '.join('%s at line %s' % (e, l) for l, e in bad[:3])))
    ctx.floor('C15-R7', n7, 10, 'nth implementations of the gradual calculators')


# ---- R8: nth()'s bulk step feeds the same skills as next(), under the same private conditions
def _forwards_process(g):
    """a container's `process` that only hands the object on to the `process` of its own fields"""
    return g.name == 'process' and g.kind == 'AssocFn' and not g.impl_trait and any(t['func'].get('name') == 'process' for _, t in g.calls())


def _root_fields(fn, op, depth=0):
    from props.C10 import _root
    return _root(fn, op)


def skill_feeds(F, fn):
    """{receiver field path: set of frozenset(private guard facts)} of the skill `process` calls of fn (container forwarders inlined);
    a private fact is one that does not guard every feed of the function alike"""
    import inline
    g = inline.inlined(F, fn, depth=2, force=_forwards_process)
    sites = []
    for bi, t in g.calls():
        if t['func'].get('name') != 'process' or not t['args']:
            continue
        cal = F.fn(t['func'].get('path') or '')
        if cal is not None and _forwards_process(cal):
            continue                     # an uninlined forwarder (depth bound): reported by the caller as an unknown shape
        r = _root_fields(g, t['args'][0])
        if r is None or r[0] != 1 or len(r) < 2:
            continue
        facts = set()
        for c, lab in arms.bool_facts(g, bi):
            facts.add('%s = %s' % (prov.show(prov.strip(c, names={'likely', 'unlikely'}), maxdepth=6), lab))
        sites.append((tuple(r[1:]), t['func'].get('path') or t['func'].get('name'), facts, t.get('ln')))
    if not sites:
        return {}, g
    common = set.intersection(*[s[2] for s in sites])
    out = {}
    for r, cp, facts, ln in sites:
        out.setdefault(r, set()).add((cp, frozenset(facts - common)))
    return out, g


def r8(ctx, F):
    n = 0
    for mode in MODES:
        adt = gd_adt(mode)
        nxt = F.method(adt, 'next', trait='std::iter::Iterator')
        nth = F.method(adt, 'nth', trait='std::iter::Iterator')
        if not (nxt and nth):
            ctx.violation('C15-R8', 'anchor-missing:%s' % mode, 'Iterator::{next, nth} of %s not found' % adt)
            continue
        a, _ = skill_feeds(F, nxt)
        b, _ = skill_feeds(F, nth)
        if not a:
            ctx.violation('C15-R8', 'anchor-missing:%s:feeds' % mode, '%s::next feeds no skill' % adt, nxt.where())
            continue
        n += len(a)
        if not b:
            # nth() that only repeats next() has no bulk step of its own
            calls_next = any(t['func'].get('name') == 'next' for _, t in nth.calls())
            ctx.require(calls_next, 'C15-R8', '%s:bulk' % mode, '%s::nth has no bulk step: it repeats next()' % adt, nth.where(),
                        bad='%s::nth neither feeds the skills nor repeats next()' % adt)
            continue
        for r in sorted(set(a) | set(b)):
            fa, fb = a.get(r), b.get(r)
            name = '.'.join(r)
            if fa is None or fb is None:
                ctx.violation('C15-R8', '%s:%s' % (mode, name), '%s: the skill `%s` is fed by %s but not by %s: after a bulk step (nth, skip, step_by) the values differ from plain iteration' % (
                    adt, name, 'next()' if fa else 'nth()', 'nth()' if fa else 'next()'), (nth if fa else nxt).where())
                continue
            ga = {g for _, g in fa}
            gb = {g for _, g in fb}
            ctx.require(ga == gb, 'C15-R8', '%s:%s' % (mode, name), '%s: `%s` is fed alike by next() and by the bulk step of nth()' % (adt, name), nth.where(),
                        bad='%s: the skill `%s` is fed under different conditions by next() (%s) and by the bulk step of nth() (%s): nth(n) no longer equals n+1 next() calls' % (
                            adt, name, sorted(map(sorted, ga)) or 'always', sorted(map(sorted, gb)) or 'always'))
    ctx.floor('C15-R8', n, 8, 'skills fed by next() over the four modes')


# ---- R9: the overshoot branch of nth() leaves the calculator exhausted
def _linform(v, depth=0):
    """linear form {atom text: coefficient} of an integer expression (checked / plain Add and Sub, casts transparent); other sub-expressions are atoms"""
    v = prov.strip(v, names={'from', 'into'})
    if depth < 30:
        if v[0] == 'field' and str(v[2]) == '0' and v[1][0] == 'binop' and v[1][1].endswith('WithOverflow'):
            return _linform(('binop', v[1][1][:-len('WithOverflow')], v[1][2], v[1][3]), depth + 1)
        if v[0] == 'cast':
            return _linform(v[2], depth + 1)
        if v[0] == 'binop' and v[1] in ('Add', 'Sub', 'AddUnchecked', 'SubUnchecked'):
            a, b = _linform(v[2], depth + 1), _linform(v[3], depth + 1)
            sgn = 1 if v[1].startswith('Add') else -1
            out = dict(a)
            for k_, c in b.items():
                out[k_] = out.get(k_, 0) + sgn * c
                if out[k_] == 0:
                    del out[k_]
            return out
        if v[0] == 'call' and v[1].get('name') in ('saturating_sub', 'wrapping_sub', 'saturating_add', 'wrapping_add') and len(v[2]) == 2:
            return _linform(('binop', 'Sub' if 'sub' in v[1]['name'] else 'Add', v[2][0], v[2][1]), depth + 1)
    c = prov.const_val(v)
    if c is not None:
        try:
            return {'1': int(c)} if int(c) != 0 else {}
        except ValueError:
            pass
    return {prov.show(v, maxdepth=8): 1}


def r9(ctx, F):
    """`nth(n)` with n >= len() returns None and must have consumed everything.  Draining with next() does that by construction.  A shortcut that only moves
    the position is right only if (a) it moves it to exactly the end len() measures, and (b) next() decides "nothing left" from that position — not
    from a separate cursor the shortcut leaves untouched."""
    n = 0
    for mode in MODES:
        adt = gd_adt(mode)
        nxt = F.method(adt, 'next', trait='std::iter::Iterator')
        nth = F.method(adt, 'nth', trait='std::iter::Iterator')
        ln = F.method(adt, 'len', trait='std::iter::ExactSizeIterator')
        if not (nxt and nth and ln):
            continue                                  # reported by R4
        lrv = len_value(F, adt, ln)
        M = idxf = None
        for alt in (lrv[1] if lrv[0] == 'phi' else [lrv]):
            a = prov.strip(alt, names=set())
            if a[0] == 'field' and str(a[2]) == '0' and a[1][0] == 'binop' and a[1][1] in ('SubWithOverflow', 'Sub'):
                pp = as_param_path(a[1][3], through_calls=False)
                if pp is not None and pp[0] == 1 and len(pp[1]) == 1:
                    M, idxf = a[1][2], pp[1][0]
            elif a[0] == 'call' and a[1].get('name') in ('saturating_sub',) and len(a[2]) == 2:
                pp = as_param_path(a[2][1], through_calls=False)
                if pp is not None and pp[0] == 1 and len(pp[1]) == 1:
                    M, idxf = a[2][0], pp[1][0]
        if M is None:
            ctx.violation('C15-R9', '%s:len-shape' % mode, '%s::len is not `<end> - self.<position>`: %s' % (adt, prov.show(lrv, maxdepth=4)), ln.where())
            continue
        import inline
        nth0 = nth
        _ints = ('usize', 'u32', 'u64', 'isize', 'i32', 'i64', 'bool')
        # helpers of the calculator's module, and pure index arithmetic shared between the modes (`NthAdvance::new(idx, remaining, n)`)
        same_mod = lambda h: not h.impl_trait and h.kind != 'Closure' and len(h.blocks) < 60 and (
            h.path.startswith(adt.rsplit('::', 1)[0]) or (h.j.get('inputs') and all(i_.get('s') in _ints for i_ in h.j['inputs'])))
        nth = inline.inlined(F, nth0, depth=2, force=same_mod, stop=lambda h: not same_mod(h))      # `let Some(take) = self.skip_count(n) else { drain }`
        P = prov.prov_of(nth)
        # overshoot branch: blocks that know `n >= len()`
        over = set()
        for bi in range(len(nth.blocks)):
            if nth.blocks[bi].get('cleanup') or bi not in nth.cfg.reach:
                continue
            for c, lab in arms.bool_facts(nth, bi):
                c = prov.strip(c, names={'likely', 'unlikely'})
                if c[0] == 'discr' and lab in ('None', 'Some'):
                    # `(n < len).then(..)` / `.then_some(..)`: None iff the comparison is false
                    inner_ = prov.strip(c[1], names=set())
                    if inner_[0] == 'call' and inner_[1].get('name') in ('then', 'then_some') and inner_[2]:
                        c, lab = prov.strip(inner_[2][0], names={'likely', 'unlikely'}), ('false' if lab == 'None' else 'true')
                if c[0] != 'binop' or c[1] not in ('Ge', 'Gt', 'Lt', 'Le'):
                    continue
                sides = [prov.strip(x, names=set()) for x in (c[2], c[3])]
                isn = [as_param_path(x, through_calls=False) == (2, ()) for x in sides]
                islen = [x[0] == 'call' and x[1].get('name') == 'len' and as_param_path(x[2][0]) == (1, ()) for x in sides]
                ge = (c[1] in ('Ge', 'Gt') and isn[0] and islen[1] and lab == 'true') or (c[1] in ('Lt', 'Le') and isn[0] and islen[1] and lab == 'false') or \
                     (c[1] in ('Le', 'Lt') and islen[0] and isn[1] and lab == 'true') or (c[1] in ('Ge', 'Gt') and islen[0] and isn[1] and lab == 'false')
                if ge:
                    over.add(bi)
        if not over:
            ctx.violation('C15-R9', '%s:overshoot' % mode, '%s::nth has no branch for n >= len()' % adt, nth0.where())
            continue
        n += 1
        def _is_own_next(t):
            f = t['func']
            if f.get('name') != 'next':
                return False
            txt = ' '.join([f.get('impl_adt') or '', f.get('path') or ''] + list(f.get('targs') or []) + list(f.get('dargs') or []))
            return 'GradualDifficulty' in txt            # Self::next, or <&mut Self as Iterator>::next behind by_ref()
        drains = [bi for bi, t in nth.calls() if bi in over and _is_own_next(t)]
        if drains:
            ctx.ok('C15-R9', '%s:overshoot' % mode, '%s::nth drains with next() when n >= len()' % adt, nth.where())
            continue
        jumps = []
        for bi, si, s_ in nth.assigns():
            if bi in over and s_['p']['l'] == 1 and [e.get('f') for e in s_['p'].get('proj', []) if isinstance(e, dict) and 'f' in e] == [idxf]:
                jumps.append((bi, s_, P.rvalue(s_['rv'], bi, si)))
        bad = None
        if not jumps:
            bad = 'the n >= len() branch neither drains with next() nor moves the position: the calculator is not exhausted after returning None'
        else:
            for bi, s_, v in jumps:
                if _linform(v) != _linform(M):
                    bad = 'the n >= len() branch sets self.%s = `%s`, but len() measures `%s - self.%s` and the two are not the same expression: unless they agree for every map and every passed_objects, the position passes ' \
                          '(len() underflows) or misses the end' % (idxf, prov.show(v, maxdepth=4)[:120], prov.show(M, maxdepth=4)[:120], idxf)
            if bad is None:
                # (b) what makes next() stop?
                Pn = prov.prov_of(nxt)
                for b2, b in enumerate(nxt.blocks):
                    t = b['t']
                    if b.get('cleanup') or not (t['k'] == 'call' and t['func'].get('name') == 'from_residual' and t.get('dest') and t['dest']['l'] == 0):
                        continue
                    for c, lab in arms.bool_facts(nxt, b2):
                        if lab not in ('Break', 'None') or c[0] != 'discr':
                            continue
                        src = [x for x in prov.walk(c, limit=200) if x[0] == 'call' and x[1].get('name') != 'branch']
                        uses_idx = any(as_param_path(x, through_calls=False) == (1, (idxf,)) for x in prov.walk(c, limit=400))
                        if src and not uses_idx:
                            cur = as_param_path(src[0][2][0]) if src[0][2] else None
                            curf = cur[1][0] if cur and cur[0] == 1 and cur[1] else None
                            touched = any(t2['args'] and (as_param_path(P.call_args(b3)[0]) or (0, ('',)))[1][:1] == (curf,) for b3, t2 in nth.calls() if b3 in over) or \
                                any(b3 in over and s3['p']['l'] == 1 and [e.get('f') for e in s3['p'].get('proj', []) if isinstance(e, dict) and 'f' in e][:1] == [curf] for b3, _, s3 in nth.assigns())
                            if not touched:
                                bad = 'the n >= len() branch only moves self.%s, but next() decides "nothing left" from `%s` (self.%s), which the branch leaves where it was: ' \
                                      'after nth() returned None, next() produces values again' % (idxf, prov.show(src[0], maxdepth=3)[:100], curf)
        ctx.require(bad is None, 'C15-R9', '%s:overshoot' % mode, '%s::nth: the n >= len() branch jumps to exactly the end len() measures, and next() stops by that position' % adt, nth.where(),
                    bad='%s::nth: %s' % (adt, bad))
    ctx.floor('C15-R9', n, 4, 'nth() overshoot branches')


# ---- R10: positions and step counts are different quantities
POS, DELTA, POLY, MIXED = 'position', 'step count', 'const', 'mixed'


def _dim(v, idxf, depth=0, memo=None):
    """dimension of an integer value tree inside a gradual calculator method: `position` (absolute: self.<idx>, lengths / totals kept in self),
    `step count` (relative: the caller's n, len() = what is left, distances between positions), `const` (fits either), `mixed` (cannot tell)"""
    if memo is None:
        memo = {}
    if id(v) in memo:
        return memo[id(v)]
    memo[id(v)] = MIXED
    v0 = v
    v = prov.strip(v, names={'from', 'into'})
    r = MIXED
    if depth > 40:
        r = MIXED
    elif prov.const_val(v) is not None:
        r = POLY
    elif v[0] == 'param':
        r = DELTA if v[1] == 2 else MIXED
    elif v[0] == 'cast':
        r = _dim(v[2], idxf, depth + 1, memo)
    elif v[0] == 'field' and str(v[2]) == '0' and v[1][0] == 'binop' and v[1][1].endswith('WithOverflow'):
        r = _dim(('binop', v[1][1][:-len('WithOverflow')], v[1][2], v[1][3]), idxf, depth + 1, memo)
    elif v[0] == 'field':
        pp = as_param_path(v, through_calls=False)
        if pp is not None and pp[0] == 1 and pp[1]:
            r = POS if pp[1][-1] == idxf or pp[1][-1].startswith(('total', 'n_', 'len')) else MIXED
    elif v[0] in ('len',):
        r = POS
    elif v[0] == 'phi':
        ds = {_dim(a, idxf, depth + 1, memo) for a in v[1]} - {POLY}
        r = POLY if not ds else (ds.pop() if len(ds) == 1 else MIXED)
    elif v[0] == 'binop' and v[1] in ('Add', 'Sub', 'AddUnchecked', 'SubUnchecked'):
        a, b = _dim(v[2], idxf, depth + 1, memo), _dim(v[3], idxf, depth + 1, memo)
        add = v[1].startswith('Add')
        if MIXED in (a, b):
            r = MIXED
        elif a == POLY and b == POLY:
            r = POLY
        elif add:
            r = POS if POS in (a, b) and (a, b) != (POS, POS) else (DELTA if POS not in (a, b) else MIXED)
        else:
            if a == POS and b == POS:
                r = DELTA
            elif a == POS:
                r = POS                      # position - steps / const
            elif b == POS:
                r = DELTA                    # const - position: the distance to a fixed position
            else:
                r = DELTA
    elif v[0] == 'call':
        nm = v[1].get('name')
        if nm in ('min', 'max') and len(v[2]) == 2:
            ds = {_dim(a, idxf, depth + 1, memo) for a in v[2]} - {POLY}
            r = POLY if not ds else (ds.pop() if len(ds) == 1 else MIXED)
        elif nm in ('saturating_sub', 'wrapping_sub', 'checked_sub', 'saturating_add', 'wrapping_add') and len(v[2]) == 2:
            r = _dim(('binop', 'Sub' if 'sub' in nm else 'Add', v[2][0], v[2][1]), idxf, depth + 1, memo)
        elif nm == 'len' and v[2]:
            pp = as_param_path(v[2][0])
            if pp is not None and pp[0] == 1:
                r = DELTA if not pp[1] else POS          # len() of the calculator = what is left; length of a collection it owns = an end position
        elif nm in ('unwrap_or', 'unwrap_or_default', 'unwrap') and v[2]:
            r = _dim(v[2][0], idxf, depth + 1, memo)
    memo[id(v0)] = r
    return r


def r10(ctx, F):
    """A private helper keyed by "how many objects have been passed" must be asked with a position everywhere.  Handing it the number of objects skipped by
    THIS call (a step count) is right only when the step starts at position 0."""
    n = 0
    for mode in MODES:
        adt = gd_adt(mode)
        ln = F.method(adt, 'len', trait='std::iter::ExactSizeIterator')
        if ln is None:
            continue
        idxf = None
        lrv = len_value(F, adt, ln)
        for x in prov.walk(lrv, limit=200):
            if x[0] == 'binop' and x[1] in ('SubWithOverflow', 'Sub'):
                pp = as_param_path(x[3], through_calls=False)
                if pp is not None and pp[0] == 1 and len(pp[1]) == 1:
                    idxf = pp[1][0]
        if idxf is None:
            continue
        uses = {}                 # (helper path, parameter index) -> {dimension: [(caller, line, shown)]}
        for fn in F.fns:
            if fn.self_adt != adt or fn.kind != 'AssocFn' or not fn.j.get('inputs') or 'GradualDifficulty' not in str(fn.j['inputs'][0].get('s')):
                continue
            P = prov.prov_of(fn)
            for bi, t in fn.calls():
                f = t['func']
                g = F.fn(f.get('path') or '') if f.get('local') else None
                if g is None or g.impl_trait or g.path == fn.path or g.name in ('next', 'nth', 'len', 'new'):
                    continue
                args = P.call_args(bi)
                at_origin = any(prov.strip(c, names={'likely', 'unlikely'})[0] == 'binop' and prov.strip(c)[1] == 'Eq' and lab == 'true' and
                                as_param_path(prov.strip(c)[2], through_calls=False) == (1, (idxf,)) and prov.const_val(prov.strip(c)[3]) == '0'
                                for c, lab in arms.bool_facts(fn, bi))
                for i, inp in enumerate(g.j.get('inputs') or []):
                    if inp.get('s') not in ('usize', 'u32', 'u64', 'isize', 'i32', 'i64') or i >= len(args):
                        continue
                    d = _dim(args[i], idxf)
                    if d == DELTA and at_origin:
                        d = POLY                # counted from position 0 a step count IS a position
                    uses.setdefault((g.path, i + 1), {}).setdefault(d, []).append((fn, t.get('ln'), prov.show(args[i], maxdepth=3)[:60]))
        for (gp, k), dims in sorted(uses.items()):
            n += 1
            both = POS in dims and DELTA in dims
            ctx.require(not both, 'C15-R10', '%s:%s#%d' % (mode, gp.split('::')[-1], k), '%s parameter %d is asked with %s' % (gp, k, sorted(dims)), F.fn(gp).where(),
                        bad='%s: parameter %d receives a position (`%s` in %s, line %s) at one call and a step count (`%s` in %s, line %s) at another: the two agree only for a step that starts at '
                            'position 0 — after one next(), nth(k >= 1) looks up the wrong entry' % (
                                gp, k, dims.get(POS, [(None, 0, '')])[0][2], (dims.get(POS) or [(ln,)])[0][0].name, dims.get(POS, [(0, 0)])[0][1],
                                dims.get(DELTA, [(None, 0, '')])[0][2], (dims.get(DELTA) or [(ln,)])[0][0].name, dims.get(DELTA, [(0, 0)])[0][1]) if both else '')
    ctx.ok('C15-R10', 'scan', '%d integer parameter(s) of private helpers called from the gradual calculators classified as position / step count' % n)


# ---- R11: the performance iterators answer None only because the difficulty iterator did (seed C15-7: `if self.failed { return None }` with an unchanged len())
def r11_none_only_from_inner(ctx, F):
    """`len()` of every gradual performance calculator is the inner difficulty iterator's len() (R1).  "None exactly when nothing remains" then requires that
    `nth` cannot answer None on its own: every alternative of its result (phi alternatives, `?` residuals, combinators expanded) is derived from a call of the inner
    iterator's `nth`.  A literal None behind a private flag is a stop that len() knows nothing about."""
    import combin
    n = 0
    types = [(gp_adt(m), CAP[m] + 'GradualPerformance') for m in MODES] + [(GP, 'GradualPerformance')]
    for adt, short in types:
        f = F.method(adt, 'nth', inherent_only=True)
        if f is None:
            ctx.violation('C15-R11', 'anchor-missing:%s::nth' % short, 'method not found')
            continue
        ctx.saw(f)
        rv = prov.prov_of(f).return_value()
        rv = prov.inline_all(F, rv, depth=2, _seen=(f.path,), only=lambda f_: (f_.get('impl_adt') or '') == adt and not f_.get('trait') and
                             f_.get('name') not in ('nth', 'next', 'last', 'len'))
        rv = combin.expand(F, rv)

        def alts(v, depth=0):
            v = prov.strip(v, names=set())
            if v[0] == 'phi' and depth < 6:
                out = []
                for a in v[1]:
                    out += alts(a, depth + 1)
                return out
            return [v]
        bad = []
        k = 0
        for a in alts(rv):
            k += 1
            inner = any(x[0] == 'call' and x[1].get('name') == 'nth' and 'Gradual' in (x[1].get('path') or '') for x in prov.walk(a, limit=3000))
            if not inner:
                bad.append(prov.show(a, maxdepth=2)[:60])
        n += k
        if bad and all(b_.startswith('std::option::Option::None') for b_ in bad):
            # a literal None is still the inner iterator's answer when it is written under the None edge of a test of that very call
            # (`let Some(attrs) = self.difficulty.nth(n) else { return None };`)
            lits = [bi for bi, si, s_ in f.assigns() if s_['rv']['k'] == 'agg' and s_['rv'].get('adt') == 'std::option::Option' and s_['rv'].get('variant') == 'None'
                    and any('PerformanceAttributes' in str(t_) for t_ in (s_['rv'].get('targs') or []))]

            def _under_inner_none(bi):
                for c_, lab in arms.guards_of(f, bi):
                    if 'None' in lab.split('|') and any(x[0] == 'call' and x[1].get('name') == 'nth' and 'Gradual' in (x[1].get('path') or '') for x in prov.walk(c_, limit=400)):
                        return True
                return False
            if lits and all(_under_inner_none(bi) for bi in lits):
                bad = []
        ctx.require(not bad, 'C15-R11', 'none-from-inner:' + short, '%s::nth: each of the %d alternatives of its result comes from the inner iterator\'s nth()' % (short, k), f.where(),
                    bad='%s::nth can answer `%s` without asking the inner iterator: it stops on a condition of its own while len() still reports the inner iterator\'s '
                        'remaining count — None no longer means "nothing remains"' % (short, '` / `'.join(bad)))
    ctx.floor('C15-R11', n, 5, 'result alternatives of the five performance nth()')
