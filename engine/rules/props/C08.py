"""C08 — equivalent settings, different spelling."""
import re

import arms
import fieldidx
import prov
from common import as_param_path
from facts import callee_path

EXPLANATION = (
    "R1: every GameMods accessor that matches on {Lazer, Intermode, Legacy} is summarised arm by arm (mod identifier "
    "tested -> constant result, identifiers normalised across the three representations); the arms must agree on every "
    "mod of the property's universe, and the Legacy arm may be the constant `false` iff rosu_mods::GameModsLegacy has no "
    "associated constant of that name (resolved through tcx, so the rule adjusts itself when rosu-mods changes): the 14 "
    "has-mod accessors, mania_keys (number in the variant name = returned constant) and reflection (HardRock -> "
    "Vertical in all three). R2: GameMods::clock_rate is called only by Difficulty::get_clock_rate and as the None "
    "fallback of the attribute builder; GameMods::{ar,cs,hp,od} are used only as the mods_fn of ModsDependentKind::value; "
    "the override fields of Difficulty are read only by their get_*, by inspect and by derived impls — a calculator "
    "reading the mod value directly would ignore an explicit override. Numerical equality of results and lazer per-mod "
    "settings are NOT decided."
    " R3: no accessor lets the iteration order of the mod collection decide between mutually exclusive mod families (DT/NC vs HT/DC, HR vs EZ): a find/find_map over the mod list whose closure answers for kinds of both sides is reported, earlier dominating searches and filter predicates taken into account; rosu-mods' legacy_clock_rate (such a search) is not used."
    " R4: every attribute-builder chain that a calculator drives to build()/hit_windows() is configured through .difficulty(..) — the one override-aware funnel — and no individual setting setter precedes it (private helpers read through)."
    " R5: the representation of GameMods (which of Lazer / Intermode / Legacy a value is) is inspected only inside model::mods — by the accessors R1 summarises and the derived impls; "
    "a calculator that matches on the variant itself (a cache filled by a `Legacy` fast path, say) answers per spelling outside the rule that compares the spellings."
)

GM = 'model::mods::GameMods'
DIFF = 'any::difficulty::Difficulty'
WORDS = {'One': 1, 'Two': 2, 'Three': 3, 'Four': 4, 'Five': 5, 'Six': 6, 'Seven': 7, 'Eight': 8, 'Nine': 9, 'Ten': 10}


def mod_ident(v):
    """normalised identifier of a mod constant operand: ('HardRock', representation)"""
    v = prov.strip(v)
    if v[0] == 'agg' and v[2].endswith('GameModIntermode'):
        return v[3], 'intermode'
    if v[0] == 'const':
        d = v[1].get('def') or ''
        if 'GameModsLegacy::' in d:
            # two legacy constants carry another name than the mod they stand for (rosu-mods 0.3.1, read: legacy.rs `KeyCoop = 1 << 25`, generated_mods.rs
            # `DualStages => Some(33554432)`; `Target = 1 << 23`, `TargetPractice => Some(8388608)`)
            nm = d.split('::')[-1]
            return {'KeyCoop': 'DualStages', 'Target': 'TargetPractice'}.get(nm, nm), 'legacy'
        if 'GameModIntermode' in (v[1].get('ty') or '') and v[1].get('val'):
            return v[1]['val'], 'intermode'
    return None, None


def has_mod_summary(v):
    """('contains', ident, repr) | ('const', 'false'/'true') | None"""
    v = prov.strip(v, names=set())
    if v[0] == 'call' and v[1].get('name') in ('contains', 'contains_intermode') and len(v[2]) == 2:
        ident, rep = mod_ident(v[2][1])
        return ('contains', ident, rep, v[1].get('path'))
    if v[0] == 'const' and v[1].get('val') in ('true', 'false'):
        return ('const', v[1]['val'])
    return None


def keys_number(name):
    m = re.fullmatch(r'(One|Two|Three|Four|Five|Six|Seven|Eight|Nine|Ten)Keys?', name or '')
    if m:
        return WORDS[m.group(1)]
    m = re.fullmatch(r'Key(\d+)', name or '')
    if m:
        return int(m.group(1))
    return None


def run(ctx):
    F = ctx.facts('default')
    legacy = F.foreign_adts.get('rosu_mods::GameModsLegacy')
    if not legacy:
        ctx.violation('C08-R1', 'anchor-missing:GameModsLegacy', 'associated constants of rosu_mods::GameModsLegacy not available')
        return
    legacy_consts = set(legacy['consts'])
    legacy_consts |= {new_ for old_, new_ in (('KeyCoop', 'DualStages'), ('Target', 'TargetPractice')) if old_ in legacy_consts}     # same aliases as mod_ident
    # ---- R1: has-mod family = methods of GameMods returning bool whose arms are contains(..)/const
    n_has = 0
    for f in F.methods(adt=GM, inherent_only=True):
        if f.j['output']['s'] != 'bool' or len(f.j['inputs']) != 1:
            continue
        cond, vals = arms.arm_return_values(f)
        if set(vals) != {'Lazer', 'Intermode', 'Legacy'}:
            # accessor written as a call of one shared private look-up (`self.has_mod(Intermode::X, Some(Legacy::X))`): specialise
            # that helper on the constant arguments and read its three arms
            vals = via_shared_lookup(F, f)
            if vals is None:
                continue
        sums = {k: has_mod_summary(v) if v is not None else None for k, v in vals.items()}
        if any(s is None for s in sums.values()) and any(s is not None and s[0] == 'contains' for s in sums.values()):
            bad_arms = [k for k, s_ in sums.items() if s_ is None]
            ctx.violation('C08-R1', 'has:' + f.name, 'GameMods::%s: arm(s) %s are not a plain membership test while the other arms are (%s): the representations can disagree'
                          % (f.name, bad_arms, {k: prov.show(v, maxdepth=3)[:80] for k, v in vals.items()}), f.where())
            n_has += 1
            continue
        if any(s is None for s in sums.values()):
            ctx.note('GameMods::%s matches on the representation but is not a plain has-mod accessor: %s' % (f.name, {k: prov.show(v, maxdepth=3)[:80] for k, v in vals.items()}))
            continue
        ctx.saw(f)
        n_has += 1
        key = 'has:' + f.name
        la, im, lg = sums['Lazer'], sums['Intermode'], sums['Legacy']
        if la[0] != 'contains' or im[0] != 'contains':
            ctx.violation('C08-R1', key, 'GameMods::%s: Lazer/Intermode arms are not membership tests: %s / %s' % (f.name, la, im), f.where())
            continue
        if la[1] != im[1]:
            ctx.violation('C08-R1', key, 'GameMods::%s tests `%s` on lazer mods but `%s` on intermode mods: the same mods answer differently depending on how they are spelled'
                          % (f.name, la[1], im[1]), f.where())
            continue
        mod = la[1]
        if lg[0] == 'contains':
            ctx.require(lg[1] == mod, 'C08-R1', key, 'GameMods::%s tests %s in all three representations' % (f.name, mod), f.where(),
                        bad='GameMods::%s tests `%s` for lazer/intermode but GameModsLegacy::%s for legacy bits' % (f.name, mod, lg[1]))
        else:
            if lg[1] == 'false':
                ctx.require(mod not in legacy_consts, 'C08-R1', key, 'GameMods::%s: legacy arm is `false` and GameModsLegacy has no `%s` flag' % (f.name, mod), f.where(),
                            bad='GameMods::%s answers `false` for legacy bits although GameModsLegacy::%s exists: u32 / GameModsLegacy mods lose the mod' % (f.name, mod))
            else:
                ctx.violation('C08-R1', key, 'GameMods::%s: legacy arm is the constant `%s`' % (f.name, lg[1]), f.where())
    ctx.floor('C08-R1', n_has, 14, 'has-mod accessors')
    # ---- mania_keys
    mk = F.method(GM, 'mania_keys', inherent_only=True)
    if mk is None:
        ctx.violation('C08-R1', 'anchor-missing:mania_keys', 'GameMods::mania_keys not found')
    else:
        ctx.saw(mk)
        P = prov.prov_of(mk)
        sws = arms.enum_switches(mk)
        dom = mk.cfg.dom()
        sws.sort(key=lambda x: len(dom.get(x[0], ())))
        info = sws[0][1]
        rows = {}
        for label, tgt in info['edges']:
            reg = arms.region(mk, tgt)
            table = {}
            for bi in sorted(reg):
                for si, s in enumerate(mk.blocks[bi]['s']):
                    if s['k'] == 'assign' and s['p']['l'] == 0 and 'proj' not in s['p']:
                        v = P.rvalue(s['rv'], bi, si)
                        if v[0] == 'agg' and v[3] == 'Some':
                            k = prov.const_val(v[4]['0'])
                            facts = [c for c, lab in arms.bool_facts(mk, bi) if lab == 'true']
                            tested = None
                            for c in reversed(facts):
                                hs = has_mod_summary(c)
                                if hs and hs[0] == 'contains':
                                    tested = hs[1]
                                    break
                            table[tested] = k
            if not table:
                table = table_driven_arm(F, mk, label) or table
            rows[label] = table
        want = {'Lazer': set(range(1, 11)), 'Intermode': set(range(1, 11)), 'Legacy': set(range(1, 10))}
        nrows = 0
        for label, table in rows.items():
            got = set()
            for name, k in table.items():
                nrows += 1
                num = keys_number(name)
                try:
                    kv = float(k)
                except (TypeError, ValueError):
                    kv = None
                ctx.require(num is not None and kv == float(num), 'C08-R1', 'mania_keys:%s:%s' % (label, name), '%s arm: %s -> Some(%s)' % (label, name, k), mk.where(),
                            bad='mania_keys (%s arm): key mod `%s` yields Some(%s)' % (label, name, k))
                if num:
                    got.add(num)
            miss = want.get(label, set()) - got
            ctx.require(not miss, 'C08-R1', 'mania_keys:%s:complete' % label, '%s arm covers %s' % (label, sorted(got)), mk.where(),
                        bad='mania_keys (%s arm) does not handle key mod(s) %s' % (label, sorted(miss)))
        ctx.floor('C08-R1', nrows, 29, 'mania_keys rows')
    # ---- reflection
    rf = F.method(GM, 'reflection', inherent_only=True)
    if rf is None:
        ctx.violation('C08-R1', 'anchor-missing:reflection', 'GameMods::reflection not found')
    else:
        ctx.saw(rf)
        import inline
        rf0 = rf
        rf = inline.inlined(F, rf, depth=2)        # private helpers turning the membership test into the reflection are read through
        P = prov.prov_of(rf)
        sws = arms.enum_switches(rf)
        dom = rf.cfg.dom()
        sws = [s for s in sws if prov.show(s[1]['cond']) == 'discr(param#1)']
        sws.sort(key=lambda x: len(dom.get(x[0], ())))
        info = sws[0][1] if sws else None
        hits = {}
        if info:
            for label, tgt in info['edges']:
                reg = arms.region(rf, tgt)
                for bi in sorted(reg):
                    for si, s in enumerate(rf.blocks[bi]['s']):
                        if s['k'] == 'assign' and s['rv']['k'] == 'agg' and s['rv'].get('variant') == 'Vertical' and (s['rv'].get('adt') or '').endswith('Reflection'):
                            facts = [has_mod_summary(c) for c, lab in arms.bool_facts(rf, bi) if lab == 'true']
                            facts = [x for x in facts if x and x[0] == 'contains']
                            if facts:
                                hits[label] = facts[-1][1]
        # lazer arm: a closure — or a local function handed to the search by name — matching on GameMod variants
        elem_fns = list(F.all_closures_of(rf0))
        for b in rf0.blocks:
            ops = list(b['t'].get('args', [])) if b['t']['k'] == 'call' else []
            for o in ops:
                if isinstance(o, dict) and o.get('k') == 'const' and 'fn' in o and o['fn'].get('local'):
                    g = F.fn(o['fn'].get('path') or '')
                    if g is not None:
                        elem_fns.append(g)
        for c in elem_fns:
            ctx.saw(c)
            for bb, cinfo in arms.enum_switches(c):
                Pc = prov.prov_of(c)
                for lab, tgt in cinfo['edges']:
                    for bi in arms.region(c, tgt):
                        for si, s in enumerate(c.blocks[bi]['s']):
                            if s['k'] == 'assign' and s['rv']['k'] == 'agg' and s['rv'].get('variant') == 'Vertical' and s['rv']['adt'].endswith('Reflection'):
                                if lab.startswith('HardRock'):
                                    hits['Lazer'] = 'HardRock'
        rf = rf0
        for label in ('Lazer', 'Intermode', 'Legacy'):
            ctx.require(hits.get(label) == 'HardRock', 'C08-R1', 'reflection:' + label, '%s arm: HardRock -> Reflection::Vertical' % label, rf.where(),
                        bad='reflection(): in the %s arm Reflection::Vertical is tied to `%s`, not HardRock' % (label, hits.get(label)))
    r3_iteration_order(ctx, F)
    import funnel
    funnel.check(ctx, F, 'C08-R4')
    # ---- R2 who-may-call
    callers = F.callers()
    cr = [c for c in callers.get('model::mods::GameMods::clock_rate', [])]
    allowed = re.compile(r'^(any::difficulty::Difficulty::get_clock_rate|model::beatmap::attributes::BeatmapAttributesBuilder::(hit_windows|build))(::\{closure#\d+\})?$')
    for fn, bi, t in cr:
        ctx.require(bool(allowed.match(fn.path)) or fallback_of_override(F, fn, bi), 'C08-R2', 'clock_rate-caller:' + fn.path, 'GameMods::clock_rate called from %s (override-aware)' % fn.path, fn.where(t['ln']),
                    bad='%s reads the mods\' clock rate directly: an explicit Difficulty::clock_rate override is ignored there' % fn.path)
    ctx.floor('C08-R2', len(cr), 2, 'callers of GameMods::clock_rate (Difficulty::get_clock_rate and the attribute builder)')
    nfn = 0
    per_name = {}
    for name in ('ar', 'cs', 'hp', 'od'):
        path = 'model::mods::GameMods::%s' % name
        direct = callers.get(path, [])
        for fn, bi, t in direct:
            ctx.violation('C08-R2', 'attr-call:%s:%s' % (name, fn.path), '%s calls GameMods::%s directly: a Difficulty::%s override is ignored there' % (fn.path, name, name), fn.where(t['ln']))
        # as function value: only as argument of ModsDependentKind::value (directly, or through a helper / closure that only forwards it)
        for fn in F.fns:
            Pf = None
            for bi, t in fn.calls():
                hit = []
                for ai, a in enumerate(t['args']):
                    if a.get('k') == 'const' and 'fn' in a and a['fn'].get('path') == path:
                        hit.append(ai + 1)
                if not hit and any(a.get('k') in ('move', 'copy') for a in t['args']) and '{closure#' in (callee_path(t) or ''):
                    # closure call: the arguments travel in a tuple
                    Pf = Pf or prov.prov_of(fn)
                    args = Pf.call_args(bi)
                    if len(args) == 2 and args[1][0] == 'agg' and args[1][1] == 'tuple':
                        items = args[1][-1]
                        for i, x in enumerate(items.values() if isinstance(items, dict) else items):
                            while x[0] == 'cast':
                                x = next((y for y in x[1:] if isinstance(y, tuple) and y and isinstance(y[0], str)), ('unknown',))
                            if x[0] == 'const' and isinstance(x[1], dict) and (x[1].get('fn') or {}).get('path') == path:
                                hit.append(i + 2)
                for k in hit:
                    nfn += 1
                    per_name[name] = per_name.get(name, 0) + 1
                    ok = callee_path(t) == VALUE_FN or forwards_to_value(F, callee_path(t), k)
                    ctx.require(ok, 'C08-R2', 'attr-fn:%s:%s' % (name, fn.path), 'GameMods::%s used as mods_fn of ModsDependentKind::value in %s' % (name, fn.path), fn.where(t['ln']),
                                bad='GameMods::%s is passed to %s in %s' % (name, callee_path(t), fn.path))
    ctx.floor('C08-R2', nfn, 4, 'uses of GameMods::{ar,cs,hp,od} as mods_fn')
    for name in ('ar', 'cs', 'hp', 'od'):
        ctx.floor('C08-R2', per_name.get(name, 0), 1, 'uses of GameMods::%s as mods_fn' % name)
    for fld in ('clock_rate', 'ar', 'cs', 'hp', 'od'):
        readers = set()
        for a in fieldidx.accesses(F, DIFF, fld):
            if a['kind'] in ('read', 'borrow', 'move', 'mutborrow'):
                readers.add(a['fn'])
        bad = [fn for fn in readers if not (fn.self_adt == DIFF and fn.kind == 'AssocFn' and fn.j.get('output', {}).get('adt') == DIFF)
               and not (fn.self_adt == DIFF and (fn.name in ('get_' + fld, 'inspect', fld) or fn.impl_trait in (
            'std::fmt::Debug', 'std::clone::Clone', 'std::cmp::PartialEq', 'std::default::Default'))) and not (fn.kind == 'Closure' and fn.path.startswith('any::difficulty::Difficulty::get_' + fld))
               # the inspection view may be produced by `Difficulty::inspect` or by its `From<Difficulty>` twin
               and not (fn.impl_trait == 'std::convert::From' and ((fn.impl_self or {}).get('s') or '').endswith('InspectDifficulty'))]
        # a private `&self` accessor of the slot is fine when everybody who calls it is an allowed reader itself
        def _accessor_ok(fn_):
            if fn_.self_adt != DIFF or fn_.kind != 'AssocFn' or str(fn_.j.get('vis')).startswith('Public'):
                return False
            cs = callers.get(fn_.path, [])
            okc = lambda c: c.self_adt == DIFF and (c.name in ('get_' + fld, 'inspect', fld) or c.impl_trait in ('std::fmt::Debug', 'std::cmp::PartialEq')) or \
                (c.kind == 'Closure' and c.path.startswith('any::difficulty::Difficulty::get_' + fld)) or \
                (c.impl_trait == 'std::convert::From' and ((c.impl_self or {}).get('s') or '').endswith('InspectDifficulty'))
            return bool(cs) and all(okc(c[0]) for c in cs)
        bad = [fn for fn in bad if not _accessor_ok(fn)]
        for fn in bad:
            ctx.violation('C08-R2', 'field-read:%s:%s' % (fld, fn.path), '%s reads Difficulty.%s directly instead of through get_%s (mods fallback bypassed)' % (fn.path, fld, fld), fn.where())
        ctx.ok('C08-R2', 'field-read:' + fld, 'Difficulty.%s is read only by %s' % (fld, sorted({fn.path.split('::')[-1] if fn.kind != 'Closure' else 'closure' for fn in readers})))
    # get_clock_rate falls back to mods.clock_rate()
    g = F.method(DIFF, 'get_clock_rate', inherent_only=True)
    if g is not None:
        import combin
        rv = prov.inline_all(F, prov.prov_of(g).return_value(), depth=1, _seen=(g.path,), only=lambda f_: (f_.get('impl_adt') or '') == DIFF and not f_.get('trait') and
                             not str((F.fn(f_.get('path') or '') or g).j.get('vis')).startswith('Public'))
        rv = combin.expand(F, rv)
        has_fb = any(x[0] == 'call' and prov.callee(x) == 'model::mods::GameMods::clock_rate' and as_param_path(x[2][0]) == (1, ('mods',)) for x in prov.walk(rv, limit=300))
        has_ov = any(as_param_path(x) == (1, ('clock_rate',)) or (as_param_path(x) or (0, ()))[1][:1] == ('clock_rate',) for x in prov.walk(rv, limit=300) if x[0] in ('field', 'variant'))
        ctx.require(has_fb and has_ov, 'C08-R2', 'get_clock_rate', 'get_clock_rate = explicit override, else self.mods.clock_rate()', g.where(),
                    bad='Difficulty::get_clock_rate no longer combines the explicit override with the mods\' clock rate')
    r5_representation_private(ctx, F)
    ctx.assume('rosu-mods 0.3.1: contains / contains_intermode / legacy_clock_rate agree for legacy-representable mods')
    ctx.not_decided('numerical equality of results across representations; lazer per-mod settings (speed change values, DifficultyAdjust values)')


VALUE_FN = 'model::beatmap::attributes::ModsDependentKind::value'


def forwards_to_value(F, path, k, depth=0):
    """local function `path` uses its parameter k only by handing it on as the mods_fn of ModsDependentKind::value (or to another such forwarder)"""
    if depth > 2:
        return False
    h = F.fn(path)
    if h is None:
        return False
    P = prov.prov_of(h)
    handed = [0]

    def accepted(cp, args, i):
        return as_param_path(args[i], through_calls=False) == (k, ()) and (cp == VALUE_FN or forwards_to_value(F, cp, i + 1, depth + 1))

    def other_use(v, d=0):
        """does v use parameter k other than as the forwarded argument of an accepted call"""
        if d > 30:
            return True
        if v[0] == 'param':
            return v[1] == k
        if v[0] == 'call':
            cp = v[1].get('path') or ''
            for i, a in enumerate(v[2]):
                if a == ('param', k) and accepted(cp, v[2], i):
                    handed[0] += 1
                    continue
                if other_use(a, d + 1):
                    return True
            return False
        for x in v[1:]:
            if isinstance(x, tuple) and x and isinstance(x[0], str) and other_use(x, d + 1):
                return True
            if isinstance(x, (list, tuple)) and x and isinstance(x[0], tuple):
                if any(other_use(y, d + 1) for y in x if isinstance(y, tuple) and y and isinstance(y[0], str)):
                    return True
            if isinstance(x, dict):
                if any(other_use(y, d + 1) for y in x.values() if isinstance(y, tuple) and y and isinstance(y[0], str)):
                    return True
        return False

    for bi, t in h.calls():
        node = ('call', t['func'], P.call_args(bi))
        if other_use(node):
            return False
    return handed[0] > 0


def const_table(F, cpath):
    """rows of a constant array of tuples, read from the constant's initialiser MIR: [[operand json, ...], ...] in order"""
    c = next((c for c in F.j.get('consts', []) if c.get('path') == cpath), None)
    if c is None or 'mir' not in c:
        return None
    blocks = c['mir']['blocks']
    tuples = {}
    units = {}
    order = None
    for b in blocks:
        for s_ in b['s']:
            if s_['k'] != 'assign' or 'proj' in s_['p']:
                continue
            rv = s_['rv']
            if rv['k'] == 'agg' and rv.get('ak') == 'tuple':
                # a unit enum variant built into a temporary first (`_2 = Intermode::OneKey; _1 = (move _2, 1.0)`) reads as that variant
                tuples[s_['p']['l']] = [units.get(o['p']['l'], o) if o.get('k') in ('move', 'copy') and 'proj' not in o['p'] else o for o in rv['ops']]
            elif rv['k'] == 'agg' and rv.get('ak') == 'adt' and rv.get('enum') and not rv.get('ops'):
                units[s_['p']['l']] = {'k': 'const', 'def': '%s::%s' % (rv['adt'], rv['variant']), 'val': rv['variant']}
            elif rv['k'] == 'agg' and rv.get('ak') == 'array' and s_['p']['l'] == 0:
                order = rv['ops']
    if order is None:
        return None
    rows = []
    for o in order:
        if o.get('k') in ('move', 'copy') and 'proj' not in o['p'] and o['p']['l'] in tuples:
            rows.append(tuples[o['p']['l']])
        else:
            return None
    return rows


def table_driven_arm(F, mk, label):
    """`TABLE.iter().find(|(m, _)| mods.contains(*m)).map(|&(_, k)| k)`: first match in table order — the same decision list as the
    if-chain. Returns {mod name: key constant} or None"""
    _, vals = arms.arm_return_values(mk)
    v = vals.get(label)
    if v is None:
        return None
    import combin
    v = prov.strip(v, names={'copied', 'cloned'})
    if v[0] == 'call' and v[1].get('local') and not v[1].get('trait') and v[1].get('name') not in ('map', 'find'):
        # the search lives in a shared local helper that receives the membership test as a closure: read its body with the arguments bound
        v = prov.strip(prov.inline_call(F, v), names={'copied', 'cloned'})
    if not (v[0] == 'call' and v[1].get('name') == 'map' and len(v[2]) == 2):
        return None
    fnd, proj = v[2]
    if not (fnd[0] == 'call' and fnd[1].get('name') == 'find' and len(fnd[2]) == 2):
        return None
    it, pred = fnd[2]
    if not (it[0] == 'call' and it[1].get('name') == 'iter' and it[2] and it[2][0][0] == 'const' and it[2][0][1].get('def')):
        return None
    rows = const_table(F, it[2][0][1]['def'])
    if not rows or pred[0] != 'agg' or pred[1] != 'closure' or proj[0] != 'agg' or proj[1] != 'closure':
        return None
    pg, jg = F.fn(pred[2]), F.fn(proj[2])
    if pg is None or jg is None:
        return None
    # predicate with its captures bound (and a captured membership closure applied): contains(<the arm's mods>, element.<i>)
    prv = prov.strip(combin.expand(F, prov.subst(prov.prov_of(pg).return_value(), {1: pred})), names=set())
    jrv = prov.strip(prov.prov_of(jg).return_value())
    if not (prv[0] == 'call' and prv[1].get('name') in ('contains', 'contains_intermode') and len(prv[2]) == 2):
        return None
    recv, elem = prv[2]
    elem = prov.strip(elem)
    if not (elem[0] == 'field' and elem[1] == ('param', 2) and str(elem[2]).isdigit()):
        return None
    if not any(n[0] == 'variant' and n[2] == label for n in prov.walk(recv, limit=40)) or any(n == ('param', 2) for n in prov.walk(recv, limit=40)):
        return None
    if not (jrv[0] == 'field' and jrv[1] == ('param', 2) and str(jrv[2]).isdigit()):
        return None
    ki, vi = int(elem[2]), int(jrv[2])
    out = {}
    for ops in rows:
        if max(ki, vi) >= len(ops):
            return None
        name = (ops[ki].get('rdef') or ops[ki].get('def') or '').split('::')[-1]
        if not name or name in out:
            continue            # a later duplicate can never be the first match
        out[name] = ops[vi].get('val')
    return out


def fallback_of_override(F, fn, bi):
    """the call of GameMods::clock_rate in block bi of fn only supplies the fallback of an Option-typed `clock_rate` override:
    `self.clock_rate.unwrap_or_else(|| mods.clock_rate())`, `.map_or(mods.clock_rate(), f)`, `.unwrap_or(..)`, or the None arm of a match"""
    def on_override(v):
        return any(n[0] == 'field' and n[2] == 'clock_rate' for n in prov.walk(v, limit=60))

    if fn.kind == 'Closure':
        parent = F.fn(fn.path.rsplit('::', 1)[0])
        if parent is None:
            return False
        P = prov.prov_of(parent)
        for pb, pt in parent.calls():
            if pt['func'].get('name') in ('unwrap_or_else', 'map_or_else', 'or_else'):
                args = P.call_args(pb)
                if args and on_override(args[0]) and any(a[0] == 'agg' and a[1] == 'closure' and a[2] == fn.path for a in args[1:]):
                    return True
        return False
    P = prov.prov_of(fn)
    for ob, ot in fn.calls():
        if ot['func'].get('name') in ('map_or', 'unwrap_or'):
            args = P.call_args(ob)
            if args and on_override(args[0]) and any(any(n[0] == 'call' and (n[1].get('path') or '') == 'model::mods::GameMods::clock_rate' for n in prov.walk(a, limit=40))
                                                      for a in args[1:2]):
                return True
    for c, lab in arms.bool_facts(fn, bi) + [(c, l) for c, l in arms.guards_of(fn, bi)]:
        if c[0] == 'discr' and on_override(c[1]) and lab == 'None':
            return True
    return False


def via_shared_lookup(F, f):
    rv = prov.strip(prov.prov_of(f).return_value(), names=set())
    if rv[0] != 'call' or not rv[1].get('local') or (rv[1].get('impl_adt') or '') != GM or not rv[2] or rv[2][0] != ('param', 1):
        return None
    h = F.fn(rv[1].get('path') or '')
    if h is None:
        return None
    sp = arms.specialized_paths(h, rv[2])
    if not sp:
        return None
    vals = {}
    for rest, val in sp:
        labs = [lab for c, lab in rest if c[0] == 'discr' and c[1] == ('param', 1)]
        others = [c for c, lab in rest if not (c[0] == 'discr' and c[1] == ('param', 1))]
        if len(labs) != 1 or others or labs[0] in vals:
            return None
        vals[labs[0]] = val
    return vals if set(vals) == {'Lazer', 'Intermode', 'Legacy'} else None


# ---- R3: no value may be decided by the *iteration order* of the mod collection between two mutually exclusive mod families
FAMILIES = [
    ('clock rate', {'DoubleTime', 'Nightcore'}, {'HalfTime', 'Daycore'}),
    ('attribute scaling', {'HardRock'}, {'Easy'}),
]
SEARCHES = ('find_map', 'find', 'position', 'rposition', 'find_map_any')
MODE_SUFFIX = re.compile(r'(Osu|Taiko|Catch|Mania)$')


def _kinds_of(F, cl_tree, want_bool=False):
    """mod kinds for which the closure can answer Some(..) (or `true` for a predicate): read from its switch on the mod's kind"""
    while cl_tree[0] == 'cast':
        cl_tree = next((y for y in cl_tree[1:] if isinstance(y, tuple) and y and isinstance(y[0], str)), ('unknown',))
    if cl_tree[0] == 'agg' and cl_tree[1] == 'closure':
        cl = F.fn(cl_tree[2])
    elif cl_tree[0] == 'const' and isinstance(cl_tree[1], dict) and cl_tree[1].get('fn'):
        cl = F.fn(cl_tree[1]['fn'].get('path') or '')          # a function item handed to the search directly
    else:
        return None
    if cl is None:
        return None
    cond, vals = arms.arm_return_values(cl)
    if not vals:
        # `|m| classify(m.intermode())`: the decision sits in a local helper
        rv = prov.strip(prov.prov_of(cl).return_value(), names=set())
        g = F.fn(rv[1].get('path') or '') if rv[0] == 'call' and rv[1].get('local') else None
        if g is not None:
            cond, vals = arms.arm_return_values(g)
    if not vals:
        return None
    kinds = set()
    for label, v in vals.items():
        if v is None:
            continue
        alts = v[1] if v[0] == 'phi' else [v]
        hit = False
        for a in alts:
            a = prov.strip(a, names=set())
            if want_bool:
                hit = hit or not (a[0] == 'const' and a[1].get('val') == 'false')
            else:
                hit = hit or not (a[0] == 'agg' and a[3] == 'None')
        if hit:
            for lab in label.split('|'):
                kinds.add(MODE_SUFFIX.sub('', lab))
    return kinds


def r3_iteration_order(ctx, F):
    n = 0
    for fn in F.fns:
        if not fn.path.startswith('model::mods::') or fn.kind == 'Closure':
            continue
        P = prov.prov_of(fn)
        sites = []
        for bi, t in fn.calls():
            if t['func'].get('name') not in SEARCHES:
                continue
            args = P.call_args(bi)
            if len(args) < 2 or not any(x[0] == 'call' and x[1].get('name') == 'iter' and x[1].get('krate') == 'rosu_mods' for x in prov.walk(args[0], limit=60)):
                continue
            kinds = _kinds_of(F, prov.strip(args[1], names=set()))
            if kinds is None:
                continue
            it = prov.strip(args[0], names={'by_ref', 'copied', 'cloned'})
            if it[0] == 'call' and it[1].get('name') == 'filter' and len(it[2]) == 2:
                fk = _kinds_of(F, prov.strip(it[2][1], names=set()), want_bool=True)
                if fk is not None:
                    kinds &= fk
            sites.append((bi, t, kinds))
        # a later search only decides among the kinds no earlier (dominating) search answers for
        for bi, t, kinds in sites:
            earlier = set()
            for bj, tj, kj in sites:
                if bj != bi and fn.cfg.dominates(bj, bi):
                    earlier |= kj
            fresh = kinds - earlier
            n += 1
            for fam, a, b in FAMILIES:
                both = (fresh & a) and (fresh & b)
                ctx.require(not both, 'C08-R3', '%s:%s' % (fn.path.split('::', 2)[-1], fam),
                            '%s: the search over the mod list decides within one %s family (%s)' % (fn.path, fam, sorted(fresh & (a | b)) or 'none'), fn.where(t.get('ln')),
                            bad='%s picks the first of %s in the ITERATION ORDER of the mod collection: when mods of both %s families are present (legacy bits allow it) the '
                                'lazer/intermode representation follows the collection order while the legacy bits follow a fixed precedence, so the same mod set gives '
                                'different results depending on how it is spelled' % (fn.path, sorted(fresh & (a | b)), fam))
    ctx.floor('C08-R3', n, 3, 'searches over the lazer mod list in model::mods (10 today)')
    # the intermode helper of rosu-mods is such a search (find_map over DT|NC -> 1.5, HT|DC -> 0.75 in collection order)
    callers = F.callers().get('rosu_mods::GameModsIntermode::legacy_clock_rate', [])
    for fn, bi, t in callers:
        ctx.violation('C08-R3', 'legacy_clock_rate:' + fn.path, '%s calls GameModsIntermode::legacy_clock_rate, which answers in the iteration order of the collection (HalfTime before '
                      'DoubleTime) while GameModsLegacy::clock_rate prefers DoubleTime: DT+HT given as bits and as intermode mods get different clock rates' % fn.path, fn.where(t.get('ln')))
    if not callers:
        ctx.ok('C08-R3', 'legacy_clock_rate', 'GameModsIntermode::legacy_clock_rate (iteration-order precedence) is not used')


# ---- R5: who may look at the representation (seed C08-7: a mod-flag cache with a `GameMods::Legacy` fast path in the osu! performance calculator)
def _representation_inspectors(F):
    """(inside, outside): functions that read the discriminant of a GameMods value, split by whether they belong to model::mods"""
    inside, outside = [], []
    for fn in F.fns:
        locs = (fn.j.get('mir') or {}).get('locals') or []
        sites = []
        for bi, b in enumerate(fn.blocks):
            for s_ in b['s']:
                if s_.get('k') == 'assign' and s_['rv']['k'] == 'discr':
                    p_ = s_['rv']['p']
                    ty = locs[p_['l']] if p_['l'] < len(locs) else {}
                    if (ty.get('to_adt') or ty.get('adt')) == GM or any(isinstance(e, dict) and e.get('adt') == GM for e in p_.get('proj', [])):
                        sites.append(s_.get('ln'))
        if not sites:
            continue
        if fn.path.startswith('model::mods::') or (fn.self_adt == GM) or ('<' + GM + ' as ') in fn.path:
            inside.append((fn, sites))
        else:
            outside.append((fn, sites))
    return inside, outside


def r5_representation_private(ctx, F):
    inside, outside = _representation_inspectors(F)
    for fn, sites in outside:
        ctx.saw(fn)
        ctx.violation('C08-R5', 'inspects:' + fn.path, '%s matches on the representation of GameMods (Lazer / Intermode / Legacy) itself: outside model::mods a value must be asked '
                      'through the accessors, which are compared across the three spellings (C08-R1); a per-representation branch here can answer differently for the same mods' % fn.path,
                      fn.where(sites[0]))
    n = len(inside)
    ctx.floor('C08-R5', n, 3, 'functions of model::mods that switch on the GameMods representation (28 today; a shared lookup helper may leave only a few)')
    if n:
        ctx.ok('C08-R5', 'representation-private', 'the GameMods variant is inspected by %d functions, all inside model::mods' % n)
    # the expected count outside is zero: the fixture crate keeps one offender and one accessor-only caller
    fi, fo = _representation_inspectors(ctx.fixture())
    names = {f_.path for f_, _ in fo}
    ctx.control('C08-R5', 'c08::peeks_at_representation' in names, 'a function outside model::mods that matches on GameMods::Legacy')
    ctx.control('C08-R5', 'c08::asks_the_accessor' not in names and any(f_.path.endswith('GameMods::rx') for f_, _ in fi),
                'negative control: the accessor inside model::mods and its caller are not reported')
