"""C01 — determinism and purity: effect analysis (absence facts)."""
import re

import prov
from common import BEATMAP, is_pointer_check_noise, leaves
from facts import callee_path

EXPLANATION = (
    "Effect analysis over the type-checked program (all bodies of the crate, resolved callees): no source of "
    "nondeterminism (time, env, thread identity, hasher state, fs/io outside the decoder entry, mutable or "
    "lazily initialised globals, thread-locals) is reachable (R1); no order-sensitive consumption of a randomly "
    "seeded hash container (R2); no address is observed (R3); Beatmap is deeply immutable behind & and every "
    "calculation entry takes &Beatmap, no const->mut cast exists (R4); PRNG seeds derive from inputs and "
    "constants only (R5). Absence facts are decided exhaustively; nothing numeric is needed for this property.")

BANNED_CALL = [
    (r'^<?std::time::', 'time'),
    (r'^<?std::env::', 'environment'),
    (r'^<?std::process::', 'process'),
    (r'^<?std::thread::', 'thread'),
    (r'std::(collections::)?hash(_map)?::(RandomState|DefaultHasher)', 'hasher state'),
    (r'^<?std::hash::(RandomState|DefaultHasher)', 'hasher state'),
    (r'BuildHasher>::(build_hasher|hash_one)', 'hasher state'),
    (r'^<?std::fs::', 'filesystem'),
    (r'^<?std::io::(?!Error|error)', 'io'),
    (r'^<?std::net::', 'network'),
    (r'^<?std::os::', 'os'),
    (r'^<?(std|core)::sync::atomic::', 'atomic'),
    (r'^<?std::sync::(poison::)?(rwlock::|mutex::|once_lock::|lazy_lock::)?(Once|OnceLock|LazyLock|Mutex|RwLock|Condvar)(::|<)', 'sync global / lock'),
    (r'^<?std::sync::mpsc::', 'sync global / lock'),
    (r'^<?(std|core)::cell::(OnceCell|LazyCell)', 'lazy cell'),
    (r'^<?(std|core)::(alloc|intrinsics)::.*(random|rdtsc)', 'random intrinsic'),
    (r'(^|::)(rand|fastrand|getrandom|rand_core|rand_chacha)::', 'rng crate'),
    (r'^<?std::thread::LocalKey', 'thread local'),
    (r'^<?std::any::type_name', 'type name'),
    (r'^<?(std|core)::panic::Location', 'caller location'),
]

# sync primitives are allowed only inside the crate's own feature-gated wrapper module, which is
# judged by C10/C20 (guard discipline, ownership of the graph)
ALLOW_IN = {
    'sync global / lock': r'^(<)?util::sync::',
    # reading the input is what the decoding entry points are for (the property is about calculations on a decoded map); a reimplementation of
    # rosu_map::from_path inside Beatmap::from_path opens the file itself.  One symbol each, plus the private reader helper they share.
    'filesystem': r'^model::beatmap::Beatmap::from_path$',
    'io': r'^model::beatmap::Beatmap::(from_path|from_bytes|from_reader)$',
}

BANNED_TYPES = [
    (r'std::time::(Instant|SystemTime)', 'time'),
    (r'std::thread::(LocalKey|ThreadId|Thread\b)', 'thread'),
    (r'std::sync::(OnceLock|LazyLock|Once\b)', 'lazy global'),
    (r'std::cell::(OnceCell|LazyCell)', 'lazy cell'),
    (r'(RandomState|DefaultHasher)(?!>)', 'hasher state'),
]

HASH_TY = re.compile(r'std::collections::(hash_map::|hash_set::)?Hash(Map|Set)<')
HASH_ITER_TY = re.compile(r'std::collections::hash_(map|set)::(Iter|IterMut|IntoIter|Keys|Values|ValuesMut|IntoKeys|'
                          r'IntoValues|Drain|ExtractIf|Difference|Intersection|Union|SymmetricDifference)\b')
HASH_ITER_METHODS = {'iter', 'iter_mut', 'into_iter', 'keys', 'values', 'values_mut', 'into_keys', 'into_values',
                     'drain', 'retain', 'extract_if', 'difference', 'intersection', 'union',
                     'symmetric_difference'}
ORDER_NEUTRAL_ADAPTERS = {'map', 'filter', 'filter_map', 'copied', 'cloned', 'inspect', 'flat_map', 'flatten',
                          'by_ref', 'into_iter', 'peekable', 'fuse', 'map_while'}
ORDER_INSENSITIVE_CONSUMERS = {'count', 'all', 'any', 'len', 'is_empty'}
# consumers that are insensitive when the item type is an integer (wrapping-free addition commutes)
INT_ONLY_CONSUMERS = {'sum', 'product', 'min', 'max'}


def banned_sources(F, ctx, rule, report=True):
    """R1: returns list of (fn, what, detail, loc)"""
    found = []
    for fn in F.fns:
        for bi, t in fn.calls():
            if t.get('exp') and any(m in ('format_args', 'panic', 'assert', 'debug_assert', 'unreachable', 'write',
                                          'writeln')
                                    for m in ()):
                continue
            p = callee_path(t)
            d = t['func'].get('decl', '')
            for rx, what in BANNED_CALL:
                if re.search(rx, p) or re.search(rx, d):
                    allow = ALLOW_IN.get(what)
                    if allow and re.search(allow, fn.path):
                        continue
                    found.append((fn, what, 'call of %s' % p, fn.where(t['ln'])))
                    break
        for bi, si, s in fn.assigns():
            if s['rv']['k'] == 'tls':
                found.append((fn, 'thread local', 'thread-local reference %s' % s['rv']['def'], fn.where(s['ln'])))
        seen = set()
        for ty in fn.locals:
            for rx, what in BANNED_TYPES:
                if re.search(rx, ty['s']) and (what, ty['s']) not in seen:
                    allow = ALLOW_IN.get(what)
                    if allow and re.search(allow, fn.path):
                        continue
                    seen.add((what, ty['s']))
                    found.append((fn, what, 'local of type %s' % ty['s'], fn.where()))
    return found


def banned_statics(F):
    out = []
    for s in F.statics:
        if s['mut']:
            out.append((s, 'static mut'))
        elif s['thread_local']:
            out.append((s, 'thread-local static'))
        elif not s['freeze']:
            out.append((s, 'static with interior mutability'))
    return out


def banned_fields(F):
    out = []
    for a in F.adts.values():
        for v in a['variants']:
            for f in v['fields']:
                for rx, what in BANNED_TYPES:
                    if re.search(rx, f['ty']['s']):
                        out.append((a, f, what))
    return out


def hash_iterations(F):
    """R2: every call that starts an iteration over a std HashMap/HashSet, with its consumer chain.
    returns list of dict(fn, bb, term, consumers=[(name, term)], verdict, why)"""
    out = []
    for fn in F.fns:
        for bi, t in fn.calls():
            f = t['func']
            name = f.get('name')
            if name not in HASH_ITER_METHODS:
                continue
            selfish = ' '.join([f.get('self_ty') or '', f.get('impl_self') or ''] + (f.get('dargs') or [])[:1])
            first_arg_ty = None
            if t['args'] and t['args'][0]['k'] in ('copy', 'move'):
                a = t['args'][0]['p']
                if 'proj' not in a:
                    first_arg_ty = fn.locals[a['l']]['s']
            recv = (first_arg_ty or '') + ' ' + selfish
            if not HASH_TY.search(recv):
                continue
            if HASH_ITER_TY.search(first_arg_ty or '') and name == 'into_iter':
                continue  # into_iter on an already started hash iterator: same chain
            if name == 'retain':
                out.append(dict(fn=fn, bb=bi, term=t, chain=['retain'], verdict='violation',
                                why='retain visits entries in hash order (closure may be order-sensitive)'))
                continue
            chain, verdict, why = follow_iterator(fn, bi, t)
            out.append(dict(fn=fn, bb=bi, term=t, chain=chain, verdict=verdict, why=why))
    return out


def follow_iterator(fn, bb, t):
    """forward chase of the iterator produced at call `t`: adapters are followed, the first
    non-adapter use decides"""
    chain = [t['func'].get('name')]
    cur_locals = set()
    d = t['dest']
    if 'proj' in d:
        return chain, 'violation', 'iterator stored into a place'
    cur_locals.add(d['l'])
    for _ in range(12):
        # propagate through moves / reborrows
        grew = True
        while grew:
            grew = False
            for bi, si, s in fn.assigns():
                rv = s['rv']
                src = None
                if rv['k'] == 'use' and rv['op']['k'] in ('copy', 'move'):
                    src = rv['op']['p']
                elif rv['k'] == 'ref':
                    src = rv['p']
                if src is not None and src['l'] in cur_locals and 'proj' not in s['p'] and s['p']['l'] not in cur_locals:
                    cur_locals.add(s['p']['l'])
                    grew = True
        uses = []
        for bi, tt in fn.calls():
            if tt is t:
                continue
            for ai, a in enumerate(tt['args']):
                if a['k'] in ('copy', 'move') and a['p']['l'] in cur_locals:
                    uses.append((bi, tt, ai))
        if not uses:
            return chain, 'violation', 'hash-order iterator escapes (returned or stored)'
        nxt = set()
        for bi, tt, ai in uses:
            name = tt['func'].get('name')
            chain.append(name)
            if name in ORDER_INSENSITIVE_CONSUMERS:
                continue
            if name in INT_ONLY_CONSUMERS:
                dt = fn.locals[tt['dest']['l']]['s'] if 'proj' not in tt['dest'] else ''
                if re.fullmatch(r'(std::option::Option<)?&?[iu](8|16|32|64|128|size)>?', dt):
                    continue
                return chain, 'violation', '%s over non-integer items depends on visiting order' % name
            if name == 'collect':
                dt = fn.locals[tt['dest']['l']]['s'] if 'proj' not in tt['dest'] else ''
                if re.search(r'(BTreeMap|BTreeSet|HashMap|HashSet)<', dt):
                    continue
                return chain, 'violation', 'collect into an ordered container (%s) keeps hash order' % dt
            if name in ORDER_NEUTRAL_ADAPTERS and ai == 0 and 'proj' not in tt['dest']:
                nxt.add(tt['dest']['l'])
                continue
            if name == 'drop':
                continue
            return chain, 'violation', 'consumer `%s` observes the visiting order' % name
        if not nxt:
            return chain, 'ok', 'all consumers are order-insensitive'
        cur_locals = nxt
    return chain, 'violation', 'adapter chain too long to follow'


def address_observations(F):
    out = []
    for fn in F.fns:
        for bi, si, s in fn.assigns():
            rv = s['rv']
            if rv['k'] == 'cast':
                if is_pointer_check_noise(fn, bi, s):
                    continue
                ck = rv['ck']
                frm, to = rv['from'], rv['to']
                if ck == 'PointerExposeProvenance':
                    out.append((fn, 'pointer-to-integer cast (%s as %s)' % (frm['s'], to['s']), fn.where(s['ln'])))
                elif ck == 'Transmute' and frm['k'] in ('ref', 'refmut', 'rawconst', 'rawmut', 'fnptr') \
                        and to['k'] in ('int', 'uint'):
                    out.append((fn, 'transmute pointer to integer (%s -> %s)' % (frm['s'], to['s']), fn.where(s['ln'])))
            elif rv['k'] == 'binop' and rv['op'] in ('Lt', 'Le', 'Gt', 'Ge') and rv['aty'].startswith('*'):
                out.append((fn, 'ordering comparison of raw pointers (%s)' % rv['aty'], fn.where(s['ln'])))
        for bi, t in fn.calls():
            p = callee_path(t)
            if re.search(r'::(addr|expose_provenance|expose_addr)$', p) and re.search(r'ptr::|NonNull', p):
                out.append((fn, 'call of %s' % p, fn.where(t['ln'])))
            elif re.search(r'as std::fmt::Pointer>::fmt|fmt::Pointer', p):
                out.append((fn, 'pointer formatting %s' % p, fn.where(t['ln'])))
            elif re.search(r'^<\*(const|mut) .* as std::(cmp::(Ord|PartialOrd)|hash::Hash)>', p):
                out.append((fn, 'pointer ordering / hashing %s' % p, fn.where(t['ln'])))
            elif re.search(r'fmt::Arguments', p) is None and re.search(r'fmt::rt::Argument.*::new_pointer', p):
                out.append((fn, 'pointer formatting (format_args {:p})', fn.where(t['ln'])))
    return out


def mutability_casts(F):
    out = []
    for fn in F.fns:
        for bi, si, s in fn.assigns():
            rv = s['rv']
            if rv['k'] != 'cast':
                continue
            frm, to = rv['from'], rv['to']
            ck = rv['ck']
            if ck in ('PtrToPtr', 'Transmute') or ck.startswith('PointerCoercion'):
                if frm['k'] in ('rawconst', 'ref') and to['k'] in ('rawmut', 'refmut'):
                    out.append((fn, 'cast %s -> %s (%s) adds mutability' % (frm['s'], to['s'], ck), fn.where(s['ln'])))
        for bi, t in fn.calls():
            p = callee_path(t)
            if re.search(r'const_ptr::<impl \*const T>::(cast_mut|as_mut)|UnsafeCell::<T>::(get|raw_get)|'
                         r'NonNull::<T>::(from|new_unchecked)$', p) and re.search(r'cast_mut|UnsafeCell', p):
                out.append((fn, 'call of %s' % p, fn.where(t['ln'])))
    return out


CALC_ENTRIES = [
    # (adt or None, fn name, human label)
    (DIFF := 'any::difficulty::Difficulty', 'calculate'),
    (DIFF, 'strains'),
    (DIFF, 'calculate_for_mode'),
    (DIFF, 'strains_for_mode'),
    (DIFF, 'gradual_difficulty'),
    (DIFF, 'gradual_performance'),
    (DIFF, 'gradual_difficulty_for_mode'),
    (DIFF, 'gradual_performance_for_mode'),
    (BEATMAP, 'bpm'),
    (BEATMAP, 'attributes'),
    (BEATMAP, 'check_suspicion'),
    (BEATMAP, 'convert_ref'),
    (BEATMAP, 'total_break_time'),
    ('any::difficulty::gradual::GradualDifficulty', 'new'),
    ('any::performance::gradual::GradualPerformance', 'new'),
    ('osu::difficulty::gradual::OsuGradualDifficulty', 'new'),
    ('taiko::difficulty::gradual::TaikoGradualDifficulty', 'new'),
    ('catch::difficulty::gradual::CatchGradualDifficulty', 'new'),
    ('mania::difficulty::gradual::ManiaGradualDifficulty', 'new'),
    ('osu::performance::gradual::OsuGradualPerformance', 'new'),
    ('taiko::performance::gradual::TaikoGradualPerformance', 'new'),
    ('catch::performance::gradual::CatchGradualPerformance', 'new'),
    ('mania::performance::gradual::ManiaGradualPerformance', 'new'),
]

RNG_NEW = re.compile(r'^util::random::(osu|csharp)::Random::new$')


def seed_sites(F, rng_re=RNG_NEW):
    out = []
    for fn in F.fns:
        for bi, t in fn.calls():
            if rng_re.search(callee_path(t)):
                out.append((fn, bi, t))
    return out


def seed_verdict(F, fn, bi, t):
    P = prov.prov_of(fn)
    args = P.call_args(bi)
    bad = []
    for a in args:
        for n in prov.walk(a):
            k = n[0]
            if k == 'unknown':
                bad.append('unmodelled value (%s)' % n[1])
            elif k == 'cast' and n[1] in ('PointerExposeProvenance',):
                bad.append('pointer-to-integer cast in seed')
            elif k == 'cast' and n[1] == 'Transmute' and not re.match(r'^[fiu]\d+$', n[3] or ''):
                pass
            elif k == 'call':
                p = prov.callee(n)
                for rx, what in BANNED_CALL:
                    if re.search(rx, p):
                        bad.append('seed depends on %s (%s)' % (what, p))
    return bad, [prov.show(a, maxdepth=6) for a in args]


def run(ctx):
    F = ctx.facts('default')
    fx = ctx.fixture()
    configs = [F]
    if ctx.tier == 'thorough':
        for c in ('raw_strains', 'sync', 'raw_strains+sync'):
            configs.append(ctx.facts(c))

    # ---- R1 ------------------------------------------------------------------------------------
    for G in configs:
        tag = '' if G is F else '[%s]' % G.config
        found = banned_sources(G, ctx, 'C01-R1')
        for fn, what, detail, loc in found:
            ctx.violation('C01-R1', '%s%s:%s' % (tag, fn.path, what), '%s in %s' % (detail, fn.path), loc)
        for s, what in banned_statics(G):
            ctx.violation('C01-R1', '%sstatic:%s' % (tag, s['path']), '%s %s: %s' % (what, s['path'], s['ty']),
                          '%s:%s' % (s['loc'][0], s['loc'][1]))
        for a, f, what in banned_fields(G):
            ctx.violation('C01-R1', '%sfield:%s.%s' % (tag, a['path'], f['name']),
                          'field of type %s (%s)' % (f['ty']['s'], what), '%s:%s' % (a['loc'][0], a['loc'][1]))
        ncalls = sum(1 for fn in G.fns for _ in fn.calls())
        ctx.ok('C01-R1', '%sscan' % tag, '%d bodies, %d resolved call sites, %d statics, %d ADTs scanned against %d '
               'banned-source patterns: %d hits' % (len(G.fns), ncalls, len(G.statics), len(G.adts),
                                                    len(BANNED_CALL) + len(BANNED_TYPES), len(found)))
        for s in G.statics:
            if not s['mut'] and s['freeze'] and not s['thread_local']:
                ctx.ok('C01-R1', '%sstatic-ok:%s' % (tag, s['path']), 'immutable Freeze static %s: %s' % (s['path'], s['ty']))
        for fn in G.fns:
            ctx.saw(fn)
    # positive controls
    fxfound = banned_sources(fx, ctx, 'C01-R1')
    whats = {(fn.path, what) for fn, what, _, _ in fxfound}
    for fnp, what in [('c01::uses_time', 'time'), ('c01::uses_env', 'environment'), ('c01::uses_thread_id', 'thread'),
                      ('c01::uses_fs', 'filesystem'), ('c01::hash_values', 'hasher state'),
                      ('c01::tls', 'thread'), ('c01::memo', 'sync global / lock')]:
        ctx.control('C01-R1', (fnp, what) in whats, '%s (%s)' % (fnp, what))
    st = {(s['path'], w) for s, w in banned_statics(fx)}
    ctx.control('C01-R1', ('c01::COUNTER', 'static mut') in st, 'static mut COUNTER')
    ctx.control('C01-R1', ('c01::CACHE', 'static with interior mutability') in st, 'static OnceLock CACHE')
    ctx.control('C01-R1', any(w == 'thread-local static' for _, w in st), 'thread_local! static')

    # ---- R2 ------------------------------------------------------------------------------------
    for G in configs:
        tag = '' if G is F else '[%s]' % G.config
        its = hash_iterations(G)
        # containers (types) seen
        hash_users = set()
        for fn in G.fns:
            for l in fn.locals:
                if HASH_TY.search(l['s']):
                    hash_users.add(fn.path)
        for it in its:
            fn = it['fn']
            key = '%s%s:%s' % (tag, fn.path, '>'.join(x or '?' for x in it['chain'][:2]))
            if it['verdict'] == 'ok':
                ctx.ok('C01-R2', key, 'hash iteration consumed order-insensitively: %s' % ' -> '.join(it['chain']),
                       fn.where(it['term']['ln']))
            else:
                ctx.violation('C01-R2', key,
                              'iteration over a RandomState-seeded hash container reaches an order-sensitive use: %s (%s)'
                              % (' -> '.join(x or '?' for x in it['chain']), it['why']), fn.where(it['term']['ln']))
        ctx.ok('C01-R2', '%sscan' % tag, '%d function(s) touch a std HashMap/HashSet (%s); %d iteration site(s)' % (
            len(hash_users), ', '.join(sorted(hash_users)) or '-', len(its)))
    fxits = {(i['fn'].path, i['verdict']) for i in hash_iterations(fx)}
    ctx.control('C01-R2', ('c01::hash_order', 'violation') in fxits, 'into_iter().max_by over HashMap')
    ctx.control('C01-R2', ('c01::hash_for_loop', 'violation') in fxits, 'for loop over &HashSet')
    ctx.control('C01-R2', ('c01::hash_first', 'violation') in fxits, 'keys().copied().next()')
    ctx.control('C01-R2', ('c01::hash_count', 'ok') in fxits, 'negative control: values().filter().count() accepted')
    ctx.control('C01-R2', not any(p == 'c01::hash_lookup' for p, _ in fxits), 'negative control: entry/get/len not an iteration')

    # ---- R3 ------------------------------------------------------------------------------------
    for G in configs:
        tag = '' if G is F else '[%s]' % G.config
        obs = address_observations(G)
        for fn, what, loc in obs:
            ctx.violation('C01-R3', '%s%s:%s' % (tag, fn.path, what.split(' (')[0]), what, loc)
        ctx.ok('C01-R3', '%sscan' % tag, 'no pointer-to-integer cast, pointer ordering/hash/formatting in %d bodies: %d hits'
               % (len(G.fns), len(obs)))
    fo = {fn.path for fn, _, _ in address_observations(fx)}
    for p in ('c01::addr_cmp', 'c01::ptr_order', 'c01::ptr_fmt', 'c01::seeded_from_addr'):
        ctx.control('C01-R3', p in fo, p)

    # ---- R4 ------------------------------------------------------------------------------------
    for G in configs:
        tag = '' if G is F else '[%s]' % G.config
        a = G.adts.get(BEATMAP)
        if not a:
            ctx.violation('C01-R4', tag + 'anchor-missing:Beatmap', 'type %s not found' % BEATMAP)
            continue
        if a['deep']:
            for d in a['deep']:
                ctx.violation('C01-R4', '%sdeep:%s%s' % (tag, d['via'], ':' + d['what']),
                              'Beatmap%s contains %s (%s): mutation behind & becomes possible' % (d['via'], d['ty'], d['what']),
                              '%s:%s' % (a['loc'][0], a['loc'][1]))
        else:
            nfields = sum(len(v['fields']) for v in a['variants'])
            ctx.ok('C01-R4', tag + 'deep:Beatmap', 'type closure of Beatmap (%d direct fields, walked through all local '
                   'and dependency ADTs) has no UnsafeCell / raw pointer / dyn / fn pointer; Freeze=%s'
                   % (nfields, a['traits'].get('Freeze')))
        ctx.require(a['traits'].get('Freeze') is True and a['traits'].get('Sync') is True, 'C01-R4',
                    tag + 'freeze:Beatmap', 'Beatmap: Freeze + Sync', bad='Beatmap is not Freeze/Sync: %s' % a['traits'])
    # (b) entries take &Beatmap
    n_entries = 0
    for adt, name in CALC_ENTRIES:
        ms = F.methods(adt=adt, name=name, inherent_only=True)
        if not ms:
            continue
        for m in ms:
            for i, inp in enumerate(m.j.get('inputs', [])):
                if BEATMAP in inp['s']:
                    n_entries += 1
                    good = inp['k'] == 'ref' and inp.get('to_adt') == BEATMAP or \
                        (inp['k'] == 'ref' and name in ('bpm', 'attributes', 'check_suspicion', 'convert_ref', 'total_break_time'))
                    ctx.require(good, 'C01-R4', 'entry:%s::%s' % (adt.split('::')[-1], name),
                                '%s takes the map as %s' % (m.path, inp['s']), m.where(),
                                bad='%s takes the map as `%s`, not `&Beatmap`' % (m.path, inp['s']))
    ctx.floor('C01-R4', n_entries, 20, 'calculation entry points with a Beatmap parameter')
    mut_takers = []
    for fn in F.fns:
        if fn.kind == 'Closure':
            continue
        for inp in fn.j.get('inputs', []):
            if inp['k'] == 'refmut' and inp.get('to_adt') == BEATMAP and fn.is_pub:
                mut_takers.append(fn.path)
    ctx.note('public functions taking &mut Beatmap (conversions, mutate by contract; not judged): %s' % sorted(mut_takers))
    # (c) no cast adds mutability
    for G in configs:
        tag = '' if G is F else '[%s]' % G.config
        mc = mutability_casts(G)
        for fn, what, loc in mc:
            ctx.violation('C01-R4', '%scast:%s' % (tag, fn.path), what, loc)
        ctx.ok('C01-R4', tag + 'casts', 'no const->mut pointer cast / transmute / cast_mut in %d bodies' % len(G.fns))
    fm = {fn.path for fn, _, _ in mutability_casts(fx)}
    for p in ('c01::cast_away_const', 'c01::cast_mut_method', 'c01::transmute_mut'):
        ctx.control('C01-R4', p in fm, p)
    fa = fx.adts.get('c01::BeatmapLike')
    whats = {d['what'] for d in (fa['deep'] if fa else [])}
    ctx.control('C01-R4', 'UnsafeCell' in whats or 'not-Freeze std type' in whats, 'Cell / Atomic inside a map-like type (deep walk)')

    # ---- R5 ------------------------------------------------------------------------------------
    sites = seed_sites(F)
    for fn, bi, t in sites:
        bad, shown = seed_verdict(F, fn, bi, t)
        key = 'seed:%s' % fn.path
        ctx.require(not bad, 'C01-R5', key, 'PRNG %s seeded from inputs/constants: %s' % (callee_path(t), '; '.join(shown)),
                    fn.where(t['ln']), bad='PRNG seed in %s: %s' % (fn.path, '; '.join(bad)))
    ctx.floor('C01-R5', len(sites), 4, 'PRNG constructions (util::random::{osu,csharp}::Random::new)')
    fsites = seed_sites(fx, re.compile(r'^c01::Random::new$'))
    verdicts = {fn.path: bool(seed_verdict(fx, fn, bi, t)[0]) for fn, bi, t in fsites}
    ctx.control('C01-R5', verdicts.get('c01::seeded_from_addr') is True, 'seed from address flagged')
    ctx.control('C01-R5', verdicts.get('c01::seeded_from_input') is False, 'negative control: seed from input accepted')

    ctx.assume('std float functions are deterministic for one build on one platform')
    ctx.assume('rosu-map / rosu-mods at the locked versions (scanned in thorough tier, trusted in quick)')
    ctx.assume('unsafe code is sound (C11)')
    if ctx.tier == 'thorough':
        deps_scan(ctx)


def deps_scan(ctx):
    """thorough: the two runtime dependencies are part of what the build covers"""
    import harness
    try:
        facts_list = harness.get_dep_facts()
    except Exception as e:  # noqa
        ctx.note('dependency scan unavailable: %s' % e)
        return
    for G in facts_list:
        found = banned_sources(G, ctx, 'C01-R1')
        # rosu-map legitimately does file IO in from_path and uses tracing-free decoding; record
        io = [x for x in found if x[1] in ('filesystem', 'io')]
        other = [x for x in found if x[1] not in ('filesystem', 'io')]
        for fn, what, detail, loc in other:
            ctx.violation('C01-R1', '[dep %s]%s:%s' % (G.crate, fn.path, what), detail, loc)
        ctx.ok('C01-R1', '[dep %s]scan' % G.crate, '%d bodies of %s scanned; %d io/fs uses (decoder entry from_path, expected), '
               '%d other banned sources' % (len(G.fns), G.crate, len(io), len(other)))
        its = hash_iterations(G)
        for it in its:
            if it['verdict'] != 'ok':
                ctx.violation('C01-R2', '[dep %s]%s' % (G.crate, it['fn'].path), 'hash-order iteration in dependency: %s' % it['why'],
                              it['fn'].where(it['term']['ln']))
        obs = address_observations(G)
        for fn, what, loc in obs:
            ctx.violation('C01-R3', '[dep %s]%s' % (G.crate, fn.path), what, loc)
        ctx.ok('C01-R2', '[dep %s]scan' % G.crate, '%d hash iteration sites' % len(its))
