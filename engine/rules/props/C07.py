"""C07 — mode dispatch and conversion consistency."""
import re

import arms
import entries
import prov
from common import MODES, MODE_VARIANT, CAP, mode_mentions, as_param_path
from facts import callee_path

EXPLANATION = (
    "Sibling and dispatch rules over resolved MIR: convert_ref and convert_mut have the same decision tree and arm "
    "table and convert() is convert_mut on self (R1); every IGameMode entry (difficulty/strains/gradual_difficulty/"
    "gradual_performance x 4 modes) uses its map parameter only to call convert_ref with its own mode constant and "
    "the Difficulty's mods (R2); in every switch on a GameMode value each arm mentions only its own mode (R3); the "
    "sibling entries of one mode apply the same &mut Beatmap preprocessors under the same guards (R4); "
    "TryFrom<OsuPerformance> forwards difficulty/acc/misses/combo/hit results per table and try_convert_map uses "
    "convert_ref/convert_mut with the same (mode, mods), and every field the conversion copies verbatim is filled by setters that store the same function of their argument on both sides (same unit / normalisation) (R5); every converter call inside the crate that takes &GameMods is handed mods that come from its caller — a parameter or Difficulty::get_mods(..) — never a constant (R6: an early conversion with default mods is final and swallows the key mods set later). Decides the code-shape clauses only; equality of the "
    "numbers follows from them but is not itself computed.")

BM = 'model::beatmap::Beatmap'
METHODS = ['difficulty', 'strains', 'gradual_difficulty', 'gradual_performance']


# ---- R1 -----------------------------------------------------------------------------------------------

def norm_tree(v, self_aliases):
    s = prov.show(v, maxdepth=6)
    return s


def path_summary(fn, path, owned_self=False):
    """normalised rendering of one path: conditions, converter calls, outcome kind"""
    conds = []
    for c, lab in path.conds:
        s = prov.show(c, maxdepth=6)
        s = re.sub(r'std::cmp::PartialEq::(eq|ne)', r'\1', s)
        s = re.sub(r'<[^<>]* as std::cmp::PartialEq>::(eq|ne)', r'\1', s)
        conds.append((s, lab))
    calls = []
    for bb, t in path.calls:
        p = callee_path(t)
        if t['func'].get('local') and re.search(r'::convert$', p):
            P = prov.prov_of(fn)
            args = P.call_args(bb)
            shown = []
            for a in args:
                a = prov.strip(a)
                if a[0] == 'call' and a[1].get('name') in ('to_owned', 'clone'):
                    a = prov.strip(a[2][0])
                shown.append(prov.show(a, maxdepth=3))
            calls.append((p, tuple(shown)))
    # outcome
    if path.end != 'return':
        outcome = path.end
    else:
        P = prov.prov_of(fn)
        n = len(fn.blocks[path.end_bb]['s'])
        # value of _0 along this path: take the last assignment to _0 on the path
        outcome = None
        for bb in reversed(path.blocks):
            for s in reversed(fn.blocks[bb]['s']):
                if s['k'] == 'assign' and s['p']['l'] == 0 and 'proj' not in s['p']:
                    rv = s['rv']
                    if rv['k'] == 'agg' and rv.get('ak') == 'adt' and rv['adt'].endswith('Result'):
                        if rv['variant'] == 'Ok':
                            outcome = 'Ok'
                        else:
                            idx = fn.blocks[bb]['s'].index(s)
                            val = P.operand(rv['ops'][0], bb, idx)
                            outcome = 'Err(%s)' % prov.show(val, maxdepth=4)
                    else:
                        outcome = 'other'
                    break
            if outcome:
                break
        outcome = outcome or 'other'
    return (tuple(conds), tuple(calls), outcome)


GM = ('Osu', 'Taiko', 'Catch', 'Mania')
UNK = ('?',)


def aeval(v, st, depth=0):
    """value of a guard tree in the abstract state st = {mode, target, is_convert}; UNK when not evaluable"""
    if depth > 30:
        return UNK
    k = v[0]
    if k == 'param':
        return st['target'] if v[1] == 2 else UNK
    if k == 'field':
        base = v[1]
        if base == ('param', 1):
            return st.get(v[2], UNK)
        b = aeval(base, st, depth + 1)
        if isinstance(b, dict) and v[2] in b:
            return b[v[2]]
        if isinstance(b, tuple) and b is not UNK and str(v[2]).isdigit() and int(v[2]) < len(b):
            return b[int(v[2])]
        return UNK
    if k == 'agg':
        if v[1] == 'adt' and v[2].endswith('GameMode') and not v[4]:
            return v[3]
        if v[1] == 'tuple':
            items = v[-1]
            vals = [aeval(x, st, depth + 1) for x in (items.values() if isinstance(items, dict) else items)]
            return {str(i): x for i, x in enumerate(vals)}
        return UNK
    if k == 'discr':
        return aeval(v[1], st, depth + 1)
    if k == 'const':
        c = prov.const_val(v)
        return {'true': True, 'false': False}.get(c, c)
    if k == 'call':
        name = v[1].get('name')
        if name in ('eq', 'ne') and len(v[2]) == 2:
            a, b = aeval(v[2][0], st, depth + 1), aeval(v[2][1], st, depth + 1)
            if a is UNK or b is UNK:
                return UNK
            return (a == b) if name == 'eq' else (a != b)
        if name in ('deref', 'clone', 'borrow', 'as_ref', 'from', 'into') and len(v[2]) == 1:
            return aeval(v[2][0], st, depth + 1)
        return UNK
    if k == 'binop' and v[1] in ('Eq', 'Ne'):
        a, b = aeval(v[2], st, depth + 1), aeval(v[3], st, depth + 1)
        if a is UNK or b is UNK:
            return UNK
        a, b = (GM.index(x) if x in GM else x for x in (a, b))
        try:
            a, b = int(a), int(b)
        except (TypeError, ValueError):
            pass
        return (a == b) if v[1] == 'Eq' else (a != b)
    if k == 'unop' and v[1] == 'Not':
        a = aeval(v[2], st, depth + 1)
        return UNK if a is UNK else (not a)
    if k == 'cast':
        return aeval(v[-1] if isinstance(v[-1], tuple) else v[1], st, depth + 1)
    if k == 'phi':
        vals = [aeval(a, st, depth + 1) for a in v[1]]
        if vals and all(x == vals[0] and x is not UNK for x in vals):
            return vals[0]
        return UNK
    return UNK


def label_matches(val, lab, kind):
    if val is UNK:
        return None
    if kind == 'bool':
        return bool(val) == (lab == 'true')
    if kind == 'enum':
        return val in lab.split('|')
    if isinstance(val, bool):
        val = int(val)
    if val in GM:
        val = GM.index(val)
    return str(val) == str(lab)


def decide(fn, st):
    """walk fn's CFG in abstract state st: (converter calls, outcome) or None when a guard cannot be evaluated"""
    P = prov.prov_of(fn)
    bb, blocks, calls, steps = 0, [], [], 0
    while True:
        steps += 1
        if steps > 400:
            return None
        b = fn.blocks[bb]
        t = b['t']
        k = t['k']
        blocks.append(bb)
        if k == 'return':
            break
        if k == 'unreachable':
            return (tuple(calls), 'unreachable')
        if k == 'switch':
            info = arms.switch_info(fn, bb)
            val = aeval(info['cond'], st)
            nxt = None
            other = None
            for lab, tgt in info['edges']:
                if lab == '_':
                    other = tgt
                    continue
                m = label_matches(val, lab, info['kind'])
                if m is None:
                    return None
                if m:
                    nxt = tgt
                    break
            if nxt is None:
                nxt = other
            if nxt is None:
                return None
            bb = nxt
            continue
        if k == 'call':
            p = callee_path(t)
            if t['func'].get('local') and re.search(r'::convert$', p):
                args = [prov.strip(a) for a in P.call_args(bb)]
                shown = []
                for a in args:
                    if a[0] == 'call' and a[1].get('name') in ('to_owned', 'clone'):
                        a = prov.strip(a[2][0])
                    shown.append(prov.show(a, maxdepth=3))
                calls.append((p, tuple(shown)))
            elif t['func'].get('local') and p not in ('model::beatmap::Beatmap::clone',) and t['func'].get('name') not in ('clone', 'to_owned'):
                calls.append((p, ()))
            if t.get('target') is None:
                return (tuple(calls), 'panic')
            bb = t['target']
            continue
        if k in ('goto', 'drop', 'assert'):
            bb = t['target']
            continue
        return None
    outcome = 'other'
    done = False
    for b_ in reversed(blocks):
        for s_ in reversed(fn.blocks[b_]['s']):
            if s_['k'] == 'assign' and s_['p']['l'] == 0 and 'proj' not in s_['p']:
                rv = s_['rv']
                if rv['k'] == 'agg' and rv.get('ak') == 'adt' and rv['adt'].endswith('Result'):
                    if rv['variant'] == 'Ok':
                        outcome = 'Ok'
                    else:
                        idx = fn.blocks[b_]['s'].index(s_)
                        val = P.operand(rv['ops'][0], b_, idx)
                        val = prov.strip(val)
                        if val[0] == 'agg' and val[1] == 'adt':
                            flds = {kk: aeval(x, st) for kk, x in val[4].items()}
                            outcome = 'Err(%s%s)' % (val[3], '{%s}' % ', '.join('%s: %s' % (kk, flds[kk] if flds[kk] is not UNK else prov.show(val[4][kk], maxdepth=3)) for kk in sorted(flds)) if flds else '')
                        else:
                            outcome = 'Err(%s)' % prov.show(val, maxdepth=4)
                done = True
                break
        if done:
            break
    return (tuple(calls), outcome)


def r1(ctx, F):
    cref = F.method(BM, 'convert_ref', inherent_only=True)
    cmut = F.method(BM, 'convert_mut', inherent_only=True)
    conv = F.method(BM, 'convert', inherent_only=True)
    if not (cref and cmut and conv):
        ctx.violation('C07-R1', 'anchor-missing:convert', 'Beatmap::{convert, convert_ref, convert_mut} not all found')
        return
    for f in (cref, cmut, conv):
        ctx.saw(f)
    # the guards of both entries depend on (map mode, target mode, is_convert) only: decide both on all 32 abstract states
    table = {}
    undecided = []
    for mode in GM:
        for target in GM:
            for isc in (False, True):
                st = {'mode': mode, 'target': target, 'is_convert': isc}
                a, b = decide(cref, st), decide(cmut, st)
                if a is None or b is None:
                    undecided.append((mode, target, isc, 'convert_ref' if a is None else 'convert_mut'))
                else:
                    table[(mode, target, isc)] = (a, b)
    if undecided:
        # fall back to the comparison of the two guard structures as written
        pr = arms.enumerate_paths(cref)
        pm = arms.enumerate_paths(cmut)
        if pr is None or pm is None or {path_summary(cref, p) for p in pr} != {path_summary(cmut, p) for p in pm}:
            ctx.violation('C07-R1', 'convert_ref~convert_mut:shape', 'a guard of %s depends on something other than (map mode, target mode, is_convert) and the two '
                          'entries are not written with the same guard structure: their decisions cannot be compared (first state: %s)' % (undecided[0][3], undecided[0][:3],), cref.where())
        else:
            ctx.ok('C07-R1', 'convert_ref~convert_mut', 'identical guard structure as written (%d paths each)' % len(pr), cref.where())
    else:
        diff = [(k, v) for k, v in sorted(table.items()) if v[0] != v[1]]
        outcomes = {v[1] for v in table.values()}
        if not diff:
            ctx.ok('C07-R1', 'convert_ref~convert_mut', 'same decision on all 32 states of (map mode, target mode, is_convert): %d distinct outcomes (%s)' % (
                len(outcomes), sorted({o[1] for o in outcomes})), cref.where())
        seen_keys = set()
        for (mode, target, isc), (a, b) in diff:
            key = 'convert_ref~convert_mut:%s/%s' % (a[1], b[1])
            if key in seen_keys:
                continue
            seen_keys.add(key)
            ctx.violation('C07-R1', key, 'for a %s map (is_convert=%s) and target %s: convert_ref -> %s %s, convert_mut/convert -> %s %s (%d of 32 states differ)' % (
                mode, str(isc).lower(), target, a[1], [c[0].split('::')[-3:] for c in a[0]], b[1], [c[0].split('::')[-3:] for c in b[0]], len(diff)), cref.where())
        ctx.floor('C07-R1', len(outcomes), 6, 'distinct outcomes of convert_mut (3 converters, identity, 2 errors)')
    # Beatmap::convert = convert_mut(self) then Ok(self)
    calls = [(bi, t) for bi, t in conv.calls() if t['func'].get('local')]
    good = len(calls) == 1 and callee_path(calls[0][1]) == 'model::beatmap::Beatmap::convert_mut'
    if good:
        P = prov.prov_of(conv)
        args = P.call_args(calls[0][0])
        srcs = [as_param_path(a) for a in args]
        good = srcs == [(1, ()), (2, ()), (3, ())]
    ctx.require(good, 'C07-R1', 'convert=convert_mut(self)', 'Beatmap::convert calls convert_mut(self, mode, mods) '
                'with its own parameters', conv.where(),
                bad='Beatmap::convert does not simply forward (self, mode, mods) to convert_mut')


# ---- R2 / R4 ------------------------------------------------------------------------------------------

def r2_r4(ctx, F, prop='C07', r2='C07-R2', r4='C07-R4', methods=METHODS, pair_only=None):
    n = 0
    table = {}
    for mode in MODES:
        for m in methods:
            e = entries.Entry(F, mode, m)
            table[(mode, m)] = e
            if e.trait_fn is None:
                ctx.violation(r2, 'anchor-missing:%s::%s' % (mode, m), 'IGameMode::%s for %s not found' % (m, mode))
                continue
            n += 1
            for f in e.chain:
                ctx.saw(f)
            if r2:
                if e.problems:
                    for p in e.problems:
                        ctx.violation(r2, '%s:%s:%s' % (mode, m, re.sub(r'\d+', 'N', p)[:80]), p, e.chain[-1].where())
                else:
                    fn, bb, t = e.convert
                    ctx.ok(r2, '%s:%s' % (mode, m), '%s: the map parameter is used only as receiver of convert_ref('
                           'GameMode::%s, difficulty.get_mods()) [via %s]' % (
                               e.trait_fn.path, MODE_VARIANT[mode], ' -> '.join(f.path for f in e.chain)),
                           fn.where(t['ln']))
    if r2:
        ctx.floor(r2, n, len(MODES) * len(methods), 'IGameMode entry implementations')
    # R4: sibling agreement per mode
    for mode in MODES:
        ref = table.get((mode, 'difficulty'))
        if ref is None or ref.work is None:
            continue
        ref_sig = entries.preprocess_signature(ref)
        for m in methods:
            if m == 'difficulty':
                continue
            e = table.get((mode, m))
            if e is None or e.work is None:
                continue
            sig = entries.preprocess_signature(e)
            missing = ref_sig - sig
            extra = sig - ref_sig
            if not missing and not extra:
                ctx.ok(r4, '%s:%s~difficulty' % (mode, m), '%s applies the same map preprocessing as difficulty(): {%s}' % (
                    e.work.path, ', '.join(sorted(p.split('::')[-1] for p, _ in sig)) or 'none'), e.work.where())
            for p, gs in sorted(missing):
                short = p.split('::')[-1]
                # same preprocessor present but under another guard?
                other = [g for q, g in sig if q == p]
                if other:
                    ctx.violation(r4, '%s:%s:guard:%s' % (mode, m, short),
                                  '%s calls %s under guard %s, difficulty() under %s' % (e.work.path, p, list(other[0]), list(gs)),
                                  e.work.where())
                else:
                    ctx.violation(r4, '%s:%s:-%s' % (mode, m, short),
                                  '%s does not apply %s to the converted map although %s does (guard %s): the two entries '
                                  'see different maps' % (e.work.path, p, ref.work.path, list(gs)), e.work.where())
            for p, gs in sorted(extra):
                if any(q == p for q, _ in ref_sig):
                    continue
                short = p.split('::')[-1]
                ctx.violation(r4, '%s:%s:+%s' % (mode, m, short),
                              '%s applies %s which %s does not' % (e.work.path, p, ref.work.path), e.work.where())
    return table


# ---- R3 -----------------------------------------------------------------------------------------------

def gamemode_switches(F):
    for fn in F.fns:
        for bb, info in arms.enum_switches(fn):
            P = prov.prov_of(fn)
            op = fn.blocks[bb]['t']['discr']
            d = P.reaching(op['p']['l'], bb, len(fn.blocks[bb]['s']))
            adt = d[0].data['rv'].get('adt') if d and d[0].kind == 'assign' else None
            if adt and adt.endswith('::GameMode'):
                yield fn, bb, info


# documented exceptions: (function name regex, arm, mentioned mode, reason)
R3_EXCEPTIONS = [
    (r"OsuPerformance::<'map>::mode_or_ignore$", None, 'osu',
     "documented fallback: if the map was already replaced by attributes the osu! calculator is kept (Performance::Osu "
     "as the Err mapper of map_or_else)"),
]


def arm_mentions(fn, blocks):
    """(what, text, modes) for every mode-specific mention inside the blocks"""
    out = []
    for bi in sorted(blocks):
        b = fn.blocks[bi]
        for s in b['s']:
            if s['k'] != 'assign':
                continue
            rv = s['rv']
            if rv['k'] == 'agg' and rv.get('ak') == 'adt':
                fields_enum = fn.facts.adts.get(rv['adt'])
                if fields_enum and fields_enum['kind'] == 'enum' and \
                        {v['name'] for v in fields_enum['variants']} == {'Osu', 'Taiko', 'Catch', 'Mania'}:
                    out.append(('variant', '%s::%s' % (rv['adt'], rv['variant']), {rv['variant'].lower()}, s.get('ln')))
            ops = []
            if rv['k'] == 'use':
                ops = [rv['op']]
            elif rv['k'] == 'agg':
                ops = rv['ops']
            for o in ops:
                if o['k'] == 'const' and 'fn' in o:
                    txt = o['fn']['path'] + ' ' + ' '.join(o['fn'].get('dargs', []))
                    ms = mode_mentions(txt)
                    if ms:
                        out.append(('fn-value', o['fn']['path'], ms, s.get('ln')))
        t = b['t']
        if t['k'] == 'call':
            f = t['func']
            # the identity of the callee: its impl self type (or path for free functions); generic
            # arguments such as the *source* type of a conversion are not the dispatch target
            if f.get('local'):
                txt = f.get('impl_self') or f.get('path') or ''
                # a type-generic private helper (`self.convert_and_wrap::<TaikoPerformance>(..)`) dispatches to whatever its type arguments name
                g = fn.facts.fn(f.get('path') or '')
                if g is not None and not g.impl_trait and any(str(x).endswith(':type') and not str(x).startswith('impl ') for x in (g.j.get('generics') or [])):
                    targs_txt = ' '.join(f.get('targs') or [])
                    if mode_mentions(targs_txt):
                        txt = targs_txt
            elif f.get('name') == 'into' and f.get('trait') == 'std::convert::Into' and len(f.get('dargs') or []) > 1:
                txt = f['dargs'][1]
            else:
                txt = ''
            ms = mode_mentions(txt)
            if ms:
                out.append(('call', f.get('path'), ms, t.get('ln')))
            for o in t['args']:
                if o['k'] == 'const' and 'fn' in o:
                    txt = o['fn']['path'] + ' ' + ' '.join(o['fn'].get('dargs', []))
                    ms = mode_mentions(txt)
                    if ms:
                        out.append(('fn-value', o['fn']['path'], ms, t.get('ln')))
    return out


def r3(ctx, F):
    n_arms = 0
    n_fns = set()
    all_sw = list(gamemode_switches(F))
    for fn, bb, info in all_sw:
        ctx.saw(fn)
        for lab, tgt in info['edges']:
            if '|' in lab:
                continue
            arm = lab.lower()
            reg = arms.region(fn, tgt)
            # a mention inside a nested GameMode switch belongs to that (innermost) switch, not to this arm
            for fn2, bb2, info2 in all_sw:
                if fn2 is fn and bb2 != bb and bb2 in reg:
                    for _, t2 in info2['edges']:
                        reg = reg - arms.region(fn, t2)
            # an arm target shared with another arm (e.g. Osu | Catch) is not mode-specific
            shared = [l for l, t2 in info['edges'] if t2 == tgt and l != lab]
            if shared:
                continue
            ments = arm_mentions(fn, reg)
            if not ments:
                continue
            n_arms += 1
            n_fns.add(fn.path)
            bad = []
            for what, text, modes, ln in ments:
                wrong = modes - {arm}
                if not wrong:
                    continue
                exc = [e for e in R3_EXCEPTIONS if re.search(e[0], fn.path) and wrong == {e[2]} and what == 'fn-value']
                if exc:
                    ctx.ok('C07-R3', '%s:%s:exception' % (fn.path, lab), exc[0][3], fn.where(ln))
                    continue
                bad.append((what, text, wrong, ln))
            if bad:
                for what, text, wrong, ln in bad:
                    ctx.violation('C07-R3', '%s:%s:%s' % (fn.path, lab, text),
                                  'arm GameMode::%s of %s dispatches to %s (%s), which belongs to %s' % (
                                      lab, fn.path, text, what, '/'.join(sorted(wrong))), fn.where(ln))
            else:
                ctx.ok('C07-R3', '%s:%s' % (fn.path, lab), 'arm GameMode::%s mentions only its own mode: %s' % (
                    lab, ', '.join(sorted({t for _, t, _, _ in ments}))[:300]), fn.where())
    # 38 today; merging duplicated dispatch blocks into shared helpers legitimately lowers the count
    ctx.floor('C07-R3', n_arms, 20, 'mode-specific arms of GameMode switches')
    want = ['any::difficulty::Difficulty::calculate', 'any::difficulty::Difficulty::strains',
            'any::difficulty::gradual::GradualDifficulty::new_with_mode',
            'any::performance::gradual::GradualPerformance::new_with_mode',
            'model::beatmap::Beatmap::convert_ref', 'model::beatmap::Beatmap::convert_mut',
            "osu::performance::OsuPerformance::<'map>::try_mode", "osu::performance::OsuPerformance::<'map>::mode_or_ignore"]
    import callgraph
    cg = callgraph.of(F) if hasattr(callgraph, 'of') else callgraph.CallGraph(F)
    for w in want:
        short = w.split('::')[-2].split('<')[0] + '::' + w.split('::')[-1]
        # the dispatch may sit in a local helper the function delegates to (two levels)
        near = {w} | set(cg.succ.get(w, ()))
        near |= {y for x in list(near) for y in cg.succ.get(x, ())}
        ctx.require(bool(near & n_fns), 'C07-R3', 'anchor:' + short, 'dispatch function %s analysed (switch on GameMode in %s)' % (w, sorted(near & n_fns)[:2]),
                    bad='neither dispatch function %s nor a local function it calls switches on GameMode any more (anchor-missing)' % w)
    # generic *_for_mode functions call the trait method of M itself
    for name, tm in [('calculate_for_mode', 'difficulty'), ('strains_for_mode', 'strains'),
                     ('gradual_difficulty_for_mode', 'gradual_difficulty'),
                     ('gradual_performance_for_mode', 'gradual_performance')]:
        f = F.method('any::difficulty::Difficulty', name, inherent_only=True)
        if f is None:
            ctx.violation('C07-R3', 'anchor-missing:' + name, 'Difficulty::%s not found' % name)
            continue
        cs = [t for _, t in f.calls()]
        good = len(cs) == 1 and cs[0]['func'].get('trait') == 'model::mode::IGameMode' and cs[0]['func'].get('name') == tm \
            and (cs[0]['func'].get('dargs') or [''])[0] == 'M'
        if good:
            P = prov.prov_of(f)
            bi = [b for b, _ in f.calls()][0]
            srcs = [as_param_path(a) for a in P.call_args(bi)]
            good = srcs == [(1, ()), (2, ())]
        ctx.require(good, 'C07-R3', 'generic:' + name, 'Difficulty::%s = <M as IGameMode>::%s(self, map)' % (name, tm), f.where(),
                    bad='Difficulty::%s does not simply call <M as IGameMode>::%s(self, map)' % (name, tm))


# ---- R5 -----------------------------------------------------------------------------------------------

R5_TABLE = {
    'taiko': {'difficulty': 'difficulty', 'acc': 'acc', 'misses': 'misses', 'combo': 'combo',
              'hitresult_priority': 'hitresult_priority', 'n300': 'n300', 'n100': 'n100'},
    'catch': {'difficulty': 'difficulty', 'acc': 'acc', 'misses': 'misses', 'combo': 'combo',
              'fruits': 'n300', 'droplets': 'n100', 'tiny_droplets': 'n50', 'tiny_droplet_misses': None},
    'mania': {'difficulty': 'difficulty', 'acc': 'acc', 'misses': 'misses', 'hitresult_priority': 'hitresult_priority',
              'n300': 'n300', 'n100': 'n100', 'n50': 'n50', 'n320': None, 'n200': None},
}


def r5(ctx, F):
    OSU_PERF = 'osu::performance::OsuPerformance'
    n = 0
    for mode in ('taiko', 'catch', 'mania'):
        adt = '%s::performance::%sPerformance' % (mode, CAP[mode])
        fs = [f for f in F.fns if f.name == 'try_from' and f.self_adt == adt and f.impl_trait == 'std::convert::TryFrom']
        if len(fs) != 1:
            ctx.violation('C07-R5', 'anchor-missing:TryFrom<OsuPerformance> for %sPerformance' % CAP[mode], 'impl not found')
            continue
        f = fs[0]
        ctx.saw(f)
        n += 1
        P = prov.prov_of(f)
        # conversion call
        conv = [(bi, t) for bi, t in f.calls() if t['func'].get('name') == 'try_convert_map']
        if len(conv) != 1:
            ctx.violation('C07-R5', '%s:try_convert_map' % mode, '%s does not call OsuPerformance::try_convert_map exactly once' % f.path, f.where())
            continue
        args = P.call_args(conv[0][0])
        a0 = as_param_path(args[0])
        a1 = prov.strip(args[1])
        a2 = prov.strip(args[2], names=prov.TRANSPARENT_NAMES - {'get_mods'})
        ok0 = a0 == (1, ('map_or_attrs',))
        ok1 = a1[0] == 'agg' and a1[3] == MODE_VARIANT[mode]
        ok2 = a2[0] == 'call' and prov.callee(a2) == entries.GET_MODS and as_param_path(a2[2][0]) == (1, ('difficulty',))
        ctx.require(ok0 and ok1 and ok2, 'C07-R5', '%s:try_convert_map' % mode,
                    'map = try_convert_map(osu.map_or_attrs, GameMode::%s, osu.difficulty.get_mods())' % MODE_VARIANT[mode],
                    f.where(conv[0][1]['ln']),
                    bad='%s converts with (%s, %s, %s)' % (f.path, prov.show(args[0], maxdepth=3), prov.show(a1, maxdepth=3), prov.show(a2, maxdepth=4)))
        rv = P.return_value()
        oks = [x for x in (rv[1] if rv[0] == 'phi' else [rv]) if x[0] == 'agg' and x[3] == 'Ok']
        if len(oks) != 1:
            ctx.violation('C07-R5', '%s:ok-shape' % mode, 'cannot identify the Ok(..) value of %s' % f.path, f.where())
            continue
        built = prov.strip(oks[0][4]['0'])
        if built[0] == 'agg' and built[2] == adt:
            fields = dict(built[4])
        else:
            # built step by step: a private constructor plus the builder's own setters and field assignments — read field by field through them
            bi_ = prov.inline_all(F, oks[0][4]['0'], depth=5, _seen=(f.path,), only=lambda f_: (f_.get('impl_adt') or '') == adt and not f_.get('trait'))
            names_ = F.adt_fields(adt) or []
            fields = {fl: prov.project_field(bi_, fl) for fl in names_}
            if not names_ or any(prov.strip(v_)[0] == 'unknown' for v_ in fields.values()):
                ctx.violation('C07-R5', '%s:ok-shape' % mode, 'Ok value of %s is not a %s literal and cannot be resolved field by field: %s' % (f.path, adt, prov.show(built, maxdepth=2)), f.where())
                continue
        # `..Self::from_map_or_attrs(x)` style: resolve fields taken from a local constructor call by inlining it
        for fk, fv in list(fields.items()):
            sv = prov.strip(fv, names=set())
            if sv[0] == 'field' and prov.strip(sv[1], names=set())[0] == 'call' and prov.strip(sv[1], names=set())[1].get('local'):
                inl = prov.inline_call(F, prov.strip(sv[1], names=set()))
                if inl is not prov.strip(sv[1], names=set()):
                    fields[fk] = prov.project_field(inl, sv[2])
        tbl = R5_TABLE[mode]
        for tf, sf in tbl.items():
            if tf not in fields:
                ctx.violation('C07-R5', '%s:%s' % (mode, tf), '%sPerformance has no field `%s` (table out of date: anchor-missing)' % (CAP[mode], tf), f.where())
                continue
            v = fields[tf]
            if sf is None:
                s = prov.strip(v)
                good = s[0] == 'agg' and s[3] == 'None'
                ctx.require(good, 'C07-R5', '%s:%s' % (mode, tf), '%s <- None (no osu! counterpart)' % tf, f.where(),
                            bad='%s.%s is `%s`, expected None (osu! has no such hit result)' % (CAP[mode], tf, prov.show(s, maxdepth=3)))
            else:
                src = as_param_path(v)
                ctx.require(src == (1, (sf,)), 'C07-R5', '%s:%s' % (mode, tf), '%s <- osu.%s' % (tf, sf), f.where(),
                            bad='%sPerformance.%s is built from `%s`, expected osu.%s' % (CAP[mode], tf, prov.show(v, maxdepth=4), sf))
        extra = set(fields) - set(tbl) - {'map_or_attrs'}
        for tf in sorted(extra):
            ctx.violation('C07-R5', '%s:%s:unlisted' % (mode, tf), 'field %s of %sPerformance is not in the forwarding table '
                          '(new field: extend the table after reading)' % (tf, CAP[mode]), f.where())
        # the map stored is the converted map
        m = prov.strip(fields.get('map_or_attrs', ('unknown', '')))
        good = m[0] == 'agg' and m[3] == 'Map' and prov.has_conv(m) if hasattr(prov, 'has_conv') else None
        inner = m[4].get('0') if m[0] == 'agg' and m[3] == 'Map' else None
        good = inner is not None and any(x[0] == 'call' and x[1].get('name') == 'try_convert_map' for x in prov.walk(inner))
        ctx.require(good, 'C07-R5', '%s:map' % mode, 'map_or_attrs <- MapOrAttrs::Map(converted map)', f.where(),
                    bad='%s does not store the converted map: %s' % (f.path, prov.show(m, maxdepth=4)))
    ctx.floor('C07-R5', n, 3, 'TryFrom<OsuPerformance> impls')
    r5_same_representation(ctx, F)
    # try_convert_map: Borrowed -> convert_ref(mode, mods), Owned -> convert_mut(mode, mods)
    tcm = [f for f in F.fns if f.name == 'try_convert_map' and f.self_adt == OSU_PERF]
    if len(tcm) != 1:
        ctx.violation('C07-R5', 'anchor-missing:try_convert_map', 'OsuPerformance::try_convert_map not found')
        return
    f = tcm[0]
    ctx.saw(f)
    P = prov.prov_of(f)
    seen = {}
    for bi, t in f.calls():
        p = callee_path(t)
        if p in (entries.CONVERT_REF, entries.CONVERT_MUT):
            args = P.call_args(bi)
            recv = prov.show(args[0], maxdepth=6)
            gs = [(prov.show(c, maxdepth=5), lab) for c, lab in arms.guards_of(f, bi)]
            seen[p] = (as_param_path(args[1]), as_param_path(args[2]), recv, gs)
    for p, variant in ((entries.CONVERT_REF, 'Borrowed'), (entries.CONVERT_MUT, 'Owned')):
        if p not in seen:
            ctx.violation('C07-R5', 'try_convert_map:%s' % variant, 'try_convert_map does not call %s' % p, f.where())
            continue
        a1, a2, recv, gs = seen[p]
        in_arm = any(lab == variant for _, lab in gs) and ('as %s' % variant) in recv
        ctx.require(a1 == (2, ()) and a2 == (3, ()) and in_arm, 'C07-R5', 'try_convert_map:%s' % variant,
                    'Cow::%s map -> %s(mode, mods) with the parameters passed through' % (variant, p.split('::')[-1]), f.where(),
                    bad='try_convert_map: %s called with (%s, %s) on %s under %s' % (p, a1, a2, recv, gs))


def run(ctx):
    F = ctx.facts('default')
    r1(ctx, F)
    r2_r4(ctx, F)
    r3(ctx, F)
    r5(ctx, F)
    r6_conversion_mods(ctx, F)
    ctx.not_decided('numerical equality of results between the converted-map path and the direct path (follows from the '
                    'structural clauses, not computed)')
    ctx.assume('rosu_map::section::general::GameMode has exactly the four variants Osu/Taiko/Catch/Mania')


# ---- R6: no conversion inside the crate decides the mods by itself
def r6_conversion_mods(ctx, F):
    """Key mods are consumed BY the mania conversion; a map converted early with constant mods is final (converting a convert is the identity), so the
    mods the caller sets later are lost.  Every call of a converter that takes `&GameMods` passes mods that come from the caller: a parameter (or a
    field of one) or Difficulty::get_mods(..) — never a constant or a default."""
    n = 0
    for fn in F.fns:
        P = None
        for bi, t in fn.calls():
            f = t['func']
            if not f.get('local'):
                continue
            g = F.fn(f.get('path') or '')
            if g is None or f.get('name') not in ('convert_ref', 'convert_mut', 'convert', 'try_convert', 'try_convert_map'):
                continue
            idx = [i for i, inp in enumerate(g.j.get('inputs') or []) if 'GameMods' in (inp.get('s') or '')]
            if not idx:
                continue
            P = P or prov.prov_of(fn)
            args = P.call_args(bi)
            for i in idx:
                if i >= len(args):
                    continue
                n += 1
                a = prov.strip(args[i], names=prov.TRANSPARENT_NAMES - {'get_mods'})
                ok = as_param_path(a) is not None or (a[0] == 'call' and prov.callee(a) == entries.GET_MODS and as_param_path(a[2][0]) is not None)
                if not ok and a[0] == 'phi':
                    ok = all(as_param_path(x) is not None for x in a[1])
                ctx.require(ok, 'C07-R6', 'mods:%s:%s' % (fn.path, f.get('name')), '%s calls %s with the caller\'s mods (%s)' % (fn.path, f.get('name'), prov.show(a, maxdepth=3)[:60]), fn.where(t.get('ln')),
                            bad='%s converts a map with mods `%s` of its own choosing: the conversion consumes the key mods (mania) and a converted map is final, so the mods the user '
                                'sets afterwards are ignored — calculating on this map no longer equals calculating on the explicitly converted map' % (fn.path, prov.show(a, maxdepth=4)[:120]))
    ctx.floor('C07-R6', n, 8, 'converter calls taking mods')


def _setter_store(F, adt, field):
    """{setter name: normalised text of what it stores in `field`} for the public by-value setters of adt that change exactly that field"""
    import re as _re
    from common import delta_fields
    out = {}
    for m in F.methods(adt=adt, inherent_only=True):
        if not str(m.j.get('vis')).startswith('Public') or len(m.j.get('inputs') or []) != 2 or (m.j.get('output') or {}).get('adt') != adt:
            continue
        d = delta_fields(prov.prov_of(m).return_value(), 1)
        if d is None or set(d) != {field}:
            continue
        v = prov.inline_all(F, d[field], depth=2, _seen=(m.path,), only=lambda f_: not f_.get('trait'))      # a private normalising helper is read through
        txt = prov.show(prov.strip(v, names=set()), maxdepth=10)
        out[m.name] = _re.sub(r'(osu|taiko|catch|mania)::', 'M::', txt)
    return out


def r5_same_representation(ctx, F):
    """A field that TryFrom<OsuPerformance> copies across verbatim must mean the same in both builders: the setters that fill it store the same function of
    their argument (an accuracy kept as a fraction by one builder and in percent by the other survives every single-builder test and is wrong after try_mode)"""
    OSU_PERF = 'osu::performance::OsuPerformance'
    n = 0
    for mode in ('taiko', 'catch', 'mania'):
        adt = '%s::performance::%sPerformance' % (mode, CAP[mode])
        for tf, sf in R5_TABLE[mode].items():
            if sf is None or tf in ('difficulty',):
                continue
            a, b = _setter_store(F, OSU_PERF, sf), _setter_store(F, adt, tf)
            if not a or not b:
                continue                # a field without a dedicated one-field setter (filled through state(..) only)
            n += 1
            va, vb = set(a.values()), set(b.values())
            ctx.require(va == vb, 'C07-R5', '%s:%s:representation' % (mode, tf), 'osu.%s and %s.%s are filled alike by their setters (%s)' % (sf, CAP[mode], tf, sorted(va)[0][:80]), (F.adts.get(adt) or {}).get('loc') and '%s:%s' % (F.adts[adt]['loc'][0], F.adts[adt]['loc'][1]),
                        bad='the setters of osu.%s store `%s` but those of %sPerformance.%s store `%s`, and TryFrom<OsuPerformance> copies the field verbatim: a value set before try_mode(%s) '
                            'means something else than the same value set afterwards' % (sf, sorted(va), CAP[mode], tf, sorted(vb), MODE_VARIANT[mode]))
    ctx.floor('C07-R5', n, 9, 'forwarded fields with dedicated setters on both sides')


# ---- shared rule: no read of the converted map before its preprocessing is complete (seed C12-8: `n_objects` taken of the object list before Invert rewrites it)
def no_stale_map_reads(ctx, F, rule, methods=('difficulty', 'strains', 'gradual_difficulty')):
    """The mode entries convert the map and then rewrite it in place for mods that change the object list (HoldOff, Invert, Random).  Whatever the entry reads off
    the map — object count, key count, attributes — must be read AFTER the last rewrite that can still happen: a `Cow::deref` of the converted map from which a
    preprocessor call is still reachable hands out a value of the map as it was, not as it is calculated on."""
    n = npre = 0
    for mode in MODES:
        for m in methods:
            e = entries.Entry(F, mode, m)
            if e.work is None:
                continue
            fn = e.work
            n += 1
            pre = [(p_, bi) for p_, gs, f_, bi in e.preprocessors if f_.path == fn.path]
            npre += len(pre)
            if not pre:
                continue
            ctx.saw(fn)
            stale = []
            for bi, t in fn.calls():
                cp = t['func'].get('path') or ''
                if cp.endswith('as std::ops::Deref>::deref') and 'Cow' in cp:
                    later = sorted(set(p_.split('::')[-1] for p_, pb in pre if pb != bi and pb in fn.cfg.reachable_from(bi)))
                    if later:
                        stale.append((t.get('ln'), later))
            ctx.require(not stale, rule, 'fresh-reads:%s:%s' % (mode, m), '%s reads the converted map only after its %d rewrite(s)' % (fn.path, len(pre)), fn.where(),
                        bad='%s reads the converted map at line %s although %s can still rewrite it afterwards: the value (an object count, a key count ..) describes the map '
                            'before the mods were applied, while the calculation runs on the map after them' % (
                                fn.path, ', '.join(str(x[0]) for x in stale), ' / '.join(sorted(set(y for x in stale for y in x[1])))))
    ctx.floor(rule, npre, 3, 'in-place rewrites of the converted map in the mode entries (taiko 3 x 1, mania 3 x 3 today)')
