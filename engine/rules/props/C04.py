"""C04 — attributes path equals map path: flow clauses."""
import fieldidx
import prov
from common import MODES, CAP, MODE_MARKER, as_param_path

EXPLANATION = (
    "Provenance clauses over resolved MIR: in generate_state and calculate of the four mode builders the attributes for "
    "the Map case come from Difficulty::calculate_for_mode::<own mode>(self.difficulty, <map stored in self>) (R1); the "
    "`difficulty` field of every PerformanceAttributes built by the four calculators is exactly the attributes the "
    "calculator was constructed with, and nothing writes those attributes in between (R2); the conversions back into "
    "a builder (IntoModePerformance / IntoPerformance / From for MapOrAttrs, 32 impls + 8 enum arms) pass `attrs` resp. "
    "`attrs.difficulty` through untouched, the 12 map-to-builder conversions hand the map over as given (no conversion "
    "before the mods are known) and from_map_or_attrs stores its argument (R3); the map/attributes slot of a builder is never moved out with mem::take/replace/swap and an Attrs literal holds handed-in or computed attributes only (R4); no difficulty entry point returns attributes that did not go through the mode's calculation, e.g. Default::default() on an early exit (R5). That the two paths return "
    "equal numbers is arithmetic plus the caller's obligation to repeat the settings: NOT decided.")


def perf(mode):
    return '%s::performance::%sPerformance' % (mode, CAP[mode])


def calc(mode):
    return '%s::performance::calculator::%sPerformanceCalculator' % (mode, CAP[mode])


def untouched(v):
    return not any(n[0] in ('update', 'binop', 'unop', 'agg') for n in prov.walk(v, limit=300))


def param_sources(v):
    out = set()
    for n in prov.walk(v, limit=500):
        if n[0] == 'param':
            out.add(n[1])
    return out


def run(ctx):
    F = ctx.facts('default')
    n1 = 0
    for mode in MODES:
        for name in ('generate_state', 'calculate'):
            f = F.method(perf(mode), name, inherent_only=True)
            if f is None:
                ctx.violation('C04-R1', 'anchor-missing:%s:%s' % (mode, name), 'method not found')
                continue
            ctx.saw(f)
            P = prov.prov_of(f)
            sites = [(bi, t) for bi, t in f.calls() if t['func'].get('name') in ('calculate_for_mode', 'difficulty')
                     and (t['func'].get('impl_adt') == 'any::difficulty::Difficulty' or t['func'].get('trait') == 'model::mode::IGameMode')]
            if not sites:
                # the computation may sit in a local helper that receives the builder's Difficulty and its map holder
                via = helper_sites(F, f, mode)
                if via:
                    for ok_, why_, ln_ in via:
                        n1 += 1
                        ctx.require(ok_, 'C04-R1', '%s:%s' % (mode, name), 'attributes = self.difficulty.calculate_for_mode::<%s>(map held by self) [%s]' % (CAP[mode], why_),
                                    f.where(ln_), bad='%s: %s' % (f.path, why_))
                    continue
                ctx.violation('C04-R1', '%s:%s:none' % (mode, name), '%s computes no attributes for the Map case' % f.path, f.where())
                continue
            for bi, t in sites:
                n1 += 1
                args = P.call_args(bi)
                targs = t['func'].get('targs') or t['func'].get('dargs') or []
                own = MODE_MARKER[mode] in targs or (t['func'].get('dargs') or [''])[0] == MODE_MARKER[mode]
                recv = as_param_path(args[0])
                mp = None
                for nnode in prov.walk(args[1], limit=100):
                    pp = as_param_path(nnode)
                    if pp is not None:
                        mp = pp
                        break
                good = own and recv == (1, ('difficulty',)) and mp is not None and mp[0] == 1 and mp[1][:1] == ('map_or_attrs',)
                ctx.require(good, 'C04-R1', '%s:%s' % (mode, name), 'attributes = self.difficulty.calculate_for_mode::<%s>(map held by self)' % CAP[mode],
                            f.where(t['ln']), bad='%s computes the attributes with mode %s, Difficulty `%s`, map `%s`' % (
                                f.path, targs, prov.show(args[0], maxdepth=3), prov.show(args[1], maxdepth=3)))
    ctx.floor('C04-R1', n1, 8, 'attribute computations in generate_state / calculate')
    # ---- R2
    n2 = 0
    for mode in MODES:
        c = calc(mode)
        f = F.method(c, 'calculate', inherent_only=True)
        new = F.method(c, 'new', inherent_only=True)
        if not f or not new:
            ctx.violation('C04-R2', 'anchor-missing:%s' % mode, '%s::{new, calculate} not found' % c)
            continue
        ctx.saw(f)
        n2 += 1
        rv = prov.prov_of(f).return_value()
        # the result literal may be built by a private helper that receives the attributes (`embed(self.attrs, pp, ..)`, `values.into_attributes(self.attrs, ..)`)
        rv = prov.inline_all(F, rv, depth=2, _seen=(f.path,), only=lambda f_: not f_.get('trait') and (f_.get('path') or '').startswith('%s::performance::calculator' % mode)
                             and (f_.get('output') or f_.get('ret') or True))
        d = prov.project_field(rv, 'difficulty')
        ctx.require(as_param_path(d, through_calls=False) == (1, ('attrs',)) and untouched(d), 'C04-R2', '%s:embedded' % mode,
                    '%sPerformanceAttributes.difficulty = self.attrs, untouched' % CAP[mode], f.where(),
                    bad='%s::calculate embeds `%s` as difficulty attributes instead of the unmodified input attributes' % (c, prov.show(d, maxdepth=4)))
        nv = prov.prov_of(new).return_value()
        a = prov.project_field(nv, 'attrs')
        src = as_param_path(a, through_calls=False)
        ctx.require(src is not None and src[1] == () and untouched(a), 'C04-R2', '%s:ctor' % mode, 'calculator stores its attrs parameter unmodified', new.where(),
                    bad='%s::new stores `%s` as attrs' % (c, prov.show(a, maxdepth=4)))
        writes = [x for x in fieldidx.accesses(F, c, 'attrs') if x['kind'] in ('assign', 'mutborrow')]
        ctx.require(not writes, 'C04-R2', '%s:no-write' % mode, 'no statement writes or mutably borrows %sPerformanceCalculator.attrs' % CAP[mode], f.where(),
                    bad='%sPerformanceCalculator.attrs is written / mutably borrowed in %s' % (CAP[mode], sorted({w['fn'].path for w in writes})))
    ctx.floor('C04-R2', n2, 4, 'performance calculators')
    # the builder hands the attributes to its calculator untouched
    for mode in MODES:
        f = F.method(perf(mode), 'calculate', inherent_only=True)
        if f is None:
            continue
        P = prov.prov_of(f)
        ctors = [(bi, t) for bi, t in f.calls() if t['func'].get('name') == 'new' and 'PerformanceCalculator' in (t['func'].get('impl_adt') or '')]
        for bi, t in ctors:
            a = P.call_args(bi)[0]
            bad = []
            for alt in (a[1] if a[0] == 'phi' else [a]):
                for n in prov.walk(alt, limit=400):
                    if n[0] == 'update':
                        bad.append('field(s) %s are overwritten before the calculator is built' % sorted('.'.join(p_) for p_ in n[2]))
                    elif n[0] == 'mut':
                        vias = {v[1].get('name') for v in n[2] if v[0] == 'callref'}
                        if not vias <= {'generate_state', 'insert_attrs', 'deref', 'deref_mut', 'as_ref', 'borrow'}:
                            bad.append('mutably borrowed by %s' % sorted(x for x in vias if x))
                    elif n[0] in ('binop',):
                        bad.append('arithmetic on the attributes')
            ctx.require(not bad, 'C04-R2', '%s:handover' % mode, '%sPerformance::calculate passes the attributes (stored or freshly computed) to its calculator untouched' % CAP[mode],
                        f.where(t['ln']), bad='%sPerformance::calculate alters the difficulty attributes before handing them to the calculator (%s): the attributes '
                                                'embedded in the result no longer equal the one-shot difficulty calculation' % (CAP[mode], '; '.join(sorted(set(bad)))))
    # ---- R3
    n3 = 0
    for fn in F.fns:
        tr = fn.impl_trait or ''
        self_s = (fn.impl_self or {}).get('s', '')
        is_attr = self_s.endswith('DifficultyAttributes') or self_s.endswith('PerformanceAttributes')
        if fn.name == 'into_performance' and tr.endswith(('IntoModePerformance', 'IntoPerformance')) and is_attr:
            want = ('difficulty',) if self_s.endswith('PerformanceAttributes') else ()
            kind = 'into'
        elif fn.name == 'from' and tr == 'std::convert::From' and 'MapOrAttrs' in self_s and \
                fn.j['inputs'][0]['s'].endswith(('DifficultyAttributes', 'PerformanceAttributes')):
            want = ('difficulty',) if fn.j['inputs'][0]['s'].endswith('PerformanceAttributes') else ()
            kind = 'from'
        else:
            continue
        ctx.saw(fn)
        rv = prov.prov_of(fn).return_value()
        # helper functions and delegation between the conversion impls are followed down to from_map_or_attrs
        rv = prov.inline_all(F.facts if hasattr(F, 'facts') else F, rv, depth=4, stop=('from_map_or_attrs',), _seen=(fn.path,))
        enum_self = self_s in ('any::attributes::DifficultyAttributes', 'any::attributes::PerformanceAttributes')
        paths = set()
        for nnode in prov.walk(rv, limit=800):
            pp = as_param_path(nnode, through_calls=False)
            if pp is not None and (nnode[0] in ('param', 'field')):
                paths.add(pp)
        # keep maximal paths only
        maximal = {p for p in paths if not any(q != p and q[0] == p[0] and q[1][:len(p[1])] == p[1] for q in paths)}
        if enum_self:
            exp = {(1, ('as ' + CAP[m], '0') + want) for m in MODES}
        else:
            exp = {(1, want)}
        n3 += 1
        key = '%s:%s' % (kind, fn.path)
        deleg = [x for x in prov.walk(rv, limit=300) if x[0] == 'call' and x[1].get('name') == 'into_performance'
                 and (x[1].get('trait') or '').endswith('IntoModePerformance') and as_param_path(x[2][0], through_calls=False) == (1, ())]
        if deleg and maximal == {(1, ())}:
            ctx.ok('C04-R3', key, '%s delegates the whole value to its IntoModePerformance impl (checked separately)' % fn.path, fn.where())
            continue
        ctx.require(maximal == exp and untouched_attrs(rv), 'C04-R3', key, '%s passes %s through unchanged' % (fn.path, 'attrs.difficulty' if want else 'attrs'), fn.where(),
                    bad='%s builds the calculator from %s (expected %s, untouched)' % (fn.path, sorted(maximal), sorted(exp)))
    ctx.floor('C04-R3', n3, 26, 'attribute-to-builder conversions')
    # map-to-builder conversions: the map reaches the builder as it was given.  The conversion to the builder's mode
    # depends on the mods (mania key mods) and therefore has to wait for calculate(), where R1 ties it to self.difficulty.
    n3b = 0
    for fn in F.fns:
        tr = fn.impl_trait or ''
        self_s = (fn.impl_self or {}).get('s', '')
        in0 = fn.j['inputs'][0]['s'] if fn.j.get('inputs') else ''
        if fn.name == 'into_performance' and tr.endswith(('IntoModePerformance', 'IntoPerformance')) and self_s.endswith('model::beatmap::Beatmap'):
            kind = 'into'
        elif fn.name == 'from' and tr == 'std::convert::From' and 'MapOrAttrs' in self_s and in0.endswith('model::beatmap::Beatmap'):
            kind = 'from'
        else:
            continue
        ctx.saw(fn)
        n3b += 1
        rv = prov.prov_of(fn).return_value()
        rv = prov.inline_all(F.facts if hasattr(F, 'facts') else F, rv, depth=4, stop=('from_map_or_attrs',), _seen=(fn.path,))
        why = map_passthrough(rv)
        ctx.require(why is None, 'C04-R3', 'map-%s:%s' % (kind, fn.path), '%s hands the map to the builder as given' % fn.path, fn.where(),
                    bad='%s does not hand the map over as given (%s): a map altered or converted before the settings are known makes the '
                        'map path disagree with the attribute path computed with those settings' % (fn.path, why))
    ctx.floor('C04-R3', n3b, 12, 'map-to-builder conversions')
    for mode in MODES:
        f = F.method(perf(mode), 'from_map_or_attrs', inherent_only=True)
        if f is None:
            ctx.violation('C04-R3', 'anchor-missing:%s:from_map_or_attrs' % mode, 'not found')
            continue
        rv = prov.prov_of(f).return_value()
        # a private constructor step (`Self::with_difficulty(map_or_attrs, Difficulty::new())`) is read through
        rv = prov.inline_all(F, rv, depth=2, _seen=(f.path,), only=lambda f_: (f_.get('impl_adt') or '') == perf(mode) and not f_.get('trait'))
        m = prov.project_field(rv, 'map_or_attrs')
        ctx.require(as_param_path(m, through_calls=False) == (1, ()), 'C04-R3', '%s:from_map_or_attrs' % mode, 'stores its argument as map_or_attrs', f.where(),
                    bad='%s stores `%s`' % (f.path, prov.show(m, maxdepth=3)))
    r4_slot_replacement(ctx, F)
    r5_no_default_attributes(ctx, F)
    ctx.not_decided('numerical equality of the result started from attributes and the result started from the map')


PASS_CALLS = {'into', 'from', 'into_performance', 'from_map_or_attrs'}


def map_passthrough(v, depth=0):
    """None when `v` is parameter 1 wrapped only in identity conversions / enum constructors; else a description"""
    if depth > 12:
        return 'too deep'
    k = v[0]
    if k == 'param':
        return None if v[1] == 1 else 'parameter %d' % v[1]
    if k == 'phi':
        for a in v[1]:
            w = map_passthrough(a, depth + 1)
            if w:
                return w
        return None
    if k == 'call' and v[1].get('name') in PASS_CALLS and len(v[2]) == 1:
        return map_passthrough(v[2][0], depth + 1)
    if k == 'agg' and v[1] == 'adt' and len(v[4]) == 1:
        return map_passthrough(list(v[4].values())[0], depth + 1)
    if k == 'mut':
        vias = sorted({x[1].get('name') or '?' for x in v[2] if x[0] == 'callref'})
        return 'the map is mutably borrowed by %s first' % (', '.join(vias) or 'a write')
    return 'value is `%s`' % prov.show(v, maxdepth=3)[:160]


def helper_sites(F, f, mode):
    """[(ok, description, line)] for calls in f of a local helper that itself calls calculate_for_mode / IGameMode::difficulty"""
    out = []
    P = prov.prov_of(f)
    for bi, t in f.calls():
        if not t['func'].get('local'):
            continue
        h = F.fn(t['func'].get('path'))
        if h is None or h is f:
            continue
        PH = prov.prov_of(h)
        hs = [(hb, ht) for hb, ht in h.calls() if ht['func'].get('name') in ('calculate_for_mode', 'difficulty')
              and (ht['func'].get('impl_adt') == 'any::difficulty::Difficulty' or ht['func'].get('trait') == 'model::mode::IGameMode')]
        if not hs:
            continue
        args = P.call_args(bi)
        inst = (t['func'].get('targs') or []) + (t['func'].get('dargs') or []) + [t['func'].get('self_ty') or '', t['func'].get('impl_self') or '']
        for hb, ht in hs:
            hargs = PH.call_args(hb)
            htargs = ht['func'].get('targs') or ht['func'].get('dargs') or []
            generic = [g.split(':')[0] for g in (h.j.get('generics') or [])]
            own = MODE_MARKER[mode] in htargs or (any(x in generic or '::' not in x for x in htargs) and any(MODE_MARKER[mode] in str(i) for i in inst))
            rp = as_param_path(hargs[0])
            mp = None
            for nnode in prov.walk(hargs[1], limit=100):
                pp = as_param_path(nnode)
                if pp is not None:
                    mp = pp
                    break
            ok = own and rp is not None and mp is not None and rp[0] <= len(args) and mp[0] <= len(args)
            if ok:
                # compose the helper-relative paths with what the caller hands over (the helper may take the parts or the whole builder)
                d0 = as_param_path(args[rp[0] - 1])
                m0 = as_param_path(args[mp[0] - 1])
                d_arg = (d0[0], tuple(d0[1]) + tuple(rp[1])) if d0 is not None else None
                m_arg = (m0[0], tuple(m0[1]) + tuple(mp[1])) if m0 is not None else None
                ok = d_arg == (1, ('difficulty',)) and m_arg is not None and m_arg[0] == 1 and m_arg[1][:1] == ('map_or_attrs',)
            out.append((ok, 'via %s: mode %s (instantiated with %s), Difficulty `%s`, map `%s`' % (
                h.path.split('::')[-1], htargs, [i for i in inst if MODE_MARKER[mode] in str(i)][:1], prov.show(args[rp[0] - 1], maxdepth=3) if rp and rp[0] <= len(args) else '?',
                prov.show(args[mp[0] - 1], maxdepth=3) if mp and mp[0] <= len(args) else '?'), t.get('ln')))
    return out


def untouched_attrs(v):
    return not any(n[0] in ('update', 'binop', 'unop') for n in prov.walk(v, limit=600))


# ---- R4: the map / attributes slot of a builder is replaced only by attributes computed from the map it held
def r4_slot_replacement(ctx, F):
    """`generate_state` swaps `Map(..)` for `Attrs(<computed>)` through MapOrAttrs::insert_attrs.  Anything else that empties or overwrites the slot —
    mem::take / mem::replace / mem::swap on a MapOrAttrs, or an `Attrs(..)` literal that is not insert_attrs' own parameter — can leave a builder that
    answers from placeholder attributes after a failed or interrupted first call."""
    n = 0
    for fn in F.fns:
        P = None
        for bi, t in fn.calls():
            f = t['func']
            if f.get('name') in ('replace', 'take', 'swap') and (f.get('path') or '').startswith(('core::mem::', 'std::mem::')) and \
                    any('MapOrAttrs' in str(x) for x in (f.get('targs') or []) + (f.get('dargs') or [])):
                ctx.violation('C04-R4', 'slot:%s:%s' % (fn.path, f.get('name')), '%s moves the map / attributes slot out with mem::%s: between that and the moment computed attributes are '
                              'stored the builder holds a placeholder — an early return (`?` on a ConvertError) leaves it there, and the next generate_state() / calculate() '
                              'answers from it instead of repeating the error' % (fn.path, f.get('name')), fn.where(t.get('ln')))
        for bi, si, s_ in fn.assigns():
            rv = s_['rv']
            if rv['k'] == 'agg' and rv.get('ak') == 'adt' and (rv.get('adt') or '').endswith('MapOrAttrs') and rv.get('variant') == 'Attrs':
                n += 1
                P = P or prov.prov_of(fn)
                v = P.operand(rv['ops'][0], bi, si)
                src = as_param_path(v, through_calls=False)
                computed = any(x[0] == 'call' and x[1].get('name') in ('calculate', 'calculate_for_mode', 'difficulty') for x in prov.walk(v, limit=200))
                ok = src is not None or computed or fn.impl_trait in ('std::clone::Clone', 'std::convert::From')
                ctx.require(ok, 'C04-R4', 'attrs-literal:%s' % fn.path, '%s wraps %s into MapOrAttrs::Attrs' % (fn.path, 'its parameter' if src is not None else 'computed attributes'), fn.where(s_.get('ln')),
                            bad='%s builds MapOrAttrs::Attrs(`%s`): attributes that are neither handed in nor computed from the map take the place of the map' % (fn.path, prov.show(v, maxdepth=3)))
    ctx.floor('C04-R4', n, 1, 'MapOrAttrs::Attrs literals (insert_attrs, conversions)')


# ---- R5: a difficulty entry point never answers with default attributes
def r5_no_default_attributes(ctx, F, rule='C04-R5'):
    """every value the one-shot difficulty entry points return carries the mode's calculation; a `Default::default()` alternative (an early exit for empty or
    one-object inputs) reports AR / HP / hit windows / counts of 0 where the attribute path and the performance path compute the real ones"""
    entries_ = [('any::difficulty::Difficulty::calculate', None)] + [('%s::difficulty::difficulty' % m, m) for m in MODES]
    n = 0
    for path, mode in entries_:
        f = F.fn(path)
        if f is None:
            ctx.violation(rule, 'anchor-missing:' + path, 'not found')
            continue
        ctx.saw(f)
        rv = prov.prov_of(f).return_value()
        # `convert_ref(..).map(|map| second_phase(difficulty, &map))`: the combinator and the second phase are read through
        import combin
        rv = combin.expand(F, rv)
        def _private_method(f_):
            # a private inherent helper of the builder (`calculate_native::<M>` = `calculate_for_mode::<M>(..).expect(..)`) is read through as well
            g_ = F.fn(f_.get('path') or '')
            return g_ is not None and f_.get('impl_adt') == 'any::difficulty::Difficulty' and not str(g_.j.get('vis')).startswith('Public')
        rv = prov.inline_all(F, rv, depth=2, _seen=(f.path,), only=lambda f_: not f_.get('trait') and f_.get('name') not in ('difficulty',) and
                             ((not f_.get('impl_adt') and (f_.get('path') or '').startswith(path.rsplit('::', 1)[0])) or _private_method(f_)), loops_ok=False)

        def alts(v, depth=0):
            v = prov.strip(v, names={'expect', 'unwrap'})
            if v[0] == 'phi' and depth < 4:
                out = []
                for a in v[1]:
                    out += alts(a, depth + 1)
                return out
            if v[0] == 'agg' and v[1] == 'adt' and v[3] in ('Ok', 'Some', 'Osu', 'Taiko', 'Catch', 'Mania') and '0' in v[4] and depth < 4:
                return alts(v[4]['0'], depth + 1)
            return [v]
        bad = []
        for a in alts(rv):
            a = prov.strip(a, names=set())
            if a[0] == 'agg' and a[3] == 'Err':
                continue
            if a[0] == 'call' and a[1].get('name') in ('from_residual',):
                continue
            n += 1
            is_default = (a[0] == 'call' and a[1].get('name') == 'default') or (a[0] == 'call' and (a[1].get('trait') or '').endswith('Default'))
            carries = any(x[0] == 'call' and (x[1].get('name') in ('calculate', 'difficulty', 'eval', 'calculate_for_mode')) and x[1].get('local') for x in prov.walk(a, limit=600))
            if is_default or not carries:
                bad.append(prov.show(a, maxdepth=2)[:80])
        ctx.require(not bad, rule, 'entry:' + path, '%s: every returned value comes from the mode\'s calculation' % path, f.where(),
                    bad='%s can return `%s` — attributes that did not go through the calculation (AR, HP, hit windows, counts all 0): for that input the attribute path and the map path of a '
                        'performance calculation disagree, and so does the builder' % (path, '` / `'.join(bad)))
    ctx.floor(rule, n, 5, 'returned alternatives of the difficulty entry points')
