"""C10 — features never change results: structural part."""
import fingerprint as fp
import guardrule

EXPLANATION = (
    "R1: all four feature combinations type-check (the fact extraction IS `cargo +nightly check` per configuration). "
    "R2: every function body gets a fingerprint independent of local types and generic arguments (ordered resolved "
    "callees, evaluated constants, rvalue/terminator kinds); the set of items that exist in only one configuration or "
    "whose fingerprint differs from the default build must lie inside util::strains_vec and util::sync — a cfg(feature) "
    "or cfg!(feature) that changes behaviour anywhere else shows up as a differing fingerprint. R3: RefCount guard "
    "discipline holds under both RefCount bodies (RefCell panics / RwLock self-deadlocks on a conflict). R4: both bodies of "
    "StrainsVec::push store `value` only under the same positivity test and a zero otherwise (sibling normalisation). Numerical "
    "equivalence of the compact and the raw StrainsVec bodies is NOT decided (they treat negative/NaN pushes "
    "differently; equality needs every pushed strain >= 0)."
    " R5: sum / iter / into_vec / clone of both bodies traverse the whole list (no truncating adaptor applied to the list itself — for clone no filtering one either —, private helpers followed)."
    " R6: the compact body keeps its element count in a field that retain_non_zero* does not maintain (the raw body answers Vec::len()): no caller may ask len()/iter() on a list after a count-desynchronising call on it (helpers inlined; the rule discharges itself once every shrinking method maintains the count). R7: a body of util::sync that differs between the default and the sync build is a straight-line wrapper of Rc/Arc, RefCell/RwLock and their guards (no loop, no other callee): logic placed there would escape R2's comparison of the builds."
)

CONFINED = ('util::strains_vec::', 'util::sync::', '<util::strains_vec::', '<util::sync::')


def confined(path):
    return path.startswith(CONFINED)


def run(ctx):
    names = ['default', 'raw_strains', 'sync', 'raw_strains+sync']
    facts = {}
    for c in names:
        facts[c] = ctx.facts(c)          # raises FactsError (-> VIOLATION) if the configuration does not build
        ctx.ok('C10-R1', 'build:' + c, 'cargo +nightly check --features "%s": ok, %d bodies' % (
            ','.join(c.split('+')) if c != 'default' else '', len(facts[c].fns)))
    rel = []
    if ctx.tier == 'thorough':
        for c in names:
            F = ctx.facts(c, release=True)
            rel.append((c, F))
            ctx.ok('C10-R1', 'build:%s:release' % c, 'release profile (debug_assertions off): ok, %d bodies' % len(F.fns))
    base = fp.table(facts['default'])
    for fn in facts['default'].fns:
        ctx.saw(fn)
    for c in names[1:]:
        t = fp.table(facts[c])
        only_a = sorted(set(base) - set(t))
        only_b = sorted(set(t) - set(base))
        differ = sorted(p for p in base if p in t and base[p] != t[p])
        bad = 0
        for p in only_a + only_b:
            if not confined(p):
                bad += 1
                ctx.violation('C10-R2', '%s:only:%s' % (c, p), 'item %s exists only %s the feature(s) %s but lies outside '
                              'util::strains_vec / util::sync' % (p, 'without' if p in base else 'with', c))
        for p in differ:
            if not confined(p):
                bad += 1
                i, x, y = fp.diff(base[p], t[p])
                fn = facts[c].fn(p)
                ctx.violation('C10-R2', '%s:differs:%s' % (c, p), 'body of %s differs between the default build and `%s` '
                              '(element %d: `%s` vs `%s`): feature-dependent behaviour outside the two sibling modules'
                              % (p, c, i, x, y), fn.where() if fn else None)
        ctx.ok('C10-R2', 'confined:' + c, '%d bodies compared with the default build: %d exist in one configuration only, %d differ; '
               '%d outside util::strains_vec / util::sync' % (len(set(base) | set(t)), len(only_a) + len(only_b), len(differ), bad))
        common = len(set(base) & set(t))
        ctx.floor('C10-R2', common, 1300, 'bodies common to default and ' + c)
    # control: the fingerprint must tell the two sibling bodies of StrainsVec::push apart
    traw = fp.table(facts['raw_strains'])
    pushes = [p for p in base if p.endswith('StrainsVec::push') and p in traw]
    ctx.control('C10-R2', bool(pushes) and all(base[p] != traw[p] for p in pushes),
                'fingerprint distinguishes the compact and the raw body of StrainsVec::push')
    tsync = fp.table(facts['sync'])
    gets = [p for p in base if p.endswith('RefCount::<T>::get_mut') and p in tsync]
    ctx.control('C10-R2', bool(gets) and all(base[p] != tsync[p] for p in gets),
                'fingerprint distinguishes the RefCell and the RwLock body of RefCount::get_mut')
    for c, F in rel:
        t = fp.table(F)
        b = fp.table(rel[0][1])
        if c == 'default':
            continue
        bad = [p for p in set(b) ^ set(t) if not confined(p)] + [p for p in b if p in t and b[p] != t[p] and not confined(p)]
        for p in bad:
            ctx.violation('C10-R2', '%s:release:%s' % (c, p), 'release body of %s differs between default and %s' % (p, c))
        ctx.ok('C10-R2', 'confined:%s:release' % c, 'release profile: %d bodies compared, %d outside the sibling modules differ' % (len(t), len(bad)))
    # R4 sibling normalisation of StrainsVec::push: whatever the compact body does not store as a value (non-positive, -NaN) it counts
    # as zero; the raw body must push `value` only under the same positivity facts and a zero otherwise
    r4_push(ctx, facts)
    r5_whole_traversal(ctx, facts)
    r6_len_after_shrink(ctx, facts)
    r7_sync_wrappers_only(ctx, facts, fp)
    # R3 both RefCount bodies
    for c in ('default', 'sync') + (('raw_strains', 'raw_strains+sync') if ctx.tier == 'thorough' else ()):
        nsites, nw = guardrule.check(ctx, facts[c], 'C10-R3', tag='[%s]' % c)
        ctx.floor('C10-R3', nw, 13, 'RefCount::get_mut sites [%s]' % c)
    guardrule.controls(ctx, ctx.fixture(), 'C10-R3')
    ctx.assume('std RwLock: a recursive read on one thread blocks only when a writer is waiting; no other thread can hold a handle '
               '(C20-R4), so read-under-read nestings behave as with RefCell')
    ctx.not_decided('numerical equivalence of the compact (run-length) and the raw StrainsVec bodies')


def positivity_facts(fn, bb, arg):
    """does `arg` hold positive & non-zero on entry to bb? (the fact set accepted by C11-R2)"""
    import arms
    import prov
    pos = nz = gt0 = False
    for c, lab in arms.bool_facts(fn, bb):
        if lab != 'true':
            continue
        c = prov.strip(c, names={'likely', 'unlikely'})
        if c[0] == 'call' and c[1].get('name') == 'is_sign_positive' and c[2][0] == arg:
            pos = True
        if c[0] == 'binop' and c[1] in ('Gt', 'Ne'):
            l, r = c[2], c[3]
            if l[0] == 'call' and l[1].get('name') == 'to_bits' and l[2][0] == arg and prov.const_val(r) == '0':
                nz = True
            if c[1] == 'Gt' and l == arg and prov.const_val(r) in ('0.0', '0'):
                gt0 = True
    return (pos and nz) or gt0


def r4_push(ctx, facts):
    import prov
    for cname in ('default', 'raw_strains'):
        F = facts[cname]
        f = F.fn('util::strains_vec::inner::StrainsVec::push')
        if f is None:
            ctx.violation('C10-R4', 'anchor-missing:push:' + cname, 'StrainsVec::push not found in configuration %s' % cname)
            continue
        P = prov.prov_of(f)
        stores = []
        for bi, t in f.calls():
            name = t['func'].get('name')
            if name == 'new_value':
                stores.append((bi, t, P.call_args(bi)[0], 'value'))
            elif name == 'push' and (t['func'].get('path') or '').startswith('std::vec::Vec'):
                a = P.call_args(bi)[1]
                sa = prov.strip(a)
                if sa[0] == 'call' and sa[1].get('name') in ('new_value', 'new_zero'):
                    continue        # compact body: the entry constructor is judged instead
                # a value chosen earlier (`let stored = if test { value } else { 0.0 }`): judge each alternative where it is chosen
                op = t['args'][1]
                alts = []
                if a[0] == 'phi' and op.get('k') in ('copy', 'move') and 'proj' not in op['p']:
                    defs = P.reaching(op['p']['l'], bi, len(f.blocks[bi]['s']))
                    for _ in range(3):
                        if len(defs) == 1 and defs[0].kind == 'assign' and defs[0].data['rv']['k'] == 'use' and \
                                defs[0].data['rv']['op'].get('k') in ('copy', 'move') and 'proj' not in defs[0].data['rv']['op']['p']:
                            d0 = defs[0]
                            defs = P.reaching(d0.data['rv']['op']['p']['l'], d0.bb, d0.idx)
                        else:
                            break
                    if len(defs) >= 2:
                        alts = [(d.bb, P.def_value(d)) for d in defs]
                if alts:
                    for dbb, dv in alts:
                        stores.append((dbb, t, dv, 'raw'))
                else:
                    stores.append((bi, t, a, 'raw'))
        bad = []
        nval = 0
        for bi, t, a, kind in stores:
            sa = prov.strip(a)
            if sa[0] == 'const' and sa[1].get('val') in ('0.0', '0', '-0.0'):
                continue
            if sa == ('param', 2):
                nval += 1
                if not positivity_facts(f, bi, sa):
                    bad.append(t.get('ln'))
            else:
                bad.append(t.get('ln'))
        # every call of push must record exactly one section: each path to the return passes a store
        def stores_of(g, depth=0):
            """blocks of g that record a section: Vec::push, incr_zero_count, or a call of a private StrainsVec helper that itself
            records one on every path (`self.push_zero()`)"""
            out = set()
            for bi_, t_ in g.calls():
                nm = t_['func'].get('name')
                if (nm == 'push' and (t_['func'].get('path') or '').startswith('std::vec::Vec')) or nm == 'incr_zero_count':
                    out.add(bi_)
                elif depth < 2 and t_['func'].get('local') and (t_['func'].get('impl_adt') or '').endswith('StrainsVec'):
                    h = F.fn(t_['func'].get('path') or '')
                    if h is not None and h is not g:
                        hs = stores_of(h, depth + 1)
                        if hs and h.cfg.must_pass_through(0, hs):
                            out.add(bi_)
            return out
        store_blocks = stores_of(f)
        every_path = bool(store_blocks) and f.cfg.must_pass_through(0, store_blocks)
        ctx.require(every_path, 'C10-R4', 'push-total:' + cname, 'StrainsVec::push [%s] records one section on every path (%d store site(s))' % (cname, len(store_blocks)), f.where(),
                    bad='StrainsVec::push [%s] can return without recording the section: the number of strain sections (and everything zipped by index, e.g. taiko\'s '
                        'combined peaks) then differs between feature configurations' % cname)
        ctx.require(not bad and nval >= 1, 'C10-R4', 'push:' + cname,
                    'StrainsVec::push [%s] stores `value` only under the positivity test (value.to_bits() > 0 && is_sign_positive, or value > 0.0); everything else is a zero' % cname,
                    f.where(), bad='StrainsVec::push [%s] stores its argument without the positivity test the sibling implementation applies (line(s) %s): a negative strain '
                                   'is a zero in one feature configuration and a negative number in the other, so results differ between builds' % (cname, bad))


# ---- R5: the consumers that do not sort first (sum, iter, into_vec) traverse the WHOLE list in both bodies
TRUNCATING = ('take_while', 'take', 'skip', 'skip_while', 'step_by', 'map_while', 'truncate', 'split_at', 'split_first', 'split_last')
FILTERING = ('filter', 'filter_map', 'retain', 'retain_mut', 'dedup', 'dedup_by', 'dedup_by_key')          # a copy must not drop entries either


def r5_whole_traversal(ctx, facts):
    import prov
    n = 0
    for cname in ('default', 'raw_strains'):
        F = facts[cname]
        for name in ('sum', 'iter', 'into_vec', 'clone'):
            f = F.fn('util::strains_vec::inner::StrainsVec::%s' % name) or (F.method('util::strains_vec::inner::StrainsVec', 'clone', trait='std::clone::Clone') if name == 'clone' else None)
            if f is None:
                ctx.violation('C10-R5', 'anchor-missing:%s:%s' % (name, cname), 'StrainsVec::%s not found in configuration %s' % (name, cname))
                continue
            n += 1
            # calls made by the method itself and by the private StrainsVec helpers it goes through
            seen, work, cuts = set(), [f], []
            while work:
                g = work.pop()
                if g.path in seen:
                    continue
                seen.add(g.path)
                for bi, t in g.calls():
                    nm = t['func'].get('name')
                    if (nm in TRUNCATING or (name == 'clone' and nm in FILTERING)) and (t['func'].get('krate') in ('core', 'std', 'alloc')) and \
                            any(x[0] == 'field' and x[2] == 'inner' for x in prov.walk(prov.prov_of(g).call_args(bi)[0], limit=80)):
                        # only a cut of the list itself counts (`repeat(0.0).take(n)` for a zero run is fine)
                        cuts.append('%s in %s (line %s)' % (nm, g.path.split('::')[-1], t.get('ln')))
                    if t['func'].get('local') and (t['func'].get('impl_adt') or '').endswith('StrainsVec') and len(seen) < 6:
                        h = F.fn(t['func'].get('path') or '')
                        if h is not None:
                            work.append(h)
            ctx.require(not cuts, 'C10-R5', '%s:%s' % (name, cname), 'StrainsVec::%s [%s] traverses the whole list (no truncating adaptor)' % (name, cname), f.where(),
                        bad='StrainsVec::%s [%s] goes through %s: on an unsorted list of section peaks it stops at the first zero section, while the sibling '
                            'body takes every section into account — the two feature configurations give different results (flashlight rating, exported strains)' % (
                                name, cname, '; '.join(cuts)))
    ctx.floor('C10-R5', n, 6, 'whole-list consumers of StrainsVec (sum, iter, into_vec, clone in both bodies)')


# ---- R6: the compact body keeps its element count in a separate field; a method that shrinks the list without maintaining that count
# leaves len()/iter() answering for the unshrunk list, while the raw body answers Vec::len() — whoever asks after such a call gets a
# feature-dependent number
SHRINKERS = ('retain', 'retain_mut', 'truncate', 'clear', 'pop', 'remove', 'swap_remove', 'drain', 'dedup', 'dedup_by', 'dedup_by_key', 'split_off')


def _root(fn, op, depth=0):
    """identity of the variable an operand refers to: (local, field names...) followed back through reborrows, copies and moves"""
    if not isinstance(op, dict) or op.get('k') not in ('copy', 'move') or depth > 12:
        return None
    p = op['p']
    return _root_place(fn, p, depth)


def _root_place(fn, p, depth=0):
    fields = tuple(e.get('f') for e in p.get('proj', []) if isinstance(e, dict) and 'f' in e)
    l = p['l']
    if l <= fn.argc:
        return (l,) + fields
    defs = [s for b in fn.blocks if not b.get('cleanup') for s in b['s'] if s['k'] == 'assign' and s['p']['l'] == l and 'proj' not in s['p']]
    if len(defs) == 1 and depth < 12:
        rv = defs[0]['rv']
        if rv['k'] in ('ref', 'rawptr'):
            r = _root_place(fn, rv['p'], depth + 1)
            return r + fields if r else None
        if rv['k'] == 'use' and rv['op'].get('k') in ('copy', 'move'):
            r = _root_place(fn, rv['op']['p'], depth + 1)
            return r + fields if r else None
    return (l,) + fields


def count_desync(F, adt, count_field='len', list_field='inner'):
    """(methods of adt that shrink self.<list_field> — directly or through such a method — without writing self.<count_field>,
        functions that answer from self.<count_field>)"""
    import fieldidx
    import prov
    writers = {a['fn'].path for a in fieldidx.accesses(F, adt, count_field) if a['kind'] in ('assign', 'mutborrow')}
    methods = F.methods(adt=adt)
    desync = {}
    for m in methods:
        if m.path in writers:
            continue
        P = prov.prov_of(m)
        for bi, t in m.calls():
            f = t['func']
            if f.get('name') in SHRINKERS and f.get('krate') in ('core', 'std', 'alloc') and t['args'] and \
                    any(x[0] == 'field' and x[2] == list_field for x in prov.walk(P.call_args(bi)[0], limit=60)):
                desync[m.path] = '%s::%s of the list' % (f.get('krate'), f.get('name'))
    grew = True
    while grew:
        grew = False
        for m in methods:
            if m.path in desync or m.path in writers:
                continue
            for bi, t in m.calls():
                cp = t['func'].get('path') or ''
                if cp in desync and t['args'] and _root(m, t['args'][0]) == (1,):
                    desync[m.path] = 'calls %s' % cp.split('::')[-1]
                    grew = True
                    break
    # readers: functions whose answer depends on the count field (a read that only sizes an allocation does not)
    readers = {}
    for a in fieldidx.accesses(F, adt, count_field):
        if a['kind'] not in ('read', 'move', 'borrow'):
            continue
        fn = a['fn']
        s = a['stmt']
        if s is not None and s['k'] == 'assign' and 'proj' not in s['p']:
            l = s['p']['l']
            uses = []
            for b in fn.blocks:
                if b.get('cleanup'):
                    continue
                t = b['t']
                if t['k'] == 'call' and any(o.get('k') in ('copy', 'move') and o['p']['l'] == l for o in t['args']):
                    uses.append(t['func'].get('name'))
                for s2 in b['s']:
                    if s2 is not s and s2['k'] == 'assign' and ('"l": %d' % l) in __import__('json').dumps(s2['rv']):
                        uses.append('stmt')
            if uses and all(u in ('with_capacity', 'reserve', 'reserve_exact') for u in uses):
                continue
        if fn.impl_trait in ('std::clone::Clone', 'std::fmt::Debug'):
            continue
        readers[fn.path] = 'reads .%s' % count_field
    grew = True
    while grew:
        grew = False
        for m in F.fns:
            if m.path in readers or m.path in desync:
                continue
            if not (m.self_adt == adt or m.path.startswith(adt.rsplit('::', 1)[0])):
                continue
            for bi, t in m.calls():
                cp = t['func'].get('path') or ''
                if cp in readers and F.fn(cp) is not None and F.fn(cp).kind == 'AssocFn' and t['args']:
                    readers[m.path] = 'calls %s' % cp.split('::')[-1]
                    grew = True
                    break
    for p in list(readers):
        if p in writers and p not in desync:
            # a method that maintains the count (push) reads it too: it is not an observer
            del readers[p]
    return desync, readers


def len_after_shrink_sites(F, adt, desync, readers, confined_prefix):
    """(function, shrinking call, observing call) triples outside the sibling module: an observer of the count reachable after a
    desynchronising call on the same list"""
    import inline
    out = []
    nsh = 0
    field_sh, field_ob = {}, {}          # (type, field path of self) -> calls: a list kept in a field outlives the call
    for fn0 in F.fns:
        if fn0.path.startswith(confined_prefix) or fn0.kind == 'Closure' and fn0.path.startswith(confined_prefix):
            continue
        names = {(t['func'].get('path') or '') for _, t in fn0.calls()}
        if not (names & set(desync)) and not (fn0.self_adt and names & set(readers)):
            continue
        fn = inline.inlined(F, fn0, depth=2, stop=_STOP_SV)
        sh, ob = [], []
        for bi, t in fn.calls():
            cp = t['func'].get('path') or ''
            if cp in desync and t['args']:
                sh.append((bi, _root(fn, t['args'][0]), cp, t))
            elif cp in readers and t['args']:
                ob.append((bi, _root(fn, t['args'][0]), cp, t))
        nsh += len(sh)
        for bi, r, cp, t in sh:
            for bj, r2, cp2, t2 in ob:
                if r is not None and r == r2 and bi != bj and fn.cfg.can_reach(bi, bj):
                    out.append((fn0, cp, t, cp2, t2))
        if fn0.self_adt and fn0.kind == 'AssocFn' and fn0.j.get('inputs') and str(fn0.j['inputs'][0].get('s', '')).startswith('&mut'):
            for bi, r, cp, t in sh:
                if r is not None and r[0] == 1 and len(r) > 1:
                    field_sh.setdefault((fn0.self_adt, r[1:]), []).append((fn0, cp, t))
        if fn0.self_adt and fn0.kind == 'AssocFn':
            for bj, r2, cp2, t2 in ob:
                if r2 is not None and r2[0] == 1 and len(r2) > 1:
                    field_ob.setdefault((fn0.self_adt, r2[1:]), []).append((fn0, cp2, t2))
    seen = {(fn.path, t2.get('ln')) for fn, _, _, _, t2 in out}
    for key, shs in field_sh.items():
        for fn_o, cp2, t2 in field_ob.get(key, []):
            if (fn_o.path, t2.get('ln')) in seen:
                continue
            # the shrunk list stays in self.<field>: whichever method is called next observes the stale count
            out.append((fn_o, shs[0][1], shs[0][2], cp2, t2))
    return out, nsh


def _STOP_SV(g):
    return 'strains_vec' in g.path or g.path.startswith('c10::CompactVec')


def r6_len_after_shrink(ctx, facts):
    F = facts['default']
    SV = 'util::strains_vec::inner::StrainsVec'
    desync, readers = count_desync(F, SV)
    if not F.methods(adt=SV):
        ctx.violation('C10-R6', 'anchor-missing:StrainsVec', 'compact StrainsVec not found')
        return
    if not desync:
        ctx.ok('C10-R6', 'count-maintained', 'every compact StrainsVec method that shrinks the list also maintains the element count: len()/iter() may be asked at any time')
    else:
        sites, nsh = len_after_shrink_sites(F, SV, desync, readers, 'util::strains_vec')
        for fn, cp, t, cp2, t2 in sites:
            ctx.violation('C10-R6', 'len-after-shrink:%s:%s' % (fn.path, cp2.split('::')[-1]),
                          '%s asks StrainsVec::%s (line %s) after StrainsVec::%s (line %s) on the same list: the compact body still counts the removed zero sections '
                          '(%s does not maintain the count) while the raw_strains body answers Vec::len() — the value differs between feature configurations' % (
                              fn.path, cp2.split('::')[-1], t2.get('ln'), cp.split('::')[-1], t.get('ln'), ', '.join(sorted(x.split('::')[-1] for x in desync))), fn.where(t2.get('ln')))
        ctx.ok('C10-R6', 'scan', '%d call(s) of count-desynchronising methods (%s) outside util::strains_vec; observers of the count: %s; %d observed after a shrink' % (
            nsh, ', '.join(sorted(x.split('::')[-1] for x in desync)), ', '.join(sorted(x.split('::')[-1] for x in readers)), len(sites)))
        ctx.floor('C10-R6', nsh, 1, 'retain/sort call sites on strain peaks')
    fx = ctx.fixture()
    d2, r2 = count_desync(fx, 'c10::CompactVec')
    s2, _ = len_after_shrink_sites(fx, 'c10::CompactVec', d2, r2, 'c10::CompactVec')
    names = {fn.path for fn, *_ in s2}
    ctx.control('C10-R6', 'c10::len_after_retain' in names, 'len() after a count-desynchronising retain is flagged')
    ctx.control('C10-R6', 'c10::Carry::step' in names, 'a list kept in a field: len() in a later call after a count-desynchronising retain is flagged')
    ctx.control('C10-R6', 'c10::len_before_retain' not in names, 'negative control: len() before the retain, and a count read that only sizes an allocation, are accepted')


# ---- R7: what may differ inside util::sync is the primitive, nothing else (seed C10-7: a search helper with a `sync`-only shortcut)
SYNC_MOD = ('util::sync::', '<util::sync::')
WRAP_OK = ('std::rc::', '<std::rc::', 'std::sync::', '<std::sync::', 'std::cell::', '<std::cell::', 'util::sync::', '<util::sync::',
           'std::option::Option::<T>::map', 'std::result::Result::<T, E>::unwrap', 'std::result::Result::<T, E>::expect',
           'std::ops::FnOnce::call_once', 'std::ops::Fn::call', 'std::ops::FnMut::call_mut', 'core::panicking::', 'std::rt::', 'core::fmt::', 'std::fmt::')


def r7_sync_wrappers_only(ctx, facts, fp):
    """R2 lets the bodies of util::sync differ between the default and the `sync` build.  That licence covers the choice of primitive only: a body of that module that
    differs (or exists in one configuration only) is straight-line code over Rc/Arc, RefCell/RwLock and their guards.  Anything with logic of its own — a search, a
    shortcut, a fallback — must be the same code in both builds, where R2's fingerprint comparison sees it."""
    base = fp.table(facts['default'])
    n = 0
    for c in ('sync', 'raw_strains+sync'):
        t = fp.table(facts[c])
        for cfg_name, F, mine, other in (('default', facts['default'], base, t), (c, facts[c], t, base)):
            if cfg_name == 'default' and c != 'sync':
                continue
            for fn in F.fns:
                if not fn.path.startswith(SYNC_MOD) or fn.j.get('cfg_test'):
                    continue
                if fn.path in other and other[fn.path] == mine.get(fn.path):
                    continue
                n += 1
                ctx.saw(fn)
                loops = fn.cfg.sccs()
                alien = sorted(set((t_['func'].get('path') or t_['func'].get('name') or '?') for _, t_ in fn.calls()
                                   if not (t_['func'].get('path') or '').startswith(WRAP_OK)))
                key = '[%s]wrapper:%s' % (cfg_name, fn.path)
                ctx.require(not loops and not alien, 'C10-R7', key, '%s (%s build) is a straight-line wrapper of the shared-pointer / lock primitive' % (fn.path, cfg_name), fn.where(),
                            bad='%s has a body of its own in the %s build that %s: inside util::sync only the primitive (Rc/Arc, RefCell/RwLock, their guards) may differ '
                                'between the builds — logic placed here escapes the comparison of the two builds' % (
                                    fn.path, cfg_name, ('loops' if loops else 'calls ' + ', '.join(alien[:4]))))
    ctx.floor('C10-R7', n, 16, 'feature-dependent bodies of util::sync (both directions, two sync configurations)')
