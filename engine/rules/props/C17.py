"""C17 — attribute builder: flow clauses."""
import combin
import entries
import prov
from common import as_param_path, delta_fields

EXPLANATION = (
    "R6: no one-shot difficulty entry point (Difficulty::calculate, <mode>::difficulty::difficulty) returns attributes that did not go through the calculation (an early exit with Default::default() reports AR / HP / hit windows of 0 where the builder gives the real ones). "
    "Flow clauses over resolved MIR: build() calls self.hit_windows() once on the unmodified builder, stores that value in "
    "BeatmapAttributes.hit_windows and derives ar (and od for osu/taiko) from its fields (R1); the calculators copy AR/HP/"
    "hit windows from Beatmap::attributes(converted map).difficulty(difficulty parameter).{build, hit_windows}() field by "
    "field (osu 5, catch 1, taiko one-shot + gradual 2+2) (R2); BeatmapAttributesBuilder::difficulty takes each of "
    "ar/od/cs/hp from the same-named Difficulty getter, mods from get_mods and clock_rate from get_clock_rate (R3); for each "
    "X in {ar, od, cs, hp} the private field written by the public setter X = the field overwritten from get_X = the field "
    "whose value reaches the public output X (and HitWindows.ar / od_great for ar / od), and no other attribute slot "
    "reaches it (R4); every HR/EZ-dependent scaling (arithmetic under a hr()/ez() test, a multiplication by od_ar_hp_multiplier(), or a call "
    "of a helper / closure that does so to its argument) of a value read from slot X happens only where X.with_mods() is known to be false (R5: "
    "necessary for 'a value given with with_mods=true is reported back unchanged'). R7: OsuDifficultyAttributes::od() is the builder's own conversion of the great hit window (same expression with the hit window as W). Round trip, monotonicity, HR/EZ ordering are real analysis over a piecewise-linear map: NOT decided.")

B = 'model::beatmap::attributes::BeatmapAttributesBuilder'
ATTRS4 = ('ar', 'od', 'cs', 'hp')


def self_fields_read(v, param=1):
    out = set()
    for n in prov.walk(v, limit=4000):
        pp = as_param_path(n, through_calls=False)
        if pp is not None and pp[0] == param and pp[1] and n[0] == 'field':
            out.add(pp[1][0])
    return out


def from_builder(F, fn, v):
    """v == <X>.<fields> with X = build/hit_windows(difficulty(attributes(MAP), DIFF)).
    returns (final, field path, map_ok, diff_ok) or None"""
    # a private carrier of the builder output (`TaikoHitWindows::new(difficulty, map).great`) is read through
    # ... also when the carrier is the mode's DifficultyValues (whose constructor loops over the objects: only the projected field is looked at)
    v = prov.inline_all(F, v, depth=2, _seen=(fn.path,), only=lambda f_: not f_.get('trait') and '{closure' not in (f_.get('path') or '') and
                        (f_.get('impl_adt') or '') != B and not (f_.get('impl_adt') or '').endswith(('Beatmap', 'Difficulty')), loops_ok=True)
    v = prov.strip(v, names=set())
    if v[0] == 'call' and v[1].get('name') in ('unwrap_or', 'unwrap_or_default') and v[2]:
        v = prov.strip(v[2][0], names=set())
    elif v[0] == 'phi' and len(v[1]) == 2:
        # the same written as a match: `match x.od_ok { Some(v) => v, None => 0.0 }` = phi(const | (x.od_ok as Some).0)
        alts_ = [prov.strip(a_, names=set()) for a_ in v[1]]
        nc = [a_ for a_ in alts_ if a_[0] != 'const']
        if len(nc) == 1 and nc[0][0] == 'field' and nc[0][2] == '0':
            inner_ = prov.strip(nc[0][1], names=set())
            if inner_[0] == 'variant' and inner_[2] == 'Some':
                v = prov.strip(inner_[1], names=set())
    path = []
    while v[0] == 'field':
        path.append(v[2])
        v = prov.strip(v[1], names=set())
    path.reverse()
    if v[0] != 'call' or v[1].get('impl_adt') != B or v[1].get('name') not in ('build', 'hit_windows'):
        return None
    final = v[1]['name']
    d = prov.strip(v[2][0], names=set())
    if d[0] != 'call' or d[1].get('impl_adt') != B or d[1].get('name') != 'difficulty':
        return None
    a = prov.strip(d[2][0], names=set())
    diff = as_param_path(d[2][1])
    diff_ok = diff is not None and diff[1] == () and 'Difficulty' in fn.j['inputs'][diff[0] - 1]['s']
    if a[0] != 'call' or a[1].get('name') != 'attributes':
        return None
    m = a[2][0]
    map_ok = entries.from_convert_ref(F, m)
    if not map_ok:
        pp = as_param_path(m)
        if pp is not None and pp[1] == ():
            map_ok = not entries.always_converted(F, fn, pp[0])
    return final, tuple(path), map_ok, diff_ok


def run(ctx):
    F = ctx.facts('default')
    build = F.method(B, 'build', inherent_only=True)
    hw = F.method(B, 'hit_windows', inherent_only=True)
    diff = F.method(B, 'difficulty', inherent_only=True)
    if not (build and hw and diff):
        ctx.violation('C17-R1', 'anchor-missing:builder', 'BeatmapAttributesBuilder::{build, hit_windows, difficulty} not all found')
        return
    for f in (build, hw, diff):
        ctx.saw(f)
    # ---- R1
    P = prov.prov_of(build)
    # `hit_windows()` may be a thin wrapper of a private core (`self.hit_windows_at(<resolved clock rate>)`): build() calling that core on `self`
    # with the very same argument expressions over `self` is the same call
    import combin as _cb
    HW_NAMES = ['hit_windows']
    core_sig = None
    _hrv = prov.strip(prov.prov_of(hw).return_value(), names=set())
    if _hrv[0] == 'call' and _hrv[1].get('impl_adt') == B and _hrv[1].get('local') and _hrv[2] and \
            as_param_path(_hrv[2][0], through_calls=False) == (1, ()):
        _core = F.fn(_hrv[1].get('path') or '')
        if _core is not None and not str(_core.j.get('vis')).startswith('Public'):
            core_sig = (_hrv[1]['name'], [prov.show(_cb.expand(F, a_), maxdepth=10) for a_ in _hrv[2][1:]])
            ctx.saw(_core)

    def _is_hw_call(name, args):
        if name == 'hit_windows':
            return True
        return core_sig is not None and name == core_sig[0] and [prov.show(_cb.expand(F, a_), maxdepth=10) for a_ in args[1:]] == core_sig[1]
    calls = [(bi, t) for bi, t in build.calls() if t['func'].get('impl_adt') == B and _is_hw_call(t['func'].get('name'), P.call_args(bi))]
    if core_sig is not None:
        HW_NAMES.append(core_sig[0])
    good = len(calls) == 1 and as_param_path(P.call_args(calls[0][0])[0], through_calls=False) == (1, ())
    ctx.require(good, 'C17-R1', 'build:one-hit_windows', 'build() calls self.hit_windows() exactly once on the unmodified builder', build.where(),
                bad='build() calls hit_windows %d time(s) / not on `self` itself' % len(calls))
    rv = prov.prov_of(build).return_value()
    # private helper methods of the builder (`self.resolve_hp()`) are read through; hit_windows() and the setters are anchors and stay calls
    PRIVATE = lambda f_: (f_.get('impl_adt') or '') == B and f_.get('name') not in tuple(HW_NAMES) + ('build', 'difficulty', 'new', 'map', 'mode') + ATTRS4  # noqa: E731
    rv = prov.inline_all(F, rv, depth=2, _seen=(build.path,), only=PRIVATE)
    hwv = prov.strip(prov.project_field(rv, 'hit_windows'), names=set())
    ctx.require(hwv[0] == 'call' and _is_hw_call(hwv[1].get('name'), hwv[2]) and as_param_path(hwv[2][0], through_calls=False) == (1, ()),
                'C17-R1', 'build:embeds', 'BeatmapAttributes.hit_windows = self.hit_windows()', build.where(),
                bad='BeatmapAttributes.hit_windows is `%s`, not the value returned by self.hit_windows()' % prov.show(hwv, maxdepth=4))
    for out, src in (('ar', 'ar'), ('od', 'od_great')):
        v = prov.project_field(rv, out)
        hit = any(n[0] == 'field' and n[2] == src and prov.strip(n[1], names=set())[0] == 'call' and
                  _is_hw_call(prov.strip(n[1], names=set())[1].get('name'), prov.strip(n[1], names=set())[2]) for n in prov.walk(v, limit=2000))
        ctx.require(hit, 'C17-R1', 'build:%s' % out, 'BeatmapAttributes.%s is derived from hit_windows().%s' % (out, src), build.where(),
                    bad='BeatmapAttributes.%s is not derived from the %s field of hit_windows()' % (out, src))
    # ---- R2
    table = [
        ('osu::difficulty::OsuDifficultySetup', 'new', 'attrs', {
            'ar': ('build', ('ar',)), 'hp': ('build', ('hp',)), 'great_hit_window': ('build', ('hit_windows', 'od_great')),
            'ok_hit_window': ('build', ('hit_windows', 'od_ok')), 'meh_hit_window': ('build', ('hit_windows', 'od_meh'))}),
        ('catch::difficulty::CatchDifficultySetup', 'new', 'attrs', {'ar': ('build', ('ar',))}),
    ]
    n2 = 0
    for adt, name, holder, rows in table:
        f = F.method(adt, name, inherent_only=True)
        if f is None:
            ctx.violation('C17-R2', 'anchor-missing:%s::%s' % (adt, name), 'not found')
            continue
        ctx.saw(f)
        rvf = prov.prov_of(f).return_value()
        a = prov.project_field(rvf, holder)
        for fld, (final, path) in rows.items():
            n2 += 1
            got = from_builder(F, f, prov.project_field(a, fld))
            ctx.require(got is not None and got[0] == final and got[1] == path and got[2] and got[3], 'C17-R2', '%s:%s' % (adt.split('::')[0], fld),
                        'attrs.%s <- map.attributes().difficulty(difficulty).%s().%s on the converted map' % (fld, final, '.'.join(path)), f.where(),
                        bad='%s: attrs.%s is `%s` (decoded %s); expected %s().%s of the builder configured with the converted map and the Difficulty parameter'
                            % (f.path, fld, prov.show(prov.project_field(a, fld), maxdepth=5)[:200], got, final, '.'.join(path)))
    for fpath in ('taiko::difficulty::difficulty', 'taiko::difficulty::gradual::TaikoGradualDifficulty::new'):
        f = F.fn(fpath)
        if f is None:
            ctx.violation('C17-R2', 'anchor-missing:' + fpath, 'not found')
            continue
        ctx.saw(f)
        rvf = prov.prov_of(f).return_value()
        lits = [x for x in prov.walk(rvf) if x[0] == 'agg' and x[2] == 'taiko::attributes::TaikoDifficultyAttributes']
        if not lits:
            # the literal may be built by a private helper that receives the hit windows (`initial_attributes(hit_windows, is_convert)`)
            rvf = prov.inline_all(F, rvf, depth=2, _seen=(f.path,), only=lambda f_: not f_.get('trait') and '{closure' not in (f_.get('path') or '') and
                                  (f_.get('path') or '').startswith('taiko::difficulty') and f_.get('name') not in ('new', 'calculate', 'eval'))
            lits = [x for x in prov.walk(rvf) if x[0] == 'agg' and x[2] == 'taiko::attributes::TaikoDifficultyAttributes']
        if not lits:
            ctx.violation('C17-R2', 'taiko:%s:shape' % f.name, 'no TaikoDifficultyAttributes literal reaches the result of %s' % fpath, f.where())
            continue
        for fld, path in (('great_hit_window', ('od_great',)), ('ok_hit_window', ('od_ok',))):
            n2 += 1
            got = from_builder(F, f, lits[0][4][fld])
            ctx.require(got is not None and got[0] == 'hit_windows' and got[1] == path and got[2] and got[3], 'C17-R2', 'taiko:%s:%s' % (f.name, fld),
                        '%s <- map.attributes().difficulty(difficulty).hit_windows().%s on the converted map' % (fld, path[0]), f.where(),
                        bad='%s: %s is `%s` (decoded %s)' % (fpath, fld, prov.show(lits[0][4][fld], maxdepth=5)[:200], got))
    ctx.floor('C17-R2', n2, 10, 'attribute fields copied from the builder')
    # ---- R3
    rvd = prov.prov_of(diff).return_value()
    rvd_e = combin.expand(F, rvd)
    slot_from_getter = {}
    for fld in ATTRS4:
        v = prov.project_field(rvd, fld)
        getters = {x[1].get('name') for x in prov.walk(v, limit=300) if x[0] == 'call' and (x[1].get('name') or '').startswith('get_')
                   and as_param_path(x[2][0]) == (2, ())}
        keeps = self_fields_read(v)
        if not keeps and getters == {'get_' + fld}:
            # `if let Some(v) = difficulty.get_x() { self.x = Custom(v) }`: the previous value is kept by not writing
            cond_writes = []
            for bi, si, s_ in diff.assigns():
                pr = [e for e in s_['p'].get('proj', []) if isinstance(e, dict) and 'f' in e]
                if s_['p']['l'] == 1 and pr and pr[0]['f'] == fld:
                    guarded = any(c[0] == 'discr' and any(n[0] == 'call' and n[1].get('name') == 'get_' + fld for n in prov.walk(c[1], limit=30)) and lab == 'Some'
                                  for c, lab in arms.guards_of(diff, bi))
                    cond_writes.append(guarded)
            if cond_writes and all(cond_writes):
                keeps = {fld}
        ctx.require(getters == {'get_' + fld} and keeps == {fld}, 'C17-R3', 'difficulty:' + fld,
                    'builder.%s <- difficulty.get_%s() or the previous builder.%s' % (fld, fld, fld), diff.where(),
                    bad='BeatmapAttributesBuilder::difficulty fills `%s` from %s with fallback %s' % (fld, sorted(getters), sorted(keeps)))
        slot_from_getter[fld] = fld if getters == {'get_' + fld} else None
    for fld, getter in (('mods', 'get_mods'), ('clock_rate', 'get_clock_rate')):
        v = prov.project_field(rvd, fld)
        getters = {x[1].get('name') for x in prov.walk(v, limit=300) if x[0] == 'call' and (x[1].get('name') or '').startswith('get_')
                   and as_param_path(x[2][0]) == (2, ())}
        ctx.require(getters == {getter}, 'C17-R3', 'difficulty:' + fld, 'builder.%s <- difficulty.%s()' % (fld, getter), diff.where(),
                    bad='BeatmapAttributesBuilder::difficulty fills `%s` from %s' % (fld, sorted(getters)))
    # ---- R4 triangle
    # hit_windows() itself is read through its private core, if it has one
    PRIVATE_HW = lambda f_: PRIVATE(f_) or ((f_.get('impl_adt') or '') == B and core_sig is not None and f_.get('name') == core_sig[0])  # noqa: E731
    hwr = prov.inline_all(F, prov.prov_of(hw).return_value(), depth=2, _seen=(hw.path,), only=PRIVATE_HW)
    for x in ATTRS4:
        setter = F.method(B, x, inherent_only=True)
        if setter is None:
            ctx.violation('C17-R4', 'anchor-missing:setter:' + x, 'BeatmapAttributesBuilder::%s not found' % x)
            continue
        ctx.saw(setter)
        srv = prov.prov_of(setter).return_value()
        st_ = prov.strip(srv, names=set())
        if st_[0] == 'call' and st_[1].get('local') and (st_[1].get('impl_adt') or '') == B and st_[2] and st_[2][0] == ('param', 1):
            # `self.with_custom(Attribute::Ar, value, with_mods)`: specialise the shared helper on the constant selector
            h_ = F.fn(st_[1].get('path') or '')
            sp_ = arms.specialized_paths_ex(h_, st_[2]) if h_ is not None else None
            if sp_ and len(sp_) == 1 and not sp_[0][0]:
                # the writes made on the one path that remains for this selector
                srv = ('update', ('param', 1), {(f_,): v_ for f_, v_ in arms.path_field_writes(h_, sp_[0][2], 1, st_[2]).items()})
        d = delta_fields(srv, 1)
        wrote = sorted(d) if d is not None else None
        if wrote is None or len(wrote) != 1:
            ctx.violation('C17-R4', x + ':setter', 'BeatmapAttributesBuilder::%s must write exactly one slot; writes %s' % (x, wrote), setter.where())
            continue
        slot = wrote[0]
        uses_params = {n[1] for n in prov.walk(d[slot], limit=100) if n[0] == 'param'}
        ctx.require(uses_params == {2, 3}, 'C17-R4', x + ':setter-value', 'setter stores (value, with_mods) parameters', setter.where(),
                    bad='BeatmapAttributesBuilder::%s stores `%s`' % (x, prov.show(d[slot], maxdepth=4)))
        # the slot overwritten from get_x
        over = [f for f in ATTRS4 if any(c[0] == 'call' and c[1].get('name') == 'get_' + x for c in prov.walk(prov.project_field(rvd, f), limit=300))]
        # the slot read by the public output
        if x in ('cs', 'hp'):
            outv = prov.project_field(rv, x)
            reads = self_fields_read(outv) & set(ATTRS4)
            label = 'BeatmapAttributes.%s' % x
        elif x == 'ar':
            outv = prov.project_field(hwr, 'ar')
            reads = self_fields_read(outv) & set(ATTRS4)
            label = 'HitWindows.ar'
        else:
            outv = prov.project_field(hwr, 'od_great')
            reads = self_fields_read(outv) & set(ATTRS4)
            label = 'HitWindows.od_great'
            reads_b = self_fields_read(prov.project_field(rv, 'od')) & set(ATTRS4)
            ctx.require(reads_b <= {slot}, 'C17-R4', x + ':build-od', 'BeatmapAttributes.od reads only builder slot `%s` (plus hit windows)' % slot, build.where(),
                        bad='BeatmapAttributes.od reads builder slot(s) %s' % sorted(reads_b))
        ctx.require(over == [slot] and reads == {slot}, 'C17-R4', x + ':triangle',
                    'setter %s() writes `%s` = slot overwritten from Difficulty::get_%s = only attribute slot reaching %s' % (x, slot, x, label), setter.where(),
                    bad='attribute %s: setter writes `%s`, difficulty() overwrites %s from get_%s, %s reads %s — the three must be the same single slot'
                        % (x, slot, over, x, label, sorted(reads)))
    r5_with_mods(ctx, F)
    from props import C04 as _c04
    _c04.r5_no_default_attributes(ctx, F, rule='C17-R6')
    r7_od_accessor(ctx, F)
    ctx.not_decided('with_mods=true round trip, monotonicity of hit windows in OD/AR, inverse scaling with clock rate, HR/EZ ordering, '
                    'numeric equality of stored AR/OD with the builder output')


# ---- R5: mod-dependent scaling of a slot value only under `!slot.with_mods()`
import arms  # noqa: E402

MUL = ('Mul', 'Div', 'MulWithOverflow', 'MulUnchecked')
MOD_TESTS = ('hr', 'ez')
MOD_FACTORS = ('od_ar_hp_multiplier',)


def _has_param(v, k):
    return any(n[0] == 'param' and n[1] == k for n in prov.walk(v, limit=600))


def _mod_guarded(fn, bi):
    for c, lab in arms.bool_facts(fn, bi):
        for n in prov.walk(c, limit=60):
            if n[0] == 'call' and (n[1].get('path') or '').startswith('model::mods::GameMods::') and \
                    (n[1].get('name') in MOD_TESTS or (n[1].get('name') or '') not in ('clock_rate', 'ar', 'od', 'cs', 'hp')):
                return True           # hr() / ez(), or any other accessor that classifies the mods (e.g. an HR/EZ enum)
    return False


def _from_factor(v):
    return any(n[0] == 'call' and n[1].get('name') in MOD_FACTORS for n in prov.walk(v, limit=200))


def _callee_args(fn, bi, t, P):
    """(callee path, {callee param index: value tree}) with the closure calling convention undone"""
    p = t['func'].get('path') or ''
    args = P.call_args(bi)
    out = {}
    if '{closure#' in p and len(args) == 2 and args[1][0] == 'agg' and args[1][1] == 'tuple':
        out[1] = args[0]
        items = args[1][-1]
        for i, x in enumerate(items.values() if isinstance(items, dict) else items):
            out[i + 2] = x
    else:
        for i, a in enumerate(args):
            out[i + 1] = a
    return p, out


def scaling_sites(F, fn, scalers):
    """[(bb, line, description, [operand trees that get scaled])] in fn"""
    P = prov.prov_of(fn)
    out = []
    for bi, si, s_ in fn.assigns():
        rv = s_['rv']
        if rv['k'] == 'binop' and rv['op'] in MUL:
            a, b = P.operand(rv['a'], bi, si), P.operand(rv['b'], bi, si)
            if _from_factor(a) or _from_factor(b):
                out.append((bi, s_.get('ln'), 'multiplication by od_ar_hp_multiplier()', [a, b]))
            elif _mod_guarded(fn, bi):
                out.append((bi, s_.get('ln'), '%s under a hr()/ez() test' % rv['op'], [a, b]))
    for bi, t in fn.calls():
        if not t['func'].get('local'):
            continue
        p, amap = _callee_args(fn, bi, t, P)
        ks = scalers.get(p, ())
        trees = [amap[k] for k in ks if k in amap]
        if trees:
            out.append((bi, t.get('ln'), 'call of %s, which scales its argument depending on HR/EZ' % p.split('::')[-1], trees))
    return out


def r5_with_mods(ctx, F):
    # summaries: which parameters does a local function / closure scale depending on the mods (fixed point, 3 rounds)
    cands = [f for f in F.fns if f.path.startswith('model::beatmap::attributes::')]
    scalers = {}
    for _ in range(3):
        for g in cands:
            nparams = 8
            ks = set(scalers.get(g.path, ()))
            for bi, ln, what, trees in scaling_sites(F, g, scalers):
                for k in range(1, nparams):
                    if any(_has_param(tr, k) for tr in trees):
                        # a scaling of the builder itself (param 1 of build / hit_windows, env of a closure) is not a "scales its argument"
                        if k == 1:
                            continue
                        ks.add(k)
            if ks:
                scalers[g.path] = tuple(sorted(ks))
    n5 = 0
    for name in ('build', 'hit_windows'):
        if F.method(B, name, inherent_only=True) is None:
            ctx.violation('C17-R5', 'anchor-missing:' + name, 'BeatmapAttributesBuilder::%s not found' % name)
    for fn in cands:
        short = fn.path.split('::')[-1] if '{closure' not in fn.path else '::'.join(fn.path.split('::')[-2:])
        for bi, ln, what, trees in scaling_sites(F, fn, scalers):
            slots = set()
            for tr in trees:
                for n in prov.walk(tr, limit=1500):
                    if n[0] == 'call' and n[1].get('name') == 'value' and 'ModsDependentKind' in (n[1].get('path') or '') and n[2]:
                        pp = as_param_path(n[2][0], through_calls=False)
                        if pp is not None:
                            slots.add(pp)
            if not slots:
                continue
            ctx.saw(fn)
            known_false = set()
            for c, lab in arms.bool_facts(fn, bi):
                c = prov.strip(c, names={'likely', 'unlikely'})
                if lab == 'false' and c[0] == 'call' and c[1].get('name') == 'with_mods' and c[2]:
                    pp = as_param_path(c[2][0], through_calls=False)
                    if pp is not None:
                        known_false.add(pp)
            for pp in sorted(slots):
                x = '.'.join(pp[1]) or 'self'
                n5 += 1
                ctx.require(pp in known_false, 'C17-R5', '%s:%s:%s' % (short, x, what.split(',')[0].split(' of ')[-1][:40]),
                            '%s: %s of the %s slot only where its with_mods() is false' % (short, what, x), fn.where(ln),
                            bad='%s applies a %s to the value of slot `%s` without `!%s.with_mods()` being established on that path: a value supplied '
                                'with with_mods=true is scaled by HR/EZ again and is not reported back unchanged' % (short, what, x, x))
    ctx.floor('C17-R5', n5, 4, 'HR/EZ-dependent scalings of attribute slots (today: hp, cs x2 in build; ar, od x2, mania od x2 in hit_windows)')


# ---- R7: the OD an attributes accessor derives from the stored hit window is the builder's OD (seed C17-8: `od()` clamped at 0, the builder's not)
def r7_od_accessor(ctx, F):
    """`OsuDifficultyAttributes::od()` turns the stored great hit window back into an OD; `BeatmapAttributesBuilder::build()` does the same for its `od` output.  "OD stored in
    difficulty attributes equals the builder's output" needs the two conversions to be the same expression of the hit window (helpers inlined): the accessor's result,
    with `self.great_hit_window` read as W, must be one of the alternatives of the builder's `od`, with `hit_windows().od_great` read as W."""
    import combin
    od = F.method('osu::attributes::OsuDifficultyAttributes', 'od', inherent_only=True)
    build = F.method(B, 'build', inherent_only=True)
    if od is None or build is None:
        ctx.violation('C17-R7', 'anchor-missing:od-accessor', 'OsuDifficultyAttributes::od / BeatmapAttributesBuilder::build not found')
        return
    ctx.saw(od)

    def inl(fn, v):
        def _opaque(f_):
            # whatever returns the builder's HitWindows (hit_windows() or a private core of it) stays a call: its `od_great` is the W of the builder's side
            g_ = F.fn(f_.get('path') or '')
            return f_.get('name') == 'hit_windows' or (g_ is not None and 'HitWindows' in str((g_.j.get('output') or {}).get('s')))
        v = prov.inline_all(F, v, depth=3, _seen=(fn.path,), only=lambda f_: f_.get('local') and not f_.get('trait') and not _opaque(f_))
        return combin.expand(F, v)
    W = ('const', {'k': 'const', 'ty': 'f64', 'tk': 'float', 'val': 'W'})

    def subst(v, is_w):
        """the tree with every node for which is_w holds replaced by the marker W"""
        if isinstance(v, tuple):
            if v and isinstance(v[0], str) and is_w(v):
                return W
            return tuple(subst(x, is_w) for x in v)
        if isinstance(v, list):
            return [subst(x, is_w) for x in v]
        if isinstance(v, dict):
            return {k_: (subst(x, is_w) if isinstance(x, (tuple, list)) else x) for k_, x in v.items()}
        return v
    # W = the stored great hit window on the accessor's side, the `od_great` of the builder's own hit windows (hit_windows() or its private core) on the builder's
    own_w = lambda n: n[0] == 'field' and n[2] == 'great_hit_window' and prov.strip(n[1], names=set()) == ('param', 1)       # noqa: E731
    bld_w = lambda n: n[0] == 'field' and n[2] == 'od_great' and prov.strip(n[1], names=set())[0] == 'call' and \
        prov.strip(n[1], names=set())[1].get('impl_adt') == B        # noqa: E731
    a = prov.show(subst(inl(od, prov.prov_of(od).return_value()), own_w), maxdepth=14)
    bv = prov.strip(prov.project_field(inl(build, prov.prov_of(build).return_value()), 'od'), names=set())
    alts = bv[1] if bv[0] == 'phi' else [bv]
    btxt = [prov.show(subst(x, bld_w), maxdepth=14) for x in alts]
    ctx.require('W' in a and a in btxt, 'C17-R7', 'osu:od-accessor', 'OsuDifficultyAttributes::od() = %s is the builder\'s conversion of the great hit window' % a[:80], od.where(),
                bad='OsuDifficultyAttributes::od() computes `%s` from the stored great hit window, the attribute builder\'s `od` is one of %s: the OD the attributes report and the '
                    'builder\'s OD part where the two expressions differ (a clamp, a different constant)' % (a[:120], [t[:90] for t in btxt if 'W' in t]))
