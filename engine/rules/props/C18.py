"""C18 — builder settings mean the same everywhere."""
import re

import arms
import prov
from common import MODES, CAP, as_param_path, delta_fields

EXPLANATION = (
    "Flow / dispatch rules over resolved MIR: every mode Performance method named like a Difficulty setter returns "
    "self with only `difficulty` replaced by Difficulty::<same name>(self.difficulty, params in order) (R1); every "
    "arm of every Performance enum method either calls the payload's method from the fixed rename table with the "
    "parameters passed through, or returns self unchanged — allowed iff the payload type has no such method (R2); "
    "the clamp constants in Difficulty::{clock_rate, ar, cs, hp, od} equal the | Minimum | Maximum | table in the doc "
    "comment of every function documenting that setter (R3); Difficulty::inspect and InspectDifficulty::"
    "into_difficulty are field-complete copies through same-named fields/setters (R4); the private field written "
    "by setter S is the one get_S reads and inspect() exposes as InspectDifficulty.S, holding clamp(param) or the "
    "parameter (R5); every attribute-builder chain a calculator drives to build()/hit_windows() goes through .difficulty(..) with no setting setter before it — a setter placed before the funnel makes a setting relevant for a mode that documents it as ignored (R6). R7: for every no-op arm of a Performance setting the mode's own code never calls Difficulty::get_<setting> (the attribute builder's funnel may read the four slots for every mode, nothing else). 'Irrelevant setter leaves the result untouched' beyond the no-op arms is NOT decided.")

DIFF = 'any::difficulty::Difficulty'
INSPECT = 'any::difficulty::inspect::InspectDifficulty'
PERF = 'any::performance::Performance'
SETTERS = ['mods', 'passed_objects', 'clock_rate', 'ar', 'cs', 'hp', 'od', 'hardrock_offsets', 'lazer']
RENAME = {
    'catch': {'n300': 'fruits', 'n100': 'droplets', 'n50': 'tiny_droplets', 'n_katu': 'tiny_droplet_misses'},
    'mania': {'n_katu': 'n200', 'n_geki': 'n320'},
}
NOT_BUILDERS = {'new', 'calculate', 'try_mode', 'mode_or_ignore', 'generate_state'}


def perf_adt(mode):
    return '%s::performance::%sPerformance' % (mode, CAP[mode])


def params_passed_through(args, first_param=2):
    """args (after the receiver) are exactly param#2, param#3, ... possibly through into()/From"""
    for i, a in enumerate(args):
        pp = as_param_path(a)
        if pp != (first_param + i, ()):
            return False
    return True


def r1(ctx, F):
    n = 0
    for mode in MODES:
        adt = perf_adt(mode)
        for s in SETTERS + ['difficulty']:
            m = F.method(adt, s, inherent_only=True)
            if m is None:
                continue
            n += 1
            ctx.saw(m)
            rv = prov.prov_of(m).return_value()
            d = delta_fields(rv, 1)
            if d is None:
                # `self.map_difficulty(|d| d.mods(mods))`: a private combinator of the builder that applies a closure to the field
                import combin as _cb
                rv2 = _cb.expand(F, prov.inline_all(F, rv, depth=1, _seen=(m.path,), only=lambda f_: (f_.get('impl_adt') or '') == adt and
                                                    f_.get('name') not in SETTERS and not f_.get('trait')))
                d = delta_fields(rv2, 1)
                if d is not None:
                    rv = rv2
            key = '%s:%s' % (mode, s)
            if d is None or set(d) != {'difficulty'}:
                ctx.violation('C18-R1', key, '%s must return self with only `difficulty` changed; it changes %s' % (
                    m.path, sorted(d) if d is not None else prov.show(rv, maxdepth=3)), m.where())
                continue
            v = prov.strip(d['difficulty'], names=set())
            if s == 'difficulty':
                ctx.require(as_param_path(v) == (2, ()), 'C18-R1', key, '%s stores its parameter' % m.path, m.where(),
                            bad='%s::difficulty(d) stores `%s` instead of d' % (adt, prov.show(v, maxdepth=3)))
                continue
            good = v[0] == 'call' and v[1].get('impl_adt') == DIFF and v[1].get('name') == s and \
                as_param_path(v[2][0]) == (1, ('difficulty',)) and params_passed_through(v[2][1:]) and \
                len(v[2]) - 1 == len(m.j['inputs']) - 1
            ctx.require(good, 'C18-R1', key, '%s: difficulty <- Difficulty::%s(self.difficulty, %s)' % (
                m.path, s, ', '.join(m.arg_name(i + 2) for i in range(len(m.j['inputs']) - 1))), m.where(),
                bad='%s sets difficulty to `%s`; expected Difficulty::%s(self.difficulty, <its own parameters in order>)' % (
                    m.path, prov.show(v, maxdepth=4), s))
    ctx.floor('C18-R1', n, 31, 'mode Performance methods named like a Difficulty setter (27 + 4 `difficulty`)')


def r2(ctx, F):
    methods = [m for m in F.methods(adt=PERF, inherent_only=True) if m.name not in NOT_BUILDERS and m.is_pub
               and m.j['output'].get('adt') == PERF and m.j['inputs'] and m.j['inputs'][0].get('adt') == PERF]
    narms = 0
    for m in methods:
        ctx.saw(m)
        vals = per_variant_values(F, m)
        if not vals:
            ctx.violation('C18-R2', '%s:shape' % m.name, 'Performance::%s does not dispatch on its variant with one match' % m.name, m.where())
            continue
        seen_modes = set()
        for label, val in vals.items():
            for variant in label.split('|'):
                mode = variant.lower()
                if mode not in MODES:
                    continue
                seen_modes.add(mode)
                narms += 1
                key = '%s:%s' % (m.name, variant)
                target_name = RENAME.get(mode, {}).get(m.name, m.name)
                payload_method = F.method(perf_adt(mode), target_name, inherent_only=True)
                if val is None:
                    ctx.violation('C18-R2', key, 'no value assigned in arm %s of Performance::%s' % (variant, m.name), m.where())
                    continue
                v = prov.strip(val, names=set())
                rewrapped = v[0] == 'agg' and v[2] == PERF and v[3] == variant and \
                    as_param_path(prov.strip(v[4].get('0', ('unknown',)), names=set()), through_calls=False) == (1, ('as ' + variant, '0'))
                if as_param_path(v) == (1, ()) or rewrapped:
                    # no-op arm (self, or the payload put back into its own variant untouched): allowed iff the payload type has no such method
                    ctx.require(payload_method is None, 'C18-R2', key, 'Performance::%s is a no-op for %s: %sPerformance has no method `%s`' % (
                        m.name, variant, CAP[mode], target_name), m.where(),
                        bad='Performance::%s returns self unchanged for %s although %sPerformance::%s exists: the setting is silently dropped'
                            % (m.name, variant, CAP[mode], target_name))
                    continue
                good = False
                why = prov.show(v, maxdepth=4)
                if v[0] == 'agg' and v[2] == PERF and v[3] == variant:
                    inner = prov.strip(v[4]['0'], names=set())
                    if inner[0] == 'call' and inner[1].get('impl_adt') == perf_adt(mode):
                        recv = as_param_path(inner[2][0])
                        args_ok = params_passed_through(inner[2][1:])
                        if inner[1].get('name') != target_name and payload_method is None and recv == (1, ('as ' + variant, '0')) and args_ok and \
                                F.method(PERF, inner[1].get('name'), inherent_only=True) is not None:
                            # an alias: the mode builders have no method of this name, and the arm forwards everything to the payload method that
                            # the same-named Performance method (judged on its own) forwards to
                            good = True
                        elif inner[1].get('name') != target_name:
                            why = 'calls %sPerformance::%s, expected ::%s' % (CAP[mode], inner[1].get('name'), target_name)
                        elif recv != (1, ('as ' + variant, '0')):
                            why = 'receiver is %s, not the %s payload' % (prov.show(inner[2][0], maxdepth=3), variant)
                        elif not args_ok:
                            why = 'arguments are not the method\'s own parameters in order: %s' % [prov.show(a, maxdepth=3) for a in inner[2][1:]]
                        else:
                            good = True
                    else:
                        why = 'payload is `%s`' % prov.show(inner, maxdepth=3)
                ctx.require(good, 'C18-R2', key, 'Performance::%s -> %s(payload.%s(params))' % (m.name, variant, target_name), m.where(),
                            bad='arm %s of Performance::%s: %s' % (variant, m.name, why))
        missing = set(MODES) - seen_modes
        for mode in sorted(missing):
            ctx.violation('C18-R2', '%s:%s:missing' % (m.name, CAP[mode]), 'no arm for %s in Performance::%s' % (CAP[mode], m.name), m.where())
    ctx.floor('C18-R2', len(methods), 23, 'Performance builder methods')
    ctx.floor('C18-R2', narms, 92, 'Performance dispatch arms')


def per_variant_values(F, m):
    """{variant: value of the method for that variant of `self`} — read from every path (match, if-let chains, nested tests), and through
    a private dispatch helper that receives `self` and closures; None when some variant has no single value"""
    import combin
    variants = [CAP[x] for x in MODES]
    ident = [('param', i + 1) for i in range(len(m.j['inputs']))]
    sp = arms.specialized_paths(m, ident)
    if sp is None:
        return None
    if not any(c == ('discr', ('param', 1)) for rest, _ in sp for c, _ in rest):
        rv = prov.strip(prov.prov_of(m).return_value(), names=set())
        h = F.fn(rv[1].get('path') or '') if rv[0] == 'call' and rv[1].get('local') else None
        if h is None or not rv[2] or rv[2][0] != ('param', 1):
            return None
        sp = arms.specialized_paths(h, rv[2])
        if sp is None:
            return None
        sp = [(rest, combin.expand(F, val)) for rest, val in sp]
    out = {}
    for V in variants:
        seen = []
        for rest, val in sp:
            ok = True
            for c, lab in rest:
                if c == ('discr', ('param', 1)) and V not in lab.split('|'):
                    ok = False
            if ok and val not in seen:
                seen.append(val)
        if len(seen) != 1:
            return None
        out[V] = seen[0]
    return out


DOC_TABLE = re.compile(r'\|\s*(-?\d+(?:\.\d+)?)\s*\|\s*(-?\d+(?:\.\d+)?)\s*\|')


def clamp_constants(F, setter):
    """(lo, hi) of the clamp feeding the value stored by Difficulty::<setter>"""
    m = F.method(DIFF, setter, inherent_only=True)
    if m is None:
        return None, None
    rv = inline_locals(F, prov.prov_of(m).return_value())
    for n in prov.walk(rv):
        if n[0] == 'call' and n[1].get('name') == 'clamp' and len(n[2]) == 3:
            src = as_param_path(n[2][0])
            if src == (2, ()):
                try:
                    return m, (float(prov.const_val(n[2][1])), float(prov.const_val(n[2][2])))
                except (TypeError, ValueError):
                    return m, None
    return m, None


def _private_accessor(F, f_):
    """a non-public `&self` method of Difficulty (an accessor of one of its slots)"""
    if (f_.get('impl_adt') or '') != DIFF or f_.get('trait'):
        return False
    g = F.fn(f_.get('path') or '')
    if g is None or str(g.j.get('vis')).startswith('Public') or len(g.j.get('inputs') or []) != 1:
        return False
    return str(g.j['inputs'][0].get('s', '')).startswith('&')


def inline_locals(F, v, depth=2):
    """replace calls of local non-setter helper functions by their return value (parameters substituted)"""
    if depth <= 0:
        return v
    k = v[0]
    if k == 'call':
        args = [inline_locals(F, a, depth) for a in v[2]]
        node = ('call', v[1], args, v[3])
        f = v[1]
        if f.get('local') and (f.get('impl_adt') or '') != 'any::difficulty::Difficulty' and '{closure' not in (f.get('path') or '') and F.fn(f.get('path') or '') is not None:
            inl = prov.inline_call(F, node)
            if inl is not node:
                return inline_locals(F, inl, depth - 1)
        return node
    if k == 'agg':
        return ('agg', v[1], v[2], v[3], {f: inline_locals(F, x, depth) for f, x in v[4].items()})
    if k == 'update':
        return ('update', inline_locals(F, v[1], depth), {p: inline_locals(F, x, depth) for p, x in v[2].items()})
    if k == 'phi':
        return prov.phi([inline_locals(F, x, depth) for x in v[1]])
    if k == 'mut':
        return ('mut', inline_locals(F, v[1], depth), v[2], v[3] if len(v) > 3 else ())
    return v


def clamps_in(v):
    out = []
    for n in prov.walk(v, limit=600):
        if n[0] == 'call' and n[1].get('name') == 'clamp' and len(n[2]) == 3:
            out.append((prov.const_val(n[2][1]), prov.const_val(n[2][2])))
    return sorted(set(out))


def r3(ctx, F):
    ntab = 0
    for s in ('clock_rate', 'ar', 'cs', 'hp', 'od'):
        m, cl = clamp_constants(F, s)
        if m is None:
            ctx.violation('C18-R3', 'anchor-missing:' + s, 'Difficulty::%s not found' % s)
            continue
        if cl is None:
            ctx.violation('C18-R3', '%s:clamp' % s, 'Difficulty::%s does not clamp its parameter with constant bounds' % s, m.where())
            continue
        ctx.ok('C18-R3', '%s:clamp' % s, 'Difficulty::%s stores clamp(param, %s, %s)' % (s, cl[0], cl[1]), m.where())
        # every function named `s` on the builder types that documents a table
        docs = [m] + [F.method(PERF, s, inherent_only=True)] + [F.method(perf_adt(mode), s, inherent_only=True) for mode in MODES]
        for d in docs:
            if d is None:
                continue
            t = DOC_TABLE.search(d.docs or '')
            if not t:
                if d is m:
                    ctx.violation('C18-R3', '%s:doc:%s' % (s, 'Difficulty'), 'Difficulty::%s documents no | Minimum | Maximum | table' % s, d.where())
                continue
            ntab += 1
            lo, hi = float(t.group(1)), float(t.group(2))
            owner = (d.self_adt or '').split('::')[-1]
            ctx.require((lo, hi) == cl, 'C18-R3', '%s:doc:%s' % (s, owner), '%s::%s documents [%s, %s] = clamp bounds' % (owner, s, lo, hi), d.where(),
                        bad='%s::%s documents the range [%s, %s] but Difficulty::%s clamps to [%s, %s]' % (owner, s, lo, hi, s, cl[0], cl[1]))
    ctx.floor('C18-R3', ntab, 20, 'documented bound tables')


def r4_r5(ctx, F):
    da = F.adts.get(DIFF)
    ia = F.adts.get(INSPECT)
    if not da or not ia:
        ctx.violation('C18-R4', 'anchor-missing:types', 'Difficulty / InspectDifficulty not found')
        return
    ifields = [f['name'] for f in ia['variants'][0]['fields']]
    dfields = [f['name'] for f in da['variants'][0]['fields']]
    insp = F.method(DIFF, 'inspect', inherent_only=True)
    into = F.method(INSPECT, 'into_difficulty', inherent_only=True)
    if not insp or not into:
        ctx.violation('C18-R4', 'anchor-missing:fns', 'inspect / into_difficulty not found')
        return
    ctx.saw(insp)
    ctx.saw(into)
    # inspect(): each public field <- some private field (through non_zero_u64_to_f64 for clock_rate)
    # inspect() may delegate to its `From<Difficulty> for InspectDifficulty` twin (or the other way round): read through that conversion
    rv = prov.inline_all(F, prov.prov_of(insp).return_value(), depth=1, _seen=(insp.path,),
                         only=lambda f_: (f_.get('name') in ('from', 'into') and 'InspectDifficulty' in ((f_.get('path') or '') + (f_.get('impl_self') or ''))) or _private_accessor(F, f_))
    rv = prov.inline_all(F, rv, depth=1, _seen=(insp.path,), only=lambda f_: _private_accessor(F, f_))
    rv = prov.strip(rv)
    expose = {}      # public name -> private field
    if rv[0] == 'agg' and rv[2] == INSPECT:
        for pub, v in rv[4].items():
            src = None
            for n in prov.walk(v, limit=200):
                pp = as_param_path(n)
                if pp is not None and pp[0] == 1 and len(pp[1]) >= 1:
                    src = pp[1][0]
                    break
            expose[pub] = src
    for pub in ifields:
        ctx.require(expose.get(pub) is not None, 'C18-R4', 'inspect:' + pub, 'InspectDifficulty.%s <- Difficulty.%s' % (pub, expose.get(pub)), insp.where(),
                    bad='Difficulty::inspect does not fill InspectDifficulty.%s from a field of self' % pub)
    dup = [p for p in set(expose.values()) if p and list(expose.values()).count(p) > 1]
    ctx.require(not dup, 'C18-R4', 'inspect:injective', 'every Difficulty field is exposed under one public name', insp.where(),
                bad='Difficulty::inspect copies field(s) %s into several public fields' % dup)
    unexposed = [f for f in dfields if f not in expose.values()]
    ctx.require(not unexposed, 'C18-R4', 'inspect:complete', 'all %d Difficulty fields are exposed' % len(dfields), insp.where(),
                bad='Difficulty field(s) %s are not exposed by inspect(): the round trip loses them' % unexposed)
    # into_difficulty(): for each public field a call of the same-named setter with that field's value
    P = prov.prov_of(into)
    called = {}
    for bi, t in into.calls():
        f = t['func']
        if f.get('impl_adt') == DIFF and f.get('name') in SETTERS:
            args = P.call_args(bi)
            srcs = []
            for a in args[1:]:
                s = None
                for n in prov.walk(a, limit=100):
                    pp = as_param_path(n)
                    if pp is not None and pp[0] == 1 and pp[1]:
                        s = pp[1][0]
                        break
                srcs.append(s)
            called[f['name']] = srcs
    # setters applied through a helper that takes the setter as a function value (`set_if_some(d, self.x, Difficulty::x)`)
    import combin as _cb
    tree = _cb.expand(F, inline_locals(F, prov.prov_of(into).return_value(), depth=3))
    for n in prov.walk(tree, limit=4000):
        if n[0] == 'call' and n[1].get('name') in SETTERS and n[1].get('name') not in called and \
                ((n[1].get('impl_adt') == DIFF) or (n[1].get('path') or '') == DIFF + '::' + n[1].get('name')):
            srcs = []
            for a in n[2][1:]:
                s_ = None
                for m_ in prov.walk(a, limit=100):
                    pp = as_param_path(m_)
                    if pp is not None and pp[0] == 1 and pp[1]:
                        s_ = pp[1][0]
                        break
                srcs.append(s_)
            called[n[1]['name']] = srcs
    # literal style: `Difficulty { slot: self.S, .. }` is equivalent to replaying the setter iff the slot receives what the setter
    # would store: same source field and the same clamp (constants) the setter applies
    import combin
    lit = None
    rvi = inline_locals(F, combin.expand(F, prov.prov_of(into).return_value()))
    for x in prov.walk(rvi, limit=400):
        if x[0] == 'agg' and x[2] == DIFF:
            lit = x
            break
    for pub in ifields:
        srcs = called.get(pub)
        if srcs is None and lit is not None:
            slot = expose.get(pub)
            w = lit[4].get(slot) if slot else None
            setter = F.method(DIFF, pub, inherent_only=True)
            sv = None
            if setter is not None:
                d_ = delta_fields(inline_locals(F, prov.prov_of(setter).return_value()), 1)
                sv = list(d_.values())[0] if d_ and len(d_) == 1 else None
            reads = set()
            for nn in prov.walk(w, limit=300) if w is not None else []:
                pp = as_param_path(nn)
                if pp is not None and pp[0] == 1 and pp[1]:
                    reads.add(pp[1][0])
            same_src = reads == {pub}
            want = clamps_in(sv) if sv is not None else []
            got = clamps_in(w) if w is not None else []
            ctx.require(w is not None and same_src and want == got, 'C18-R4', 'into:' + pub,
                        'into_difficulty fills the slot of `%s` directly from self.%s with the setter\'s clamp %s' % (pub, pub, want or '(none)'), into.where(),
                        bad='InspectDifficulty::into_difficulty fills `%s` from %s with clamp %s, but Difficulty::%s stores its argument with clamp %s: a value set through the '
                            'inspectable form means something else than the same value given to the setter' % (pub, sorted(reads), got or '(none)', pub, want or '(none)'))
            continue
        ctx.require(srcs is not None and all(s == pub for s in srcs) and len(srcs) >= 1, 'C18-R4', 'into:' + pub,
                    'into_difficulty applies Difficulty::%s(self.%s…)' % (pub, pub), into.where(),
                    bad='InspectDifficulty::into_difficulty %s' % ('never calls Difficulty::%s: the setting is lost in the round trip' % pub
                                                                   if srcs is None else 'feeds Difficulty::%s from field(s) %s' % (pub, srcs)))
    ctx.floor('C18-R4', len(ifields), 9, 'InspectDifficulty fields')
    # R5: setter S writes the private field that inspect exposes as S and get_S reads
    for s in SETTERS:
        m = F.method(DIFF, s, inherent_only=True)
        if m is None:
            ctx.violation('C18-R5', 'anchor-missing:' + s, 'Difficulty::%s not found' % s)
            continue
        ctx.saw(m)
        rv = prov.prov_of(m).return_value()
        d = delta_fields(rv, 1)
        if d is None:
            # the write may go through a private builder helper that applies a closure to `&mut self`: judged on the body with the helper and
            # the closure inlined and the reborrow forwarded (`(*this).x = v` is `self.x = v`)
            import inline
            priv = lambda h: (h.self_adt == DIFF and not h.impl_trait and not str(h.j.get('vis')).startswith('Public')) or (h.kind == 'Closure' and h.path.startswith(m.path))
            mv = inline.inlined(F, m, depth=2, force=priv, stop=lambda h: not priv(h))
            if mv is not m:
                rv = prov.prov_of(mv).return_value()
                d = delta_fields(rv, 1)
        want = expose.get(s)
        if d is None or len(d) != 1:
            ctx.violation('C18-R5', s + ':writes', 'Difficulty::%s must change exactly one field; it changes %s' % (s, sorted(d) if d is not None else '?'), m.where())
            continue
        wrote = list(d)[0]
        ctx.require(wrote == want, 'C18-R5', s + ':slot', 'Difficulty::%s writes field `%s`, which inspect() exposes as InspectDifficulty.%s' % (s, wrote, s), m.where(),
                    bad='Difficulty::%s writes field `%s`, but inspect() exposes `%s` as InspectDifficulty.%s' % (s, wrote, want, s))
        # stored value = param or clamp(param) (+ second param for with_mods)
        v = d[wrote]
        params_used = set()
        shape_ok = True
        for n in prov.walk(v, limit=300):
            if n[0] == 'param' and n[1] >= 2:
                params_used.add(n[1])
            if n[0] == 'binop' or (n[0] == 'unop' and n[1] not in ('Not',) and False):
                shape_ok = False
            if n[0] == 'unop' and n[1] in ('Not', 'Neg'):
                shape_ok = False
        # an Option-typed slot must be filled with a literal Some(..): a fallible constructor (e.g. NonZero::new) would turn
        # some argument values into "unset", i.e. silently drop the setting
        fty = [f['ty']['s'] for f in da['variants'][0]['fields'] if f['name'] == wrote]
        if fty and fty[0].startswith('std::option::Option<'):
            sv = prov.strip(v, names=set())
            ctx.require(sv[0] == 'agg' and sv[3] == 'Some', 'C18-R5', s + ':always-set', 'Difficulty::%s always records a value (literal Some(..))' % s, m.where(),
                        bad='Difficulty::%s stores `%s` into an Option slot: for some arguments nothing is recorded and the setting silently reverts to its default'
                            % (s, prov.show(sv, maxdepth=4)))
        nparams = len(m.j['inputs']) - 1
        ctx.require(shape_ok and params_used == set(range(2, 2 + nparams)), 'C18-R5', s + ':value',
                    'stored value is built from exactly the setter\'s own parameter(s) (clamp / Some / into only)', m.where(),
                    bad='Difficulty::%s stores `%s`: parameters are dropped, negated or combined arithmetically' % (s, prov.show(v, maxdepth=5)))
        g = F.method(DIFF, 'get_' + s, inherent_only=True)
        if g is not None:
            ctx.saw(g)
            grv = prov.prov_of(g).return_value()
            grv = prov.inline_all(F, grv, depth=1, _seen=(g.path,), only=lambda f_: _private_accessor(F, f_))      # `self.custom_x()` reading the slot
            reads = set()
            for n in prov.walk(grv, limit=400):
                pp = as_param_path(n)
                if pp is not None and pp[0] == 1 and pp[1]:
                    reads.add(pp[1][0])
            primary = wrote in reads
            ctx.require(primary, 'C18-R5', s + ':getter', 'get_%s reads field `%s`%s' % (s, wrote, (' (fallbacks: %s)' % sorted(reads - {wrote})) if reads - {wrote} else ''),
                        g.where(), bad='Difficulty::get_%s reads %s, not the field `%s` written by the setter' % (s, sorted(reads), wrote))
    ctx.floor('C18-R5', len(SETTERS), 9, 'Difficulty setters')


def run(ctx):
    F = ctx.facts('default')
    r1(ctx, F)
    r2(ctx, F)
    r3(ctx, F)
    r4_r5(ctx, F)
    import funnel
    funnel.check(ctx, F, 'C18-R6')
    r7_noop_arms_are_unread(ctx, F)
    ctx.not_decided('"a setter documented as irrelevant for a mode leaves that mode\'s result untouched" beyond the no-op arms '
                    '(needs a per-mode read-set analysis through the attribute builder)')


# ---- R7: a setting a mode's builder cannot set is a setting that mode never reads (seed C18-8: taiko difficulty starts reading get_lazer(), `Performance::lazer` stays a no-op for taiko)
FUNNEL = 'model::beatmap::attributes::BeatmapAttributesBuilder::difficulty'


def mode_getters(F, mode):
    """Difficulty::get_* consulted by the mode's own code: reachable from its entries without crossing into another mode's modules; the attribute builder's funnel
    reads every slot for every mode (its mode-relevance is decided by C17) and is left out"""
    import callgraph
    cg = callgraph.of(F)
    roots = ['%s::difficulty::difficulty' % mode, '%s::strains::strains' % mode] + [
        f.path for f in F.fns if (f.self_adt or '').startswith(mode + '::') and ('Gradual' in (f.self_adt or '') or (f.self_adt or '').endswith('Performance'))]
    others = tuple(m + '::' for m in MODES if m != mode) + tuple('<' + m + '::' for m in MODES if m != mode)
    out = {}
    for p in cg.reachable_from(set(roots)):
        f = F.fn(p)
        if f is None or p.startswith(others):
            continue
        for bi, t in f.calls():
            c = t['func'].get('path') or ''
            if c.startswith(DIFF + '::get_'):
                # the funnel hands the four map-attribute slots to the builder for every mode (which of them a mode's output depends on is C17's business);
                # any OTHER setting it starts to read is read on behalf of every mode
                if p == FUNNEL and c.split('::')[-1] in ('get_ar', 'get_cs', 'get_hp', 'get_od'):
                    continue
                out.setdefault(c.split('::')[-1], set()).add(p)
    return out


def r7_noop_arms_are_unread(ctx, F):
    """R2 allows `Performance::<setting>` to be a no-op for a mode exactly when that mode's builder has no such setter.  That is only sound while the mode never reads the
    setting: the same value handed in through `.difficulty(Difficulty::new().<setting>(..))` must not change the result either.  For every no-op arm the mode's own code
    (difficulty, strains, gradual, performance; other modes' modules and the attribute builder's funnel aside) does not call `Difficulty::get_<setting>`."""
    methods = [m for m in F.methods(adt=PERF, inherent_only=True) if m.name not in NOT_BUILDERS and m.is_pub
               and m.j['output'].get('adt') == PERF and m.j['inputs'] and m.j['inputs'][0].get('adt') == PERF]
    getters = {mode: mode_getters(F, mode) for mode in MODES}
    n = 0
    for m in methods:
        g = 'get_' + m.name
        if F.method(DIFF, g, inherent_only=True) is None:
            continue
        vals = per_variant_values(F, m)
        if not vals:
            continue                                   # shape problems are R2's
        for label, val in vals.items():
            for variant in label.split('|'):
                mode = variant.lower()
                if mode not in MODES or val is None:
                    continue
                v = prov.strip(val, names=set())
                rewrapped = v[0] == 'agg' and v[2] == PERF and v[3] == variant and \
                    as_param_path(prov.strip(v[4].get('0', ('unknown',)), names=set()), through_calls=False) == (1, ('as ' + variant, '0'))
                if not (as_param_path(v) == (1, ()) or rewrapped):
                    continue
                n += 1
                readers = sorted(getters[mode].get(g, ()))
                ctx.require(not readers, 'C18-R7', '%s:%s:unread' % (m.name, variant), 'Performance::%s is a no-op for %s and no %s code reads Difficulty::%s' % (m.name, variant, mode, g), m.where(),
                            bad='Performance::%s drops the value for %s, but %s reads Difficulty::%s: the setting changes %s results when it arrives inside a Difficulty and is '
                                'silently lost when it is set on the builder' % (m.name, variant, (readers or ['-'])[0], g, mode))
    ctx.floor('C18-R7', n, 5, 'no-op arms of Performance settings (lazer: taiko, catch; hardrock_offsets: osu, taiko, mania; ..)')
