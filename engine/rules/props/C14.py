"""C14 — counts: the is_convert clause only."""
import entries
import fieldidx
import prov
from common import MODES, CAP, MODE_VARIANT, as_param_path

EXPLANATION = (
    "Only the is_convert clause is structural. R1: in every place where Taiko/Catch/ManiaDifficultyAttributes is built, "
    "the is_convert field has provenance `<result of convert_ref>.is_convert`, directly or through a field of the "
    "gradual calculator that its constructor fills that way. R2: Beatmap.is_convert is assigned `true` only in the three "
    "converters, each in the function that also assigns `mode` its own constant, and `false` only when a map is created "
    "(decoder / Default); nothing else writes it. R3 (osu!): the one-shot counting closure and the gradual increment function "
    "count every object kind with exactly one of n_circles/n_sliders/n_spinners (+1) and max_combo (+1), and the two are "
    "identical arm by arm. R4: Difficulty::passed_objects(n) records Some(n) for every n and get_passed_objects returns exactly that n "
    "(usize::MAX when unset) — the structural half of 'counted = min(n, total)'. R5 (mania): ManiaObject::new (private helpers inlined) adds exactly 1 to n_hold_notes in the Slider, Spinner and Hold arms of its match on the object kind, nothing in the Circle arm, and no other condition (a duration test, say) decides a count. R6 (taiko): in the one-shot create_difficulty_objects the max_combo / n_diff_objects bookkeeping sees every object the iterator yields: it rides as an inspect() / map() adaptor in front of every truncating adaptor, or every object taken with next() passes a count before the function returns or takes the next one (a private helper that receives the counter is judged instead). R8: no read of the converted map in a mode entry precedes one of its in-place rewrites. R7: with every private helper inlined, every path through <Mode>::convert to a return writes is_convert = true and mode = GameMode::<Mode> (a fast path that returns early hands out a converted map flagged as native). All other counting clauses (min(n,total), monotone, caps, sums) are "
    "arithmetic over runtime values: NOT decided.")

BM = 'model::beatmap::Beatmap'
_F = [None]          # facts of the run (set by run())


def from_converted(v):
    """v == <something derived from convert_ref(...)>.is_convert"""
    v = prov.strip(v, names=set())
    if v[0] == 'field' and v[2] == 'is_convert':
        import entries as _e
        return _e.from_convert_ref(_F[0], v[1])
    if v[0] == 'phi':
        return all(from_converted(x) for x in v[1])
    return False


def run(ctx):
    F = ctx.facts('default')
    _F[0] = F
    n = 0
    for mode in ('taiko', 'catch', 'mania'):
        adt = '%s::attributes::%sDifficultyAttributes' % (mode, CAP[mode])
        for fn in F.fns:
            P = None
            for bi, si, s in fn.assigns():
                rv = s['rv']
                if rv['k'] == 'agg' and rv.get('ak') == 'adt' and rv['adt'] == adt and 'is_convert' in rv['fields']:
                    if fn.impl_trait in ('std::default::Default', 'std::clone::Clone'):
                        continue
                    P = P or prov.prov_of(fn)
                    ctx.saw(fn)
                    op = rv['ops'][rv['fields'].index('is_convert')]
                    v = P.operand(op, bi, si)
                    n += 1
                    key = '%s:%s' % (mode, fn.path)
                    if from_converted(v):
                        ctx.ok('C14-R1', key, 'is_convert = <convert_ref(..)>.is_convert', fn.where(s['ln']))
                        continue
                    pp = as_param_path(v)
                    if pp is not None and pp[1] == ('is_convert',) and pp[0] <= len(fn.j.get('inputs', [])) and \
                            fn.j['inputs'][pp[0] - 1].get('to_adt') == BM:
                        # a helper that receives the map: every caller must hand it the converted map
                        sites = F.callers().get(fn.path, [])
                        bad = entries.always_converted(F, fn, pp[0])
                        ctx.require(bool(sites) and not bad, 'C14-R1', key, 'is_convert = map.is_convert where every one of the %d callers passes the result of convert_ref' % len(sites),
                                    fn.where(s['ln']), bad='%s takes is_convert from its map parameter, but %s pass(es) a map that is not the result of convert_ref' % (fn.path, bad or 'no caller'))
                        continue
                    if pp is not None and pp[0] == 1 and pp[1] and pp[1][-1] == 'is_convert' and fn.self_adt:
                        # a field of the gradual calculator: its constructor must fill it from the converted map
                        owner = fn.self_adt
                        new = F.method(owner, 'new', inherent_only=True)
                        good = False
                        detail = ''
                        if new is not None:
                            ctx.saw(new)
                            rvn = prov.prov_of(new).return_value()
                            lits = [x for x in prov.walk(rvn) if x[0] == 'agg' and x[2] == owner]
                            if len(lits) == 1:
                                cur = lits[0]
                                for f in pp[1]:
                                    cur = prov.project_field(cur, f)
                                good = from_converted(cur)
                                detail = prov.show(cur, maxdepth=4)[:160]
                        ctx.require(good, 'C14-R1', key, 'is_convert = self.%s, which %s::new fills from <convert_ref(..)>.is_convert' % ('.'.join(pp[1]), owner.split('::')[-1]),
                                    fn.where(s['ln']), bad='%s builds attributes with is_convert = self.%s, but %s::new fills that with `%s`' % (
                                        fn.path, '.'.join(pp[1]), owner.split('::')[-1], detail))
                        continue
                    if pp is not None and pp[1] == () and pp[0] <= len(fn.j.get('inputs') or []) and (fn.j['inputs'][pp[0] - 1].get('s') == 'bool'):
                        # a builder helper that receives the flag itself (`into_attributes(self, n_objects, is_convert)`): every caller passes
                        # the converted map's flag
                        sites = F.callers().get(fn.path, [])
                        bad = []
                        for cfn, cbb, ct in sites:
                            ca = prov.prov_of(cfn).call_args(cbb)
                            if pp[0] > len(ca):
                                bad.append(cfn.path)
                                continue
                            av = ca[pp[0] - 1]
                            if from_converted(av):
                                continue
                            # the caller may itself be a helper that received the map: then each of ITS callers hands over the converted map
                            ap = as_param_path(av)
                            if ap is not None and ap[1] == ('is_convert',) and ap[0] <= len(cfn.j.get('inputs', [])) and \
                                    cfn.j['inputs'][ap[0] - 1].get('to_adt') == BM and F.callers().get(cfn.path) and not entries.always_converted(F, cfn, ap[0]):
                                continue
                            bad.append(cfn.path)
                        ctx.require(bool(sites) and not bad, 'C14-R1', key, 'is_convert is a parameter; every one of the %d callers passes <convert_ref(..)>.is_convert' % len(sites),
                                    fn.where(s['ln']), bad='%s receives is_convert as a parameter, but %s pass(es) something other than the converted map\'s flag' % (fn.path, bad or 'no caller'))
                        continue
                    ctx.violation('C14-R1', key, '%s builds %s with is_convert = `%s`, not the converted map\'s flag' % (fn.path, adt.split('::')[-1], prov.show(v, maxdepth=4)),
                                  fn.where(s['ln']))
    ctx.floor('C14-R1', n, 5, 'constructions of Taiko/Catch/ManiaDifficultyAttributes')
    # taiko gradual: attrs literal lives in new(); next() clones self.attrs — covered because the literal in new is checked above
    # ---- R2
    writers = {}
    for a in fieldidx.accesses(F, BM, 'is_convert'):
        if a['kind'] in ('assign', 'mutborrow', 'agg-init'):
            writers.setdefault(a['fn'].path, []).append(a)
    n_true = n_false = 0
    for path, accs in sorted(writers.items()):
        fn = accs[0]['fn']
        ctx.saw(fn)
        P = prov.prov_of(fn)
        for a in accs:
            if a['kind'] == 'mutborrow':
                ctx.violation('C14-R2', 'mutborrow:' + path, '%s takes &mut Beatmap.is_convert' % path, fn.where(a['line']))
                continue
            s = a['stmt']
            if a['kind'] == 'assign':
                v = P.rvalue(s['rv'], a['bb'], fn.blocks[a['bb']]['s'].index(s))
            else:
                rv = s['rv']
                v = P.operand(rv['ops'][rv['fields'].index('is_convert')], a['bb'], fn.blocks[a['bb']]['s'].index(s))
            val = prov.const_val(prov.strip(v))
            if val == 'true':
                n_true += 1
                # same function assigns mode its own constant
                mode_writes = [x for x in fieldidx.accesses(F, BM, 'mode') if x['fn'].path == path and x['kind'] == 'assign']
                own = None
                for m in MODES:
                    if path.startswith(m + '::'):
                        own = m
                good = False
                if mode_writes and own:
                    mw = mode_writes[0]
                    mv = prov.strip(P.rvalue(mw['stmt']['rv'], mw['bb'], fn.blocks[mw['bb']]['s'].index(mw['stmt'])))
                    good = mv[0] == 'agg' and mv[3] == MODE_VARIANT[own]
                is_conv = path.endswith('::convert') and path.split('::')[0] in ('taiko', 'catch', 'mania')
                ctx.require(good and is_conv, 'C14-R2', 'true:' + path, '%s marks the map as convert and sets mode = GameMode::%s' % (path, MODE_VARIANT.get(own, '?')),
                            fn.where(a['line']), bad='%s sets is_convert = true %s' % (path, 'outside a converter' if not is_conv else 'without assigning its own mode'))
            elif val == 'false':
                n_false += 1
                allowed = fn.impl_trait in ('std::default::Default', 'std::convert::From') and fn.self_adt == BM
                ctx.require(allowed, 'C14-R2', 'false:' + path, '%s creates a fresh (unconverted) map' % path, fn.where(a['line']),
                            bad='%s resets is_convert to false' % path)
            else:
                # copies of a whole Beatmap (Clone) carry the flag along
                if fn.impl_trait == 'std::clone::Clone':
                    continue
                ctx.violation('C14-R2', 'other:' + path, '%s writes Beatmap.is_convert = `%s`' % (path, prov.show(v, maxdepth=3)), fn.where(a['line']))
    ctx.floor('C14-R2', n_true, 3, 'converters setting is_convert = true')
    ctx.floor('C14-R2', n_false, 2, 'constructors setting is_convert = false')
    # every converter reachable from convert_ref/convert_mut must be one of the writers
    for m in ('taiko', 'catch', 'mania'):
        w = [p for p in writers if p.startswith(m + '::') and p.endswith('::convert')]
        ctx.require(bool(w), 'C14-R2', 'marks:' + m, '%s converter marks its result' % m, bad='no function of %s::convert sets is_convert = true' % m)
    r3(ctx, F)
    r4(ctx, F)
    r5(ctx, F)
    r6_taiko(ctx, F)
    r7_marks_every_path(ctx, F)
    from props import C07 as _c07
    _c07.no_stale_map_reads(ctx, F, 'C14-R8')
    ctx.not_decided('all other counting clauses: n_circles+n_sliders+n_spinners = objects considered, taiko max combo = hits, mania counts, '
                    'catch fruit counts, min(n,total), monotonicity in n, saturation above the total')


# ---- R3: osu! object kinds are counted by exactly one counter each, identically in the one-shot and the gradual path
OSU_ATTR = 'osu::attributes::OsuDifficultyAttributes'
OSU_KIND = 'osu::object::OsuObjectKind'


def upvar_fields(F, closure_fn):
    """for a closure: upvar index -> last field name of the captured place in the parent (edition-2021 closures
    capture individual fields by reference)"""
    parent = F.fn(closure_fn.path.rsplit('::{closure#', 1)[0])
    out = {}
    if parent is None:
        return out
    P = prov.prov_of(parent)
    for bi, si, s in parent.assigns():
        rv = s['rv']
        if rv['k'] == 'agg' and rv.get('ak') == 'closure' and rv['closure'] == closure_fn.path:
            for i, o in enumerate(rv['ops']):
                v = P.operand(o, bi, si)
                pp = as_param_path(v)
                if pp is not None and pp[1]:
                    out[i] = pp[1][-1]
    return out


def attr_increments(F, fn, blocks):
    """[(attribute field, increment rendered)] for writes of OsuDifficultyAttributes counters in `blocks`"""
    P = prov.prov_of(fn)
    ups = upvar_fields(F, fn) if fn.kind == 'Closure' else {}
    out = []
    for bi in sorted(blocks):
        for si, s in enumerate(fn.blocks[bi]['s']):
            if s['k'] != 'assign':
                continue
            p = s['p']
            field = None
            fs = [e for e in p.get('proj', []) if isinstance(e, dict) and e.get('adt') == OSU_ATTR]
            if fs:
                field = fs[0]['f']
            elif p.get('proj') == ['*'] and ups:
                v = P.local(p['l'], bi, si)
                pp = as_param_path(v)
                if pp is not None and pp[0] == 1 and pp[1] and pp[1][0].startswith('upvar'):
                    field = ups.get(int(pp[1][0][5:]))
            if field is None:
                continue
            v = P.rvalue(s['rv'], bi, si)
            # v = AddWithOverflow(old, X).0  -> render X with parameter numbers erased
            inc = None
            for n in prov.walk(v, limit=50):
                if n[0] == 'binop' and n[1] in ('AddWithOverflow', 'Add'):
                    inc = n[3]
                    break
            txt = prov.show(inc, maxdepth=4) if inc is not None else prov.show(v, maxdepth=3)
            import re as _re
            txt = _re.sub(r'param#\d+|\(\*?_\d+\)', '_', txt)
            txt = _re.sub(r'\(…[^)]*\)|…', '_', txt)
            out.append((field, txt))
    return out


def kind_summary(F, fn):
    import arms
    P = prov.prov_of(fn)
    for bb, info in arms.enum_switches(fn):
        op = fn.blocks[bb]['t']['discr']
        d = P.reaching(op['p']['l'], bb, len(fn.blocks[bb]['s']))
        adt = d[0].data['rv'].get('adt') if d and d[0].kind == 'assign' else None
        if adt != OSU_KIND:
            continue
        out = {}
        total = 0
        for lab, tgt in info['edges']:
            incs = attr_increments(F, fn, arms.region(fn, tgt))
            out[lab] = sorted(incs)
            total += len(incs)
        dom = fn.cfg.dom()
        common_blocks = [b for b in dom.get(bb, ()) ]
        out['*'] = sorted(attr_increments(F, fn, common_blocks))
        if total:
            return out
    return None


def path_kind_summary(F, fn):
    """like kind_summary, for a counter update routed through a per-object delta value (`Counts::of(h).add_to(attrs)`): the helpers of the module are
    inlined and every acyclic path is summarised — object kind taken at the kind switch, the increment of each attribute counter resolved along the path
    (through struct literals, `..CONST` updates, references); all paths of one kind must agree.  Increments of 0 are no increments."""
    import arms
    import inline
    import re as _re
    mod = fn.path.rsplit('::', 2)[0] if fn.self_adt else fn.path.rsplit('::', 1)[0]
    same_mod = lambda h: not h.impl_trait and h.kind != 'Closure' and h.path.startswith(mod) and len(h.blocks) < 60
    g = inline.inlined(F, fn, depth=2, force=same_mod, stop=lambda h: not same_mod(h))
    if g is fn:
        return None
    P = prov.prov_of(g)
    kind_sw = None
    for bb, info in arms.enum_switches(g):
        op = g.blocks[bb]['t']['discr']
        d = P.reaching(op['p']['l'], bb, len(g.blocks[bb]['s']))
        if d and d[0].kind == 'assign' and d[0].data['rv'].get('adt') == OSU_KIND:
            kind_sw = (bb, info)
            break
    paths = arms.feasible_paths(g) if kind_sw else None
    if not paths:
        return None
    per = {}
    for p in paths:
        if kind_sw[0] not in p.blocks[:-1]:
            return None
        nxt = p.blocks[p.blocks.index(kind_sw[0]) + 1]
        labs = [lab for lab, tgt in kind_sw[1]['edges'] if tgt == nxt]
        eff = []
        for i, bb in enumerate(p.blocks):
            for si, s_ in enumerate(g.blocks[bb]['s']):
                if s_['k'] != 'assign':
                    continue
                fs = [e for e in s_['p'].get('proj', []) if isinstance(e, dict) and e.get('adt') == OSU_ATTR]
                if not fs or s_['rv']['k'] != 'use' or s_['rv']['op'].get('k') not in ('copy', 'move'):
                    continue
                # the stored value is (old + X).0: find the addition on this path
                src = s_['rv']['op']['p']
                d = arms._last_def(g, p.blocks, i, si, src['l'])
                if d is None or d[0] != 'assign' or d[1]['rv']['k'] != 'binop' or not d[1]['rv']['op'].startswith('Add'):
                    eff.append((fs[0]['f'], '?'))
                    continue
                _, bs, bk, bj = d
                r = arms.path_resolve(g, p.blocks, bk, bj, bs['rv']['b'])
                if r is None:
                    txt = '?'
                elif r[0] == 'const':
                    txt = str(r[1])
                else:
                    _, o2, k2, j2 = r
                    v = P.operand(o2, p.blocks[k2], j2 if j2 is not None else len(g.blocks[p.blocks[k2]]['s']))
                    txt = prov.show(v, maxdepth=4)
                    txt = _re.sub(r'param#\d+|\(\*?_\d+\)', '_', txt)
                    txt = _re.sub(r'\(…[^)]*\)|…', '_', txt)
                if txt != '0':
                    eff.append((fs[0]['f'], txt))
        for lab in labs:
            per.setdefault(lab, set()).add(tuple(sorted(eff)))
    if any(len(v) != 1 for v in per.values()) or not any(e for v in per.values() for e in v):
        return None
    out = {lab: list(next(iter(v))) for lab, v in per.items()}
    out['*'] = []
    return out


def _normalised(s):
    """per kind: the arm's own increments plus those made for every object"""
    return {k: sorted(list(v) + list(s.get('*', []))) for k, v in s.items() if k != '*'}


def r3(ctx, F):
    import arms
    sums = {}
    for fn in F.fns:
        if not fn.path.startswith('osu::'):
            continue
        s = kind_summary(F, fn)
        if s:
            sums[fn.path] = (fn, s)
    if len(sums) < 2:
        # a counting function may go through a per-object delta value built by a local helper that holds the match on the object kind
        for fn in F.fns:
            if not fn.path.startswith('osu::') or fn.path in sums or fn.kind == 'Closure':
                continue
            callees = [F.fn(t['func'].get('path') or '') for _, t in fn.calls() if t['func'].get('local')]
            if not any(h is not None and any((h.blocks[bb]['t'].get('k') == 'switch') for bb, _ in arms.enum_switches(h)) and
                       any(prov.prov_of(h).reaching(h.blocks[bb]['t']['discr']['p']['l'], bb, len(h.blocks[bb]['s'])) and
                           prov.prov_of(h).reaching(h.blocks[bb]['t']['discr']['p']['l'], bb, len(h.blocks[bb]['s']))[0].data.get('rv', {}).get('adt') == OSU_KIND
                           for bb, _ in arms.enum_switches(h) if h.blocks[bb]['t']['discr'].get('k') in ('copy', 'move'))
                       for h in callees):
                continue
            s = path_kind_summary(F, fn)
            if s:
                sums[fn.path] = (fn, s)
    ctx.floor('C14-R3', len(sums), 2, 'functions counting osu! objects by kind (one-shot closure + gradual increment)')
    ref = None
    for path, (fn, s) in sorted(sums.items()):
        ctx.saw(fn)
        kinds = {}
        ns = _normalised(s)
        for lab in ('Circle', 'Slider', 'Spinner'):
            ones = [f for f, inc in s.get(lab, []) if f in ('n_circles', 'n_sliders', 'n_spinners') and inc == '1']
            kinds[lab] = ones
        good = all(len(v) == 1 for v in kinds.values()) and len({v[0] for v in kinds.values() if v}) == 3
        combo_all = ('max_combo', '1') in s.get('*', []) or all(any(f == 'max_combo' for f, _ in s.get(l, [])) for l in ('Circle', 'Slider', 'Spinner'))
        ctx.require(good and combo_all, 'C14-R3', 'kinds:' + path, '%s: each kind increments exactly one of n_circles/n_sliders/n_spinners by 1 (%s) and max_combo by 1 for every object'
                    % (path, {k: v for k, v in kinds.items()}), fn.where(),
                    bad='%s: kind counters per arm are %s, common %s — circles + sliders + spinners no longer add up to the objects considered' % (path, kinds, s.get('*')))
        if ref is None:
            ref = (path, s)
        else:
            same = all(ns.get(k) == _normalised(ref[1]).get(k) for k in ('Circle', 'Slider', 'Spinner'))
            ctx.require(same, 'C14-R3', 'siblings:' + path, 'counts per kind identical to %s: %s' % (ref[0], {k: s.get(k) for k in ('Circle', 'Slider', 'Spinner', '*')}), fn.where(),
                        bad='%s and %s count objects differently: %s vs %s' % (path, ref[0], {k: s.get(k) for k in s}, {k: ref[1].get(k) for k in ref[1]}))


# ---- R4: passed_objects(n) records n for every n and get_passed_objects hands back exactly n (usize::MAX when unset)
def r4(ctx, F):
    import combin
    from common import delta_fields
    DIFF = 'any::difficulty::Difficulty'
    setter = F.method(DIFF, 'passed_objects', inherent_only=True)
    getter = F.method(DIFF, 'get_passed_objects', inherent_only=True)
    if setter is None or getter is None:
        ctx.violation('C14-R4', 'anchor-missing:passed_objects', 'Difficulty::passed_objects / get_passed_objects not found')
        return
    ctx.saw(setter)
    ctx.saw(getter)
    d = delta_fields(prov.prov_of(setter).return_value(), 1)
    good = False
    shown = '?'
    slot = None
    if d is not None and len(d) == 1:
        slot = list(d)[0]
        v = prov.strip(d[slot], names=set())
        shown = prov.show(v, maxdepth=4)
        good = v[0] == 'agg' and v[3] == 'Some' and as_param_path(v[4]['0'], through_calls=False) == (2, ())
    ctx.require(good, 'C14-R4', 'setter', 'passed_objects(n) records Some(n) unchanged for every n (0 included)', setter.where(),
                bad='Difficulty::passed_objects stores `%s`: some n (e.g. 0) are not recorded as given, so "counted = min(n, total)" fails for them' % shown)
    rv = combin.expand(F, prov.prov_of(getter).return_value())
    alts = rv[1] if rv[0] == 'phi' else [rv]
    ok_default = any(prov.const_val(prov.strip(a)) == str(2 ** 64 - 1) for a in alts)
    ok_value = False
    for a in alts:
        a = prov.strip(a, names=set())
        if a[0] == 'cast' and a[1] == 'IntToInt':
            pp = as_param_path(a[2])
            if pp is not None and pp[0] == 1 and pp[1][:1] == (slot,) and pp[1][-1] == '0':
                ok_value = True
    ctx.require(ok_default and ok_value and len(alts) == 2, 'C14-R4', 'getter', 'get_passed_objects = recorded n as usize, usize::MAX when unset', getter.where(),
                bad='Difficulty::get_passed_objects returns `%s`, expected the recorded n (as usize) or usize::MAX' % prov.show(rv, maxdepth=5))


# ---- R5 (mania): hold notes are counted by object kind — one per Slider / Spinner / Hold object, none per Circle, nothing else decides
MANIA_PARAMS = 'mania::object::ObjectParams'


def r5(ctx, F):
    import arms
    import inline
    fn0 = F.method('mania::object::ManiaObject', 'new', inherent_only=True)
    if fn0 is None:
        ctx.violation('C14-R5', 'anchor-missing:ManiaObject::new', 'mania::object::ManiaObject::new not found')
        return
    ctx.saw(fn0)
    fn = inline.inlined(F, fn0, depth=2)
    P = prov.prov_of(fn)
    sws = [(bb, info) for bb, info in arms.enum_switches(fn) if prov.show(info['cond']) == 'discr(param#1.kind)']
    dom = fn.cfg.dom()
    sws.sort(key=lambda x: len(dom.get(x[0], ())))
    writes = []
    for bi, si, s in fn.assigns():
        if any(isinstance(e, dict) and e.get('f') == 'n_hold_notes' and e.get('adt') == MANIA_PARAMS for e in s['p'].get('proj', [])):
            v = P.rvalue(s['rv'], bi, si)
            inc = None
            for n in prov.walk(v, limit=50):
                if n[0] == 'binop' and n[1] in ('AddWithOverflow', 'Add'):
                    inc = prov.const_val(prov.strip(n[3]))
                    break
            writes.append((bi, s.get('ln'), inc))
    if not sws or not writes:
        ctx.violation('C14-R5', 'anchor-missing:kind-switch', 'ManiaObject::new: no match on the hit object kind / no n_hold_notes update found (%d switch(es), %d write(s))' % (len(sws), len(writes)), fn0.where())
        return
    info = sws[0][1]
    kind_bb = sws[0][0]
    wblocks = {bi for bi, _, _ in writes}
    bad = []
    counted = set()
    paths = arms.feasible_paths(fn)
    if paths is not None:
        # path by path (flags set in an arm and tested after the match are propagated): number of updates met per object kind
        per = {}
        for p in paths:
            if kind_bb not in p.blocks[:-1]:
                per.setdefault('<no kind test>', set()).add(sum(1 for b in p.blocks if b in wblocks))
                continue
            nxt = p.blocks[p.blocks.index(kind_bb) + 1]
            labs = [lab for lab, tgt in info['edges'] if tgt == nxt]
            nw = sum(1 for b in p.blocks if b in wblocks)
            for lab in labs:
                per.setdefault(lab, set()).add(nw)
        for lab, counts in sorted(per.items()):
            if lab == 'Circle':
                if counts != {0}:
                    bad.append('a plain note (Circle) can pass an n_hold_notes update')
            elif counts == {1}:
                counted.add(lab)
            elif counts != {0}:
                bad.append('for %s the number of updates per object depends on more than the kind (%s per path)' % (lab, sorted(counts)))
        if any(inc != '1' for _, _, inc in writes):
            bad.append('an update adds %s' % sorted({str(inc) for _, _, inc in writes}))
    else:
        targets = {}
        for lab, tgt in info['edges']:
            targets.setdefault(tgt, set()).add(lab)
        for tgt, labs in sorted(targets.items()):
            reach = fn.cfg.reachable_from(tgt)
            hit = sorted(wblocks & reach)
            if 'Circle' in labs:
                if hit:
                    bad.append('a plain note (Circle) can reach the n_hold_notes update at line %s' % [ln for bi, ln, _ in writes if bi in hit])
                continue
            if not hit:
                continue
            if not fn.cfg.must_pass_through(tgt, hit):
                bad.append('for %s the update is not made on every path' % sorted(labs))
                continue
            if any(a != b and fn.cfg.can_reach(a, b) for a in hit for b in hit) or any(fn.cfg.can_reach(s_, a) for a in hit for s_ in fn.cfg.succ[a]):
                bad.append('for %s more than one update can run for the same object' % sorted(labs))
                continue
            if any(inc != '1' for bi, ln, inc in writes if bi in hit):
                bad.append('for %s the update adds %s' % (sorted(labs), sorted({str(inc) for bi, ln, inc in writes if bi in hit})))
                continue
            counted |= labs
    want = {lab for lab, _ in info['edges']} - {'Circle'}
    if not bad and counted != want:
        bad.append('hold notes are counted for kinds %s, expected %s' % (sorted(counted), sorted(want)))
    ctx.require(not bad, 'C14-R5', 'mania:n_hold_notes', 'ManiaObject::new counts one hold note for each of %s and none for Circle, decided by the object kind alone' % sorted(want), fn0.where(),
                bad='ManiaObject::new: %s — n_hold_notes no longer equals the number of long notes of the map (a long note of zero length, or a kind, is miscounted) in the one-shot, '
                    'partial and gradual calculation alike' % '; '.join(bad))


# ---- R6 (taiko): the combo / object counter of the one-shot calculation sees every object the source iterator yields
TRUNC_ADAPTORS = {'skip', 'take', 'step_by', 'filter', 'filter_map', 'skip_while', 'take_while', 'map_while', 'peekable_next_if'}


def _counts_every_item(F, f, depth=0):
    """(verdict, explanation) for function f that owns a `max_combo: &mut u32` parameter"""
    names = f.local_names()
    mc = [l for l, nme in names.items() if nme == 'max_combo']
    if not mc:
        return None, 'no max_combo variable'
    mc = mc[0]
    P = prov.prov_of(f)
    defs = {}
    for bi, si, s in f.assigns():
        if 'proj' not in s['p']:
            defs.setdefault(s['p']['l'], []).append(s['rv'])

    def refers(l, seen=()):
        """local l is the counter or a (re)borrow / copy of it"""
        if l == mc:
            return True
        if l in seen:
            return False
        for rv in defs.get(l, ()):
            if rv['k'] == 'ref' and refers(rv['p']['l'], seen + (l,)):
                return True
            if rv['k'] == 'use' and rv['op']['k'] in ('copy', 'move') and refers(rv['op']['p']['l'], seen + (l,)):
                return True
        return False

    def mentions_mc(v):
        return mc <= f.argc and any(x == ('param', mc) for x in prov.walk(v, limit=80))
    counting = {}
    for bi, si, s in f.assigns():
        rv = s['rv']
        if rv['k'] == 'agg' and rv.get('ak') == 'closure' and any(
                (o['k'] in ('copy', 'move') and refers(o['p']['l'])) or mentions_mc(P.operand(o, bi, si)) for o in rv['ops']):
            counting[rv['closure']] = s['p']['l']
    # (a) the counting closure rides on the iterator itself, in front of every truncating adaptor
    for bi, t in f.calls():
        if t['func'].get('name') in ('inspect', 'map') and len(t['args']) == 2:
            a = P.call_args(bi)
            cl = prov.strip(a[1])
            if cl[0] == 'agg' and cl[1] == 'closure' and cl[2] in counting:
                chain = [x[1].get('name') for x in prov.walk(a[0], limit=200) if x[0] == 'call']
                cut = [c for c in chain if c in TRUNC_ADAPTORS]
                if not cut:
                    return True, 'the counting closure is an %s() adaptor on the untruncated object iterator' % t['func'].get('name')
                return False, 'the counting closure is attached with %s() behind %s: the objects cut off there are never counted' % (t['func'].get('name'), cut)
    # (c) handed on to a private helper: judge that helper
    if depth < 1:
        for bi, t in f.calls():
            if t['func'].get('local') and any(mentions_mc(x) for x in P.call_args(bi)):
                g = F.fn(t['func'].get('path') or '')
                if g is not None and g.kind != 'Closure' and not g.impl_trait:
                    r = _counts_every_item(F, g, depth + 1)
                    if r[0] is not None:
                        return r[0], '%s: %s' % (g.path.split('::')[-1], r[1])
    # (b) explicit counting: after every `next()` that yields an object, a count is made before the function returns or asks for the next one
    count_blocks = set()
    for bi, t in f.calls():
        fp = t['func'].get('path') or ''
        if fp in counting:
            count_blocks.add(bi)
        elif t['func'].get('name') in ('call', 'call_mut', 'call_once') and t['args']:
            a0 = P.call_args(bi)[0]
            if any(x[0] == 'agg' and x[1] == 'closure' and x[2] in counting for x in prov.walk(a0, limit=40)):
                count_blocks.add(bi)
    if not counting:
        # direct bookkeeping: the blocks that test or update *max_combo
        for bi, b in enumerate(f.blocks):
            if b.get('cleanup'):
                continue
            txt = str(b['s']) + str(b['t'].get('discr', ''))
            if mc <= f.argc and ("'l': %d, 'proj': ['*']" % mc) in txt:
                count_blocks.add(bi)
    # (d) counted in a loop of its own: every counting block sits in one loop that walks the whole, untruncated source list and is left only when that list ends
    if not counting and count_blocks:
        import arms as _arms
        for hdr, body in f.cfg.natural_loops().items():
            if not count_blocks <= body:
                continue
            lnext = [(bi, t) for bi, t in f.calls() if bi in body and t['func'].get('name') == 'next']
            if len(lnext) != 1:
                continue
            nb, nt = lnext[0]
            src = P.call_args(nb)[0]
            chain = [x[1].get('name') for x in prov.walk(src, limit=300) if x[0] == 'call']
            over_objects = any(x[0] == 'field' and x[2] == 'hit_objects' for x in prov.walk(src, limit=300))
            cut = [c for c in chain if c in TRUNC_ADAPTORS]
            exits = [(b, nb2) for b in body for nb2 in f.cfg.succ[b] if nb2 not in body and not f.blocks[nb2].get('cleanup') and
                     f.blocks[nb2]['t']['k'] != 'unreachable']
            none_exits = set()
            for sb, info in _arms.enum_switches(f):
                if sb in body and any(x[0] == 'call' and len(x) > 3 and x[3] == (f.path, nb) for x in prov.walk(info['cond'], limit=200)):
                    for lab, tgt in info['edges']:
                        if lab == 'None':
                            none_exits.add((sb, tgt))
            if over_objects and 'iter' in chain and not cut and exits and all(e in none_exits for e in exits):
                return True, 'max_combo / n_diff_objects are counted in a loop of their own over the whole hit object list (no truncating adaptor, left only at the end of the list)'
            if over_objects and cut:
                return False, 'the counting loop walks the object list behind %s: the objects cut off there are never counted' % cut
    nexts = [(bi, t) for bi, t in f.calls() if t['func'].get('name') == 'next' and t.get('dest') and 'TaikoObject' in (f.locals[t['dest']['l']].get('s') or '')
             and (f.locals[t['dest']['l']].get('s') or '').startswith('std::option::Option<')]
    if not nexts or not count_blocks:
        return None, 'no explicit next() on the object iterator / no counting site (%d, %d)' % (len(nexts), len(count_blocks))
    import arms
    for bN, t in nexts:
        # edges on which this next() is known to have yielded nothing
        none_edges = set()
        for sb, info in arms.enum_switches(f):
            if any(x[0] == 'call' and len(x) > 3 and x[3] == (f.path, bN) for x in prov.walk(info['cond'], limit=200)):
                for lab, tgt in info['edges']:
                    if lab == 'None':
                        none_edges.add((sb, tgt))
        start = t.get('target')
        seen, todo, escaped = set(), [start] if start is not None else [], start is None
        while todo and not escaped:
            b = todo.pop()
            if b in seen or b in count_blocks:
                continue
            seen.add(b)
            if f.blocks[b]['t']['k'] == 'return':
                escaped = True
                break
            for nb in f.cfg.succ[b]:
                if (b, nb) not in none_edges and not f.blocks[nb].get('cleanup'):
                    todo.append(nb)
        if escaped:
            return False, 'an object taken from the iterator at line %s can reach a return without being counted (a count placed behind an early exit)' % t.get('ln')
    return True, 'every object taken with next() is counted before the function returns or takes the next one (%d next() sites)' % len(nexts)


def r6_taiko(ctx, F):
    f = F.fn('taiko::difficulty::DifficultyValues::create_difficulty_objects')
    if f is None:
        ctx.violation('C14-R6', 'anchor-missing:create_difficulty_objects', 'taiko::difficulty::DifficultyValues::create_difficulty_objects not found')
        return
    ctx.saw(f)
    ok, why = _counts_every_item(F, f)
    if ok is None:
        ctx.violation('C14-R6', 'taiko:count-shape', 'taiko create_difficulty_objects: cannot tell how max_combo / n_diff_objects are counted (%s)' % why, f.where())
        return
    ctx.require(ok, 'C14-R6', 'taiko:count-every-object', 'taiko one-shot max_combo / n_diff_objects: %s' % why, f.where(),
                bad='taiko create_difficulty_objects: %s — max combo no longer equals the number of hits for the maps that take that exit (e.g. a one-object map)' % why)


# ---- R7: the converter marks its result on EVERY path (seed C14-7: a fast path that returns before `is_convert = true`)
def r7_marks_every_path(ctx, F):
    """`<Mode>::convert(map, ..)` is what convert_ref / convert_mut call once they have decided to convert.  With every private helper inlined,
    every path from its entry to a return writes `map.is_convert = true` and `map.mode = GameMode::<Mode>`; no other value is written to
    either field.  A path that returns early with the mode switched but the flag unset hands out a converted map that says it is native."""
    import inline
    from props import C19
    n = 0
    for m in ('taiko', 'catch', 'mania'):
        path = '%s::%s::convert' % (m, CAP[m])
        f0 = F.fn(path)
        key = 'every-path:' + m
        if f0 is None:
            ctx.violation('C14-R7', 'anchor-missing:' + path, 'the mode\'s conversion entry %s was not found' % path)
            continue
        f = inline.inlined(F, f0, force=lambda h: True) or f0
        ctx.saw(f0)
        P = prov.prov_of(f)
        marks = {'is_convert': set(), 'mode': set()}
        other = []
        for fld, want in (('is_convert', 'true'), ('mode', MODE_VARIANT[m])):
            for bi, s, whole in C19.elem_writes(f, fld, root_param=1):
                if not whole or s['rv']['k'] != 'use':
                    other.append('%s (block %d)' % (fld, bi))
                    continue
                v = prov.strip(P.operand(s['rv']['op'], bi, f.blocks[bi]['s'].index(s)))
                if fld == 'is_convert':
                    good = prov.const_val(v) == want
                else:
                    good = v[0] == 'agg' and v[3] == want
                if good:
                    marks[fld].add(bi)
                else:
                    other.append('%s = %s (block %d)' % (fld, prov.show(v, maxdepth=2), bi))
        n += 1
        if other:
            ctx.violation('C14-R7', key + ':other-write', '%s also writes %s' % (path, other), f0.where())
            continue
        ok_ic = bool(marks['is_convert']) and f.cfg.must_pass_through(0, marks['is_convert'])
        ok_mode = bool(marks['mode']) and f.cfg.must_pass_through(0, marks['mode'])
        ctx.require(ok_ic and ok_mode, 'C14-R7', key, 'every path through %s (helpers inlined, %d blocks) to a return writes is_convert = true and mode = GameMode::%s' % (
            path, len(f.blocks), MODE_VARIANT[m]), f0.where(),
            bad='%s: a path from the entry to a return skips %s: the converted map is handed out %s' % (
                path, 'the write `is_convert = true`' if not ok_ic else 'the write of `mode`',
                'with its mode switched but flagged as a native map' if not ok_ic else 'flagged as a convert but with its old mode'))
    ctx.floor('C14-R7', n, 3, 'mode conversion entries')
