"""C19 — converted maps are well-formed: structural part."""
import prov
from common import as_param_path
from facts import callee_path

EXPLANATION = (
    "Structural clauses over resolved MIR: catch's convert writes exactly map.mode and map.is_convert and calls nothing (R1); "
    "in taiko's convert the mutating operations on map.hit_objects and map.hit_sounds are the same multiset, each pair "
    "executes together on every path (one dominates, the other post-dominates) with equal index arguments, and the "
    "temporary object/sound vectors are pushed in pairs; taiko's Random mod touches sounds only and no lengths (R2); in "
    "taiko::convert, mania::convert, apply_hold_off_to_beatmap and apply_invert_to_beatmap every path from a write of "
    "hit_objects to the return passes a sort by start_time (total_cmp) (R3); effect points are inserted only through "
    "ControlPoint::add (R4, shared with C06-R4); the range helpers of the conversion RNG (Random::next_int_range / next_double_range, private helpers inlined) are the polynomial min + U*(max - min) of one unit draw, casts and truncation read as identity — the necessary shape for a draw to stay inside [min, max), which the mania column picker relies on (R5). Column bounds, non-negative durations, key-count range: NOT decided.")

BM = 'model::beatmap::Beatmap'
PASS_THROUGH = {'deref_mut', 'as_mut_slice', 'as_mut', 'borrow_mut', 'index_mut', 'get_mut'}


def root_aliases(fn, root_param=1):
    """locals holding the same `&mut Beatmap` as the parameter (copies, moves, re-borrows) — after inlining a helper its map parameter is one"""
    roots = {root_param}
    grew = True
    while grew:
        grew = False
        for bi, si, s in fn.assigns():
            if 'proj' in s['p'] or s['p']['l'] in roots:
                continue
            rv = s['rv']
            src = None
            if rv['k'] == 'use' and rv['op'].get('k') in ('copy', 'move'):
                src = rv['op']['p']
            elif rv['k'] == 'ref':
                src = rv['p']
            if src is not None and src['l'] in roots and all(e == '*' for e in src.get('proj', [])):
                roots.add(s['p']['l'])
                grew = True
    return roots


def vec_mut_uses(fn, field, root_param=1):
    """calls that receive a mutable borrow of (*param).field (directly or through deref_mut)"""
    out = []
    al = set()
    roots = root_aliases(fn, root_param)
    for bi, si, s in fn.assigns():
        rv = s['rv']
        if rv['k'] == 'ref' and rv['bk'] == 'mut' and rv['p']['l'] in roots and 'proj' not in s['p']:
            names = [e.get('f') for e in rv['p'].get('proj', []) if isinstance(e, dict) and 'f' in e]
            if names == [field]:
                al.add(s['p']['l'])
    grew = True
    finals = []
    seen_calls = set()
    while grew:
        grew = False
        for bi, si, s in fn.assigns():
            if 'proj' in s['p'] or s['p']['l'] in al:
                continue
            rv = s['rv']
            src = None
            if rv['k'] == 'use' and rv['op']['k'] in ('copy', 'move'):
                src = rv['op']['p']
            elif rv['k'] == 'ref':
                src = rv['p']
            if src is not None and src['l'] in al and all(e == '*' for e in src.get('proj', [])):
                al.add(s['p']['l'])
                grew = True
        for bi, t in fn.calls():
            if bi in seen_calls:
                continue
            hit = [i for i, a in enumerate(t['args']) if a['k'] in ('copy', 'move') and a['p']['l'] in al and 'proj' not in a['p']]
            if not hit:
                continue
            seen_calls.add(bi)
            name = t['func'].get('name')
            if name in PASS_THROUGH and 'proj' not in t['dest']:
                al.add(t['dest']['l'])
                grew = True
            else:
                finals.append((name, callee_path(t), bi, t, hit[0]))
    return finals


def elem_writes(fn, field, root_param=1):
    out = []
    roots = root_aliases(fn, root_param)
    for bi, si, s in fn.assigns():
        p = s['p']
        if p['l'] in roots and 'proj' in p:
            names = [e.get('f') for e in p['proj'] if isinstance(e, dict) and 'f' in e]
            if names and names[0] == field:
                whole = len([e for e in p['proj'] if e != '*']) == 1
                out.append((bi, s, whole))
    return out


def is_time_comparator(F, v):
    """v: value of a comparator argument (closure aggregate or fn item)"""
    v = prov.strip(v, names={'clone'})
    while v[0] == 'cast':                      # a fn item coerced to a fn pointer
        v = next((y for y in v[1:] if isinstance(y, tuple) and y and isinstance(y[0], str)), ('unknown',))
        v = prov.strip(v, names={'clone'})
    body = None
    if v[0] == 'agg' and v[1] == 'closure':
        body = F.fn(v[2])
    elif v[0] == 'const' and 'fn' in v[1]:
        p = v[1]['fn'].get('path')
        if p in ('core::f64::<impl f64>::total_cmp',):
            return True
        body = F.fn(p)
    if body is None:
        return False
    rv = prov.strip(prov.prov_of(body).return_value(), names=set())
    if rv[0] == 'call' and rv[1].get('name') in ('total_cmp',) and len(rv[2]) == 2:
        a = as_param_path(rv[2][0])
        b = as_param_path(rv[2][1])
        return a is not None and b is not None and a[1][-1:] == ('start_time',) and b[1][-1:] == ('start_time',) and a[0] != b[0]
    return False


def sort_sites(F, fn, _depth=0):
    """blocks in fn that sort map.hit_objects by time: {bb: description}"""
    out = {}
    P = prov.prov_of(fn)
    for name, path, bi, t, argi in vec_mut_uses(fn, 'hit_objects'):
        args = P.call_args(bi)
        if name in ('sort_by', 'sort_unstable_by', 'sort_by_key') and len(args) == 2:
            if is_time_comparator(F, args[1]):
                out[bi] = '%s(total_cmp on start_time)' % name
        elif path == 'util::sort::osu_legacy::sort':
            out[bi] = 'legacy sort (HitObject: PartialOrd by start_time)'
        elif path.endswith('TandemSorter::sort'):
            # the sorter must come from new_stable(&map.hit_objects, time comparator)
            s = prov.strip(args[0], names=set())
            ok = False
            for x in prov.walk(s, limit=200):
                if x[0] == 'call' and x[1].get('name') == 'new_stable' and len(x[2]) == 2:
                    src = as_param_path(x[2][0])
                    if src is not None and src[1][-1:] == ('hit_objects',) and is_time_comparator(F, x[2][1]):
                        ok = True
            if ok:
                out[bi] = 'TandemSorter::new_stable(&hit_objects, total_cmp on start_time).sort'
    # a private helper of the converter that always leaves hit_objects sorted (`replace_hit_objects(map, new)`: install, then sort)
    if _depth < 1:
        for bi, t in fn.calls():
            if bi in out or not t['func'].get('local'):
                continue
            h = F.fn(callee_path(t))
            if h is None or h is fn or not any('Beatmap' in (i.get('s') or '') and i.get('k') == 'refmut' for i in h.j.get('inputs', [])):
                continue
            hs = sort_sites(F, h, _depth + 1)
            if not hs or not h.cfg.must_pass_through(0, set(hs)):
                continue
            hw = {b for _, _, b, _, _ in vec_mut_uses(h, 'hit_objects') if b not in hs} | {b for b, _, whole in elem_writes(h, 'hit_objects') if whole}
            if all(h.cfg.must_pass_through(w, set(hs) - {w}) for w in hw):
                out[bi] = '%s (always ends with %s)' % (h.path.split('::')[-1], sorted(set(hs.values()))[0])
    return out


def run(ctx):
    F = ctx.facts('default')
    # ---- R1
    f = F.fn('catch::convert::convert')
    if f is None:
        ctx.violation('C19-R1', 'anchor-missing:catch::convert::convert', 'not found')
    else:
        ctx.saw(f)
        written = set()
        other = []
        for bi, si, s in f.assigns():
            p = s['p']
            if 'proj' in p and p['l'] == 1:
                names = [e.get('f') for e in p['proj'] if isinstance(e, dict) and 'f' in e]
                written.add('.'.join(n for n in names if n))
            elif 'proj' in p:
                other.append(p)
        ncalls = sum(1 for _ in f.calls())
        ctx.require(written == {'mode', 'is_convert'} and ncalls == 0 and not other, 'C19-R1', 'catch-convert',
                    'catch convert writes exactly map.mode and map.is_convert and calls nothing: objects untouched', f.where(),
                    bad='catch::convert::convert writes %s and makes %d call(s): a catch convert must leave the objects untouched' % (sorted(written), ncalls))
    # ---- R2
    import inline
    f = F.fn('taiko::convert::convert')
    if f is not None:
        f = inline.inlined(F, f)            # private helpers of the converter (splice/remove step, final sort) are read through
    if f is None:
        ctx.violation('C19-R2', 'anchor-missing:taiko::convert::convert', 'not found')
    else:
        ctx.saw(f)
        P = prov.prov_of(f)
        uo = vec_mut_uses(f, 'hit_objects')
        us = vec_mut_uses(f, 'hit_sounds')
        mo = sorted(n for n, *_ in uo)
        ms = sorted(n for n, *_ in us)
        ctx.require(mo == ms and len(mo) >= 3, 'C19-R2', 'taiko:multiset', 'mutating operations on hit_objects and hit_sounds are the same multiset: %s' % mo, f.where(),
                    bad='taiko convert edits hit_objects with %s but hit_sounds with %s: objects and sounds fall out of step' % (mo, ms))
        npairs = 0
        used = set()
        for name, path, bo, to, ao in uo:
            cands = [(n2, p2, bs, ts, as_) for n2, p2, bs, ts, as_ in us if n2 == name and bs not in used]
            best = None
            for n2, p2, bs, ts, as_ in cands:
                together = (f.cfg.dominates(bo, bs) and f.cfg.postdominates(bs, bo)) or (f.cfg.dominates(bs, bo) and f.cfg.postdominates(bo, bs))
                if together:
                    best = (bs, ts, as_)
                    break
            key = 'taiko:pair:%s' % name
            if best is None:
                ctx.violation('C19-R2', key + ':unpaired', 'hit_objects.%s (line %s) has no hit_sounds.%s executing on exactly the same paths' % (name, to.get('ln'), name), f.where(to.get('ln')))
                continue
            bs, ts, as_ = best
            used.add(bs)
            npairs += 1
            # index / range arguments (the first argument after the vector) must agree
            ao_args = P.call_args(bo)
            as_args = P.call_args(bs)
            same_idx = True
            detail = ''
            if name in ('remove', 'splice', 'insert', 'truncate', 'swap_remove', 'drain'):
                io = prov.show(ao_args[ao + 1], maxdepth=6) if len(ao_args) > ao + 1 else ''
                is_ = prov.show(as_args[as_ + 1], maxdepth=6) if len(as_args) > as_ + 1 else ''
                same_idx = io == is_
                detail = ' at %s' % io
            elif name == 'sort':
                same_idx = prov.show(prov.strip(ao_args[0]), maxdepth=6) == prov.show(prov.strip(as_args[0]), maxdepth=6)
                detail = ' with the same sorter'
            ctx.require(same_idx, 'C19-R2', key, 'hit_objects.%s and hit_sounds.%s run on the same paths%s' % (name, name, detail), f.where(to.get('ln')),
                        bad='hit_objects.%s and hit_sounds.%s use different positions / sorters' % (name, name))
        ctx.floor('C19-R2', npairs, 3, 'lock-step pairs on hit_objects/hit_sounds')
        # temporaries: Vec<HitObject> and Vec<HitSoundType> locals pushed in pairs
        def push_pairs(g):
            push = {}
            for bi, t in g.calls():
                if t['func'].get('name') == 'push' and t['args'] and t['args'][0]['k'] in ('copy', 'move'):
                    ty = g.locals[t['args'][0]['p']['l']]['s']
                    push.setdefault(ty, []).append(bi)
            objs_ = [b for ty, bs in push.items() if 'HitObject>' in ty for b in bs]
            snds_ = [b for ty, bs in push.items() if 'HitSoundType>' in ty for b in bs]
            ok_ = len(objs_) == len(snds_) and all(any((g.cfg.dominates(a, b) and g.cfg.postdominates(b, a)) or (g.cfg.dominates(b, a) and g.cfg.postdominates(a, b)) for b in snds_) for a in objs_)
            return objs_, snds_, ok_
        # the pushes may sit in a private helper of the converter that receives both temporaries
        cands = [f] + [h for h in (F.fn(callee_path(t)) for _, t in f.calls() if t['func'].get('local')) if h is not None and h.path.startswith('taiko::convert::')]
        objs, snds, paired = [], [], True
        for g in cands:
            o_, s_, ok_ = push_pairs(g)
            if o_ or s_:
                ctx.saw(g)
                objs += o_
                snds += s_
                paired = paired and ok_
        ctx.require(bool(objs) and paired, 'C19-R2', 'taiko:push-pair', 'every new object pushed is accompanied by exactly one pushed sound on the same paths (%d pair(s))' % len(objs),
                    f.where(), bad='new_objects.push / new_sounds.push are not paired: %d object pushes, %d sound pushes' % (len(objs), len(snds)))
        ew = elem_writes(f, 'hit_objects')
        ctx.note('taiko convert element writes on hit_objects (kind changes, no length change): %d' % len(ew))
    rnd = F.fn('taiko::convert::apply_random_to_beatmap')
    if rnd is None:
        ctx.violation('C19-R2', 'anchor-missing:taiko::convert::apply_random_to_beatmap', 'not found')
    else:
        ctx.saw(rnd)
        uo = vec_mut_uses(rnd, 'hit_objects')
        us = vec_mut_uses(rnd, 'hit_sounds')
        wo = elem_writes(rnd, 'hit_objects')
        ok = not uo and not wo and all(n in ('iter_mut',) for n, *_ in us)
        ctx.require(ok, 'C19-R2', 'taiko:random', 'taiko Random mod mutates sounds in place only (iter_mut), never the objects or any length', rnd.where(),
                    bad='taiko apply_random_to_beatmap mutates hit_objects via %s / hit_sounds via %s' % ([n for n, *_ in uo], [n for n, *_ in us]))
    # ---- R3
    n3 = 0
    for path in ('taiko::convert::convert', 'mania::convert::convert', 'mania::convert::apply_hold_off_to_beatmap', 'mania::convert::apply_invert_to_beatmap'):
        f = F.fn(path)
        if f is not None:
            # private helpers of the converter's own module are read through whatever they are called (a small `Order::of(..).apply(..)` type, say)
            _mod = path.rsplit('::', 1)[0]
            _loc = lambda h, _mod=_mod: not h.impl_trait and h.kind != 'Closure' and h.path.startswith(_mod) and len(h.blocks) < 40 and \
                not str(h.j.get('vis')).startswith('Public') and h.name not in ('convert',) and not h.name.startswith('apply_')
            f = inline.inlined(F, f, force=_loc)
        if f is None:
            ctx.violation('C19-R3', 'anchor-missing:' + path, 'not found')
            continue
        ctx.saw(f)
        n3 += 1
        sorts = sort_sites(F, f)
        writes = set()
        for name, p, bi, t, ai in vec_mut_uses(f, 'hit_objects'):
            if bi not in sorts:
                writes.add(bi)
        for bi, s, whole in elem_writes(f, 'hit_objects'):
            if whole:
                writes.add(bi)
        if not sorts:
            ctx.violation('C19-R3', path + ':no-sort', '%s never sorts hit_objects by start_time' % path, f.where())
            continue
        bad = [w for w in sorted(writes) if not f.cfg.must_pass_through(w, set(sorts) - {w}) and
               not (w in sorts)]
        # a write in the same block as nothing else: must be followed by a sort block on every path
        via_helper = any('always ends with' in d for d in sorts.values())
        ctx.require(not bad and (bool(writes) or via_helper), 'C19-R3', path, 'every path from a write of hit_objects (%d site(s)) to the return passes %s' % (len(writes), sorted(set(sorts.values()))),
                    f.where(), bad='%s: hit_objects is written in block(s) %s and a path to the return skips the time sort: the converted map may be out of order' % (path, bad))
    ctx.floor('C19-R3', n3, 4, 'functions rewriting hit_objects')
    # ---- R4
    import ctlpoints
    ctlpoints.check(ctx, F, 'C19-R4', only=('effect_points',))
    r5_range_draws(ctx, F)
    ctx.not_decided('mania column < key count, key count in [4,7] or the key mod, non-negative durations (value reasoning)')


# ---- R5: the range draws of the conversion RNG are min + U * (max - min)
def _poly_add(a, b, sign=1):
    out = dict(a)
    for m, c in b.items():
        out[m] = out.get(m, 0) + sign * c
        if out[m] == 0:
            del out[m]
    return out


def _poly_mul(a, b):
    out = {}
    for m1, c1 in a.items():
        for m2, c2 in b.items():
            m = tuple(sorted(m1 + m2))
            out[m] = out.get(m, 0) + c1 * c2
            if out[m] == 0:
                del out[m]
    return out


def range_poly(v, syms, draws, depth=0):
    """polynomial (dict monomial -> coefficient) of a value tree over the parameter symbols and the unit draws; casts, From conversions and the
    integer truncation are read as the identity.  None when the tree has another shape."""
    if depth > 40:
        return None
    v = prov.strip(v, names={'from', 'into'})
    k = v[0]
    if k == 'param':
        return {(syms[v[1]],): 1} if v[1] in syms else None
    if k == 'const':
        try:
            c = float(v[1].get('val'))
        except (TypeError, ValueError):
            return None
        return {(): c} if c != 0 else {}
    if k == 'cast':
        return range_poly(v[2], syms, draws, depth + 1)
    if k == 'field' and v[2] in ('0',) and v[1][0] == 'binop' and v[1][1].endswith('WithOverflow'):
        return range_poly(('binop', v[1][1][:-len('WithOverflow')], v[1][2], v[1][3]), syms, draws, depth + 1)
    if k == 'binop':
        a = range_poly(v[2], syms, draws, depth + 1)
        b = range_poly(v[3], syms, draws, depth + 1)
        if a is None or b is None:
            return None
        op = v[1].replace('Unchecked', '')
        if op == 'Add':
            return _poly_add(a, b)
        if op == 'Sub':
            return _poly_add(a, b, -1)
        if op == 'Mul':
            return _poly_mul(a, b)
        return None
    if k == 'call':
        nm = v[1].get('name')
        if nm in ('next_double',) and (v[1].get('impl_adt') or '').endswith('Random'):
            key = id(v)
            if key not in draws:
                draws[key] = 'U%d' % (len(draws) + 1)
            return {(draws[key],): 1}
        return None
    return None


def r5_range_draws(ctx, F):
    R = 'util::random::osu::Random'
    n = 0
    for name in ('next_int_range', 'next_double_range'):
        f = F.method(R, name, inherent_only=True)
        if f is None:
            # not an error by itself: a range helper that does not exist cannot be wrong; the floor below watches the total
            continue
        n += 1
        ctx.saw(f)
        rv = prov.prov_of(f).return_value()
        rv = prov.inline_all(F, rv, depth=2, _seen=(f.path,), only=lambda f_: (f_.get('impl_adt') or '') == R and f_.get('name') not in ('next_double', 'next_int', 'gen_unsigned'))
        draws = {}
        alts = rv[1] if rv[0] == 'phi' else [rv]
        polys = [range_poly(a, {2: 'min', 3: 'max'}, draws) for a in alts]
        want_ok = []
        for p in polys:
            if p is None:
                want_ok.append(False)
                continue
            us = sorted({s for m in p for s in m if s.startswith('U')})
            good = len(us) == 1 and p == {('min',): 1, tuple(sorted((us[0], 'max'))): 1, tuple(sorted((us[0], 'min'))): -1}
            want_ok.append(good)

        def show(p):
            if p is None:
                return 'not an affine expression of one unit draw'
            return ' + '.join('%s%s' % ('' if c == 1 else ('-' if c == -1 else '%g*' % c), '*'.join(m) or '1') for m, c in sorted(p.items())) or '0'
        ctx.require(all(want_ok) and bool(polys), 'C19-R5', 'range:' + name, 'Random::%s(min, max) = min + U*(max - min) with one unit draw U in [0, 1) (truncation aside): stays inside [min, max)' % name, f.where(),
                    bad='Random::%s(min, max) computes %s instead of min + U*max - U*min: for min > 0 the draw leaves [min, max) — e.g. an 8K mania convert (lower column bound 1) '
                        'is handed column indices >= the key count' % (name, ' | '.join(show(p) for p in polys)))
    ctx.floor('C19-R5', n, 1, 'range helpers of the conversion RNG')
