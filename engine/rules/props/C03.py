"""C03 — gradual performance equals partial-play performance: flow clauses."""
import prov
from common import MODES, CAP, as_param_path

EXPLANATION = (
    "Provenance clauses over resolved MIR: each mode's GradualPerformance::new builds its inner gradual difficulty from "
    "exactly its two parameters (osu: the captured lazer flag is d.get_lazer()) (R1); in each nth(state, n) the inner "
    "Iterator::nth receives the parameter n on self.difficulty, and the receiver chain of the final Performance::calculate "
    "contains the attributes returned by that inner nth, a state(_, <parameter state>) step, and every Difficulty setting that the mode's performance "
    "calculation consults once attributes are given (call-graph reachability from generate_state/calculate, cut at the attribute "
    "computation) reaches calculate() from the captured Difficulty — passed_objects from the calculator's own position (R2; the "
    "builder chain is run abstractly, so `.difficulty(d)`, `.mods(d.get_mods())` or a field captured in new() are all accepted). Dropping the captured settings or feeding a modified state compiles and the "
    "fixture (all-miss state, HDHRDT) notices only gross variants. R3 / R4 (shared with C02-R8 / R9): the gradual next() feeds the skills as the one-shot calculation does, and the gradual constructor prepares the calculation with the same numbers. Equality with the one-shot value is numeric: NOT "
    "decided. next/last delegation is C15-R1.")


def gp(mode):
    return '%s::performance::gradual::%sGradualPerformance' % (mode, CAP[mode])


def gd(mode):
    return '%s::difficulty::gradual::%sGradualDifficulty' % (mode, CAP[mode])


def receiver_chain(v):
    """[(name, [other args])] from the outermost call down its first-argument chain"""
    out = []
    cur = v
    for _ in range(40):
        cur = prov.strip(cur, names={'expect', 'unwrap'}, through_mut=True)
        if cur[0] == 'field' and cur[2] == '0':      # payload of Ok / Some / Continue
            cur = cur[1]
            continue
        if cur[0] == 'variant':
            cur = cur[1]
            continue
        if cur[0] == 'call' and cur[2]:
            out.append((cur[1].get('name'), cur[2][1:], cur))
            cur = cur[2][0]
            continue
        break
    return out, cur


DIFF_SETTERS = ('mods', 'lazer', 'clock_rate', 'ar', 'cs', 'hp', 'od', 'hardrock_offsets', 'passed_objects')


def consulted_settings(F, mode):
    """Difficulty::get_* reachable from {generate_state, calculate} of the mode's Performance without entering the attribute
    computation (the gradual path always supplies attributes)"""
    import callgraph
    from facts import callee_path
    cg = callgraph.of(F)
    stop = {f.path for f in F.fns if f.name == 'calculate_for_mode' or (f.impl_trait == 'model::mode::IGameMode' and f.name == 'difficulty')}
    adt = '%s::performance::%sPerformance' % (mode, CAP[mode])
    roots = {f.path for f in F.fns if f.self_adt == adt and f.name in ('generate_state', 'calculate')}
    out = set()
    for p in cg.reachable_from(roots, stop):
        f = F.fn(p)
        if f is None or p in stop:
            continue
        for bi, t in f.calls():
            c = callee_path(t)
            if c.startswith('any::difficulty::Difficulty::get_'):
                out.add(c.split('::')[-1])
    return out


def simulate_settings(F, adt, new_fn, chain):
    """abstract run of the builder chain (innermost call first): setting -> 'default' | 'captured' | 'idx' | 'other'"""
    state = {'*': 'default'}
    # fields of the gradual performance struct that new() fills with difficulty.get_<field>()
    captured_fields = set()
    rv = prov.prov_of(new_fn).return_value()
    for x in prov.walk(rv):
        if x[0] == 'agg' and x[2] == adt:
            for f, v in x[4].items():
                sv = prov.strip(v, names=set())
                if sv[0] == 'call' and sv[1].get('name') == 'get_' + f and as_param_path(sv[2][0]) == (1, ()):
                    captured_fields.add(f)
    def classify(name, a):
        cls = 'other'
        sa = prov.strip(a, names={'clone', 'into', 'from', 'to_owned'})
        if sa[0] == 'call' and sa[1].get('name') == 'get_' + name and as_param_path(sa[2][0]) == (1, ('difficulty', 'difficulty')):
            cls = 'captured'
        elif as_param_path(a) == (1, (name,)) and name in captured_fields:
            cls = 'captured'
        elif name == 'passed_objects' and any(as_param_path(x) == (1, ('difficulty', 'idx')) for x in prov.walk(a, limit=50)):
            cls = 'idx'
        return cls

    for name, args, node in reversed(chain):
        if name == 'difficulty' and len(args) == 1:
            # the Difficulty handed over may itself be `captured.clone().setter(..)..`: unwind that inner chain first
            inner = []
            d = prov.strip(args[0], names={'clone', 'into', 'from', 'to_owned'})
            while d[0] == 'call' and d[1].get('name') in DIFF_SETTERS and (d[1].get('impl_adt') or '') == 'any::difficulty::Difficulty' and len(d[2]) >= 2:
                inner.append((d[1]['name'], d[2][1]))
                d = prov.strip(d[2][0], names={'clone', 'into', 'from', 'to_owned'})
            src = 'captured' if as_param_path(d) == (1, ('difficulty', 'difficulty')) else 'other'
            state = {'*': src}
            for nm, a in reversed(inner):
                state[nm] = classify(nm, a)
        elif name in DIFF_SETTERS and args:
            state[name] = classify(name, args[0])
    return state


def run(ctx):
    F = ctx.facts('default')
    n1 = n2 = 0
    for mode in MODES:
        adt = gp(mode)
        new = F.method(adt, 'new', inherent_only=True)
        nth = F.method(adt, 'nth', inherent_only=True)
        if not new or not nth:
            ctx.violation('C03-R1', 'anchor-missing:%s' % mode, '%s::new / nth not found' % adt)
            continue
        ctx.saw(new)
        ctx.saw(nth)
        # ---- R1
        n1 += 1
        rv = prov.prov_of(new).return_value()
        lits = [x for x in prov.walk(rv) if x[0] == 'agg' and x[2] == adt]
        good = False
        detail = ''
        if len(lits) == 1:
            inner = lits[0][4].get('difficulty')
            calls = [x for x in prov.walk(inner) if x[0] == 'call' and x[1].get('impl_adt') == gd(mode) and x[1].get('name') == 'new'] if inner else []
            if len(calls) == 1:
                a = calls[0][2]
                good = as_param_path(a[0], through_calls=False) == (1, ()) and as_param_path(a[1]) == (2, ())
                detail = '%sGradualDifficulty::new(%s, %s)' % (CAP[mode], prov.show(a[0], maxdepth=2), prov.show(a[1], maxdepth=2))
            extra = {f: v for f, v in lits[0][4].items() if f != 'difficulty'}
            for f, v in extra.items():
                s = prov.strip(v, names=set())
                ok = s[0] == 'call' and s[1].get('name') == 'get_' + f and as_param_path(s[2][0]) == (1, ())
                ctx.require(ok, 'C03-R1', '%s:new:%s' % (mode, f), 'captured `%s` = difficulty.get_%s()' % (f, f), new.where(),
                            bad='%s::new captures `%s` = %s, expected difficulty.get_%s()' % (adt, f, prov.show(s, maxdepth=3), f))
        ctx.require(good, 'C03-R1', '%s:new' % mode, 'inner calculator = %s' % detail, new.where(),
                    bad='%s::new does not build its inner gradual difficulty from exactly (difficulty, map): %s' % (adt, detail or prov.show(rv, maxdepth=4)))
        # ---- R2
        P = prov.prov_of(nth)
        rv = P.return_value()
        # private helpers of the calculator itself (e.g. the builder chain split off into its own method) are read through
        rv = prov.inline_all(F, rv, depth=2, _seen=(nth.path,), only=lambda f_: '{closure' not in (f_.get('path') or '') and not f_.get('trait') and f_.get('name') not in ('nth', 'next', 'last', 'new') and
                             ((f_.get('impl_adt') or '') == adt or not f_.get('impl_adt')))    # the calculator's own len() forwards to self.difficulty.len()
        import combin
        rv = combin.expand(F, rv)          # Option::map(|attrs| ..) instead of `?` + Some(..)
        calcs = [x for x in prov.walk(rv) if x[0] == 'call' and x[1].get('name') == 'calculate'
                 and (x[1].get('impl_adt') or '').endswith('%sPerformance' % CAP[mode])]
        if len(calcs) != 1:
            ctx.violation('C03-R2', '%s:nth:calculate' % mode, '%s::nth does not end in exactly one %sPerformance::calculate()' % (adt, CAP[mode]), nth.where())
            continue
        chain, root = receiver_chain(calcs[0])
        names = [c[0] for c in chain]
        # (a) inner nth with parameter n
        inner = [c for c in chain if c[0] == 'nth']
        ok_a = False
        if inner:
            call = inner[-1][2]
            narg = prov.strip(call[2][1], names=set())
            n_ok = as_param_path(narg, through_calls=False) == (3, ())
            if not n_ok and narg[0] == 'call' and narg[1].get('name') == 'min' and len(narg[2]) == 2:
                # documented clamp: process all remaining objects when n exceeds them -> min(n, self.difficulty.len() - 1)
                sides = [prov.strip(x, names=set()) for x in narg[2]]
                has_n = any(as_param_path(x, through_calls=False) == (3, ()) for x in sides)
                has_len = any(any(y[0] == 'call' and y[1].get('name') == 'len' and as_param_path(y[2][0]) == (1, ('difficulty',)) for y in prov.walk(x, limit=20))
                              for x in sides)
                n_ok = has_n and has_len
            if not n_ok and narg[0] == 'phi':
                # the same clamp written as `if n < remaining { n } else { remaining.saturating_sub(1) }` (possibly in a private helper)
                alts = [prov.strip(x, names=set()) for x in narg[1]]
                is_n = [as_param_path(x, through_calls=False) == (3, ()) for x in alts]
                is_len = [any(y[0] == 'call' and y[1].get('name') == 'len' and (as_param_path(y[2][0]) or (0, ()))[1][:1] in (('difficulty',), ()) for y in prov.walk(x, limit=20))
                          and not any(y == ('param', 3) for y in prov.walk(x, limit=20)) for x in alts]
                n_ok = any(is_n) and all(a_ or b_ for a_, b_ in zip(is_n, is_len))
            ok_a = as_param_path(call[2][0]) == (1, ('difficulty',)) and n_ok and \
                'GradualDifficulty' in (call[1].get('path') or '')
        n2 += 1
        ctx.require(ok_a, 'C03-R2', '%s:nth:inner' % mode, 'attributes come from self.difficulty.nth(n) with the parameter n (optionally clamped to the remaining length)', nth.where(),
                    bad='%s::nth: inner iterator step is not self.difficulty.nth(<parameter n>): chain %s' % (adt, names))
        # (b) state step with the parameter state
        st = [c for c in chain if c[0] == 'state']
        ok_b = len(st) == 1 and len(st[0][1]) == 1 and as_param_path(st[0][1][0], through_calls=False) == (2, ())
        n2 += 1
        ctx.require(ok_b, 'C03-R2', '%s:nth:state' % mode, '.state(<parameter state>) is applied unmodified', nth.where(),
                    bad='%s::nth: the score state handed to the calculator is %s, not the caller\'s state' % (
                        adt, [prov.show(a, maxdepth=3) for c in st for a in c[1]] or 'missing'))
        # (c) every Difficulty setting the performance calculation of this mode consults (with attributes given) must reach
        #     calculate() from the captured Difficulty; passed_objects from the calculator's own position
        consulted = consulted_settings(F, mode)
        final = simulate_settings(F, adt, new, chain)
        for g in sorted(consulted):
            setting = g[4:]
            src = final.get(setting, final.get('*', 'default'))
            n2 += 1
            if setting == 'passed_objects':
                ctx.require(src == 'idx', 'C03-R2', '%s:nth:setting:%s' % (mode, setting), 'passed_objects <- the gradual calculator\'s own position (self.difficulty.idx)',
                            nth.where(), bad='%s::nth: passed_objects reaches calculate() from `%s`, not from the calculator\'s position' % (adt, src))
            else:
                ctx.require(src == 'captured', 'C03-R2', '%s:nth:setting:%s' % (mode, setting), '%s <- captured Difficulty' % setting, nth.where(),
                            bad='%s::nth: the `%s` setting consulted by %sPerformance (Difficulty::%s) reaches calculate() from `%s`, not from the Difficulty the '
                                'gradual calculator was created with' % (adt, setting, CAP[mode], g, src))
        # (d) performance() on the attributes
        ok_d = 'performance' in names or 'into_performance' in names or 'from' in names
        n2 += 1
        ctx.require(ok_d, 'C03-R2', '%s:nth:performance' % mode, 'calculator is created from the prefix attributes (.performance())', nth.where(),
                    bad='%s::nth: no .performance() on the prefix attributes in the chain %s' % (adt, names))
        ctx.note('%s::nth chain (outermost first): %s' % (adt, names))
    ctx.floor('C03-R1', n1, 4, 'GradualPerformance::new')
    ctx.floor('C03-R2', n2, 20, 'nth flow slots')
    # ---- R3: the difficulty half — the gradual next() and the one-shot calculation feed each skill under the same conditions (shared with C02-R8)
    from props import C02
    C02.r8_same_feeding(ctx, F, rule='C03-R3')
    # ---- R4: ... and prepare it with the same numbers (shared with C02-R9)
    C02.r9_replicated_setup(ctx, F, rule='C03-R4')
    ctx.not_decided('equality of the gradual value with the one-shot Performance(passed_objects(i), state) value')
