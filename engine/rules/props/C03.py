"""C03 — gradual performance equals partial-play performance: flow clauses."""
import prov
from common import MODES, CAP, as_param_path

EXPLANATION = (
    "Provenance clauses over resolved MIR: each mode's GradualPerformance::new builds its inner gradual difficulty from "
    "exactly its two parameters (osu: the captured lazer flag is d.get_lazer()) (R1); in each nth(state, n) the inner "
    "Iterator::nth receives the parameter n on self.difficulty, and the receiver chain of the final Performance::calculate "
    "contains the attributes returned by that inner nth, a state(_, <parameter state>) step and a difficulty(_, clone of "
    "the captured Difficulty) step (R2). Dropping the captured settings or feeding a modified state compiles and the "
    "fixture (all-miss state, HDHRDT) notices only gross variants. Equality with the one-shot value is numeric: NOT "
    "decided. next/last delegation is C15-R1.")


def gp(mode):
    return '%s::performance::gradual::%sGradualPerformance' % (mode, CAP[mode])


def gd(mode):
    return '%s::difficulty::gradual::%sGradualDifficulty' % (mode, CAP[mode])


def receiver_chain(v):
    """[(name, [other args])] from the outermost call down its first-argument chain"""
    out = []
    cur = v
    for _ in range(40):
        cur = prov.strip(cur, names={'expect', 'unwrap'}, through_mut=True)
        if cur[0] == 'field' and cur[2] == '0':      # payload of Ok / Some / Continue
            cur = cur[1]
            continue
        if cur[0] == 'variant':
            cur = cur[1]
            continue
        if cur[0] == 'call' and cur[2]:
            out.append((cur[1].get('name'), cur[2][1:], cur))
            cur = cur[2][0]
            continue
        break
    return out, cur


def run(ctx):
    F = ctx.facts('default')
    n1 = n2 = 0
    for mode in MODES:
        adt = gp(mode)
        new = F.method(adt, 'new', inherent_only=True)
        nth = F.method(adt, 'nth', inherent_only=True)
        if not new or not nth:
            ctx.violation('C03-R1', 'anchor-missing:%s' % mode, '%s::new / nth not found' % adt)
            continue
        ctx.saw(new)
        ctx.saw(nth)
        # ---- R1
        n1 += 1
        rv = prov.prov_of(new).return_value()
        lits = [x for x in prov.walk(rv) if x[0] == 'agg' and x[2] == adt]
        good = False
        detail = ''
        if len(lits) == 1:
            inner = lits[0][4].get('difficulty')
            calls = [x for x in prov.walk(inner) if x[0] == 'call' and x[1].get('impl_adt') == gd(mode) and x[1].get('name') == 'new'] if inner else []
            if len(calls) == 1:
                a = calls[0][2]
                good = as_param_path(a[0], through_calls=False) == (1, ()) and as_param_path(a[1]) == (2, ())
                detail = '%sGradualDifficulty::new(%s, %s)' % (CAP[mode], prov.show(a[0], maxdepth=2), prov.show(a[1], maxdepth=2))
            extra = {f: v for f, v in lits[0][4].items() if f != 'difficulty'}
            for f, v in extra.items():
                s = prov.strip(v, names=set())
                ok = s[0] == 'call' and s[1].get('name') == 'get_' + f and as_param_path(s[2][0]) == (1, ())
                ctx.require(ok, 'C03-R1', '%s:new:%s' % (mode, f), 'captured `%s` = difficulty.get_%s()' % (f, f), new.where(),
                            bad='%s::new captures `%s` = %s, expected difficulty.get_%s()' % (adt, f, prov.show(s, maxdepth=3), f))
        ctx.require(good, 'C03-R1', '%s:new' % mode, 'inner calculator = %s' % detail, new.where(),
                    bad='%s::new does not build its inner gradual difficulty from exactly (difficulty, map): %s' % (adt, detail or prov.show(rv, maxdepth=4)))
        # ---- R2
        P = prov.prov_of(nth)
        rv = P.return_value()
        calcs = [x for x in prov.walk(rv) if x[0] == 'call' and x[1].get('name') == 'calculate'
                 and (x[1].get('impl_adt') or '').endswith('%sPerformance' % CAP[mode])]
        if len(calcs) != 1:
            ctx.violation('C03-R2', '%s:nth:calculate' % mode, '%s::nth does not end in exactly one %sPerformance::calculate()' % (adt, CAP[mode]), nth.where())
            continue
        chain, root = receiver_chain(calcs[0])
        names = [c[0] for c in chain]
        # (a) inner nth with parameter n
        inner = [c for c in chain if c[0] == 'nth']
        ok_a = False
        if inner:
            call = inner[-1][2]
            ok_a = as_param_path(call[2][0]) == (1, ('difficulty',)) and as_param_path(call[2][1]) == (3, ()) and \
                'GradualDifficulty' in (call[1].get('path') or '')
        n2 += 1
        ctx.require(ok_a, 'C03-R2', '%s:nth:inner' % mode, 'attributes come from self.difficulty.nth(n) with the parameter n', nth.where(),
                    bad='%s::nth: inner iterator step is not self.difficulty.nth(<parameter n>): chain %s' % (adt, names))
        # (b) state step with the parameter state
        st = [c for c in chain if c[0] == 'state']
        ok_b = len(st) == 1 and len(st[0][1]) == 1 and as_param_path(st[0][1][0], through_calls=False) == (2, ())
        n2 += 1
        ctx.require(ok_b, 'C03-R2', '%s:nth:state' % mode, '.state(<parameter state>) is applied unmodified', nth.where(),
                    bad='%s::nth: the score state handed to the calculator is %s, not the caller\'s state' % (
                        adt, [prov.show(a, maxdepth=3) for c in st for a in c[1]] or 'missing'))
        # (c) difficulty step with the captured Difficulty
        df = [c for c in chain if c[0] == 'difficulty']
        ok_c = len(df) == 1 and len(df[0][1]) == 1 and as_param_path(df[0][1][0]) == (1, ('difficulty', 'difficulty'))
        n2 += 1
        ctx.require(ok_c, 'C03-R2', '%s:nth:difficulty' % mode, '.difficulty(self.difficulty.difficulty.clone()) restores the captured settings', nth.where(),
                    bad='%s::nth: captured Difficulty is not forwarded (difficulty step: %s)' % (
                        adt, [prov.show(a, maxdepth=3) for c in df for a in c[1]] or 'missing'))
        # (d) performance() on the attributes
        ok_d = 'performance' in names or 'into_performance' in names or 'from' in names
        n2 += 1
        ctx.require(ok_d, 'C03-R2', '%s:nth:performance' % mode, 'calculator is created from the prefix attributes (.performance())', nth.where(),
                    bad='%s::nth: no .performance() on the prefix attributes in the chain %s' % (adt, names))
        ctx.note('%s::nth chain (outermost first): %s' % (adt, names))
    ctx.floor('C03-R1', n1, 4, 'GradualPerformance::new')
    ctx.floor('C03-R2', n2, 16, 'nth flow slots')
    ctx.not_decided('equality of the gradual value with the one-shot Performance(passed_objects(i), state) value')
