"""C11 — unsafe code: one checked obligation per unsafe operation."""
import re

import arms
import callgraph
import fieldidx
import prov
import unsafeops
from common import as_param_path
from facts import callee_path

EXPLANATION = (
    "Every operation that needs `unsafe` inside a user-written unsafe block or unsafe fn (MIR inventory: unsafe calls, "
    "raw derefs, union field accesses, transmutes) is matched to the rule for its kind and that rule's obligation is "
    "checked at the site: typestate before transmute_into_vec (R1), dominating positivity guard before new_value (R2), "
    "union access confined to `mod entry` (R3), lifetime-only transmutes whose owner is never mutated/moved/cloned "
    "after construction, and every argument a producing function ties to its output lifetime (`fn f<'a>(x: &'a X) -> Vec<Obj<'a>>`) refers to a value stored in that struct too — not to a local of the constructor (R4), the decoder scratch buffer cleared on every path and touched by nobody else, no "
    "re-entrancy (R5), new_unchecked fed by a clamp with positive lower bound (R6); count<=len of copy_slice and the "
    "Vec<StrainsEntry>/Vec<f64> layout are recorded as ASSUMED (R7/R8). R4 also freezes the owner inside the constructor: after extend_lifetime the owner local is only moved into the struct literal (no &mut, write or other move on any path). An unsafe operation of a kind with no rule is "
    "reported. Compiler-generated unsafe (Box deref lowering, derives, format_args) is counted, not judged.")

SV = 'util::strains_vec::inner::StrainsVec'
NONZERO_AFTER = {'retain_non_zero', 'retain_non_zero_and_sort', 'sorted_non_zero_iter_mut'}
PRESERVING = {'sort_desc', 'len', 'iter', 'sum', 'clone', 'transmute_into_vec', 'into_vec', 'is_empty', 'next', 'enumerate',
              'into_iter', 'size_hint', 'drop'}


# ---- R1 typestate -------------------------------------------------------------------------------------

def strainsvec_aliases(fn, local):
    """locals holding the same StrainsVec value (moves) or borrows of it"""
    al = {local}
    grew = True
    while grew:
        grew = False
        for bi, si, s in fn.assigns():
            if 'proj' in s['p']:
                continue
            rv = s['rv']
            src = None
            if rv['k'] == 'use' and rv['op']['k'] in ('copy', 'move'):
                src = rv['op']['p']
            elif rv['k'] == 'ref':
                src = rv['p']
            if src is None or any(e != '*' for e in src.get('proj', [])):
                continue
            a, b = src['l'], s['p']['l']
            if a in al and b not in al:
                al.add(b)
                grew = True
            elif b in al and a not in al and rv['k'] == 'use':
                al.add(a)     # value moved from a into an alias: a is the earlier name of the same value
                grew = True
    return al


def typestate_at(fn, call_bb, recv_local):
    """forward dataflow of {NZ, MAYZERO} for the StrainsVec value that reaches the receiver of the call in
    call_bb.  Returns (state, witness list of method calls seen)."""
    al = strainsvec_aliases(fn, recv_local)
    cfg = fn.cfg
    MAY, NZ = 'may-contain-zero', 'non-zero'
    events = {}
    for bi, t in fn.calls():
        if bi == call_bb:
            continue
        hit = [a for a in t['args'] if a['k'] in ('copy', 'move') and a['p']['l'] in al and 'proj' not in a['p']]
        if not hit:
            continue
        name = t['func'].get('name')
        is_sv = (t['func'].get('impl_adt') == SV)
        # is the alias passed a mutable borrow / by value?
        arg_ty = fn.locals[hit[0]['p']['l']]
        mutable = arg_ty.get('k') in ('refmut', 'struct')
        if is_sv and name in NONZERO_AFTER:
            events[bi] = (NZ, name)
        elif is_sv and name in PRESERVING:
            events[bi] = (None, name)
        elif not mutable:
            events[bi] = (None, name)
        elif name in ('drop', 'into_iter') and not is_sv:
            events[bi] = (None, name)
        else:
            events[bi] = (MAY, name)       # push, or anything else that can write
    IN = {}
    OUT = {}
    order = cfg.rpo()
    changed = True
    while changed:
        changed = False
        for b in order:
            if b == 0:
                st = MAY
            else:
                ps = [OUT[p] for p in cfg.pred[b] if p in OUT]
                st = NZ if ps and all(x == NZ for x in ps) else (MAY if ps else None)
            if st is None:
                continue
            IN[b] = st
            ev = events.get(b)
            o = st if not ev or ev[0] is None else ev[0]
            if OUT.get(b) != o:
                OUT[b] = o
                changed = True
    seen = [events[b][1] for b in sorted(events)]
    return IN.get(call_bb, MAY), seen


def transmute_forwarders(G):
    """{path of a local `unsafe fn`: index of the StrainsVec parameter it passes straight into transmute_into_vec (or another forwarder)}"""
    cache = G.__dict__.setdefault('_c11_forwarders', None)
    if cache is not None:
        return cache
    out = {}
    for _ in range(2):
        for fn in G.fns:
            if not fn.is_unsafe or fn.path in out or fn.self_adt == SV:
                continue
            for bi, t in fn.calls():
                p = callee_path(t)
                if p.endswith('StrainsVec::transmute_into_vec') or p in out:
                    k0 = out.get(p, 1) - 1
                    a0 = t['args'][k0] if k0 < len(t['args']) else None
                    if a0 and a0.get('k') in ('copy', 'move') and 'proj' not in a0['p']:
                        for k in range(1, fn.argc + 1):
                            if a0['p']['l'] in strainsvec_aliases(fn, k):
                                out[fn.path] = k
    G.__dict__['_c11_forwarders'] = out
    return out


# ---- R4 ---------------------------------------------------------------------------------------------

def erase_regions(s):
    return re.sub(r"'[a-z_]+\b,? ?", '', s).replace('<>', '')


def run(ctx):
    F = ctx.facts('default')
    configs = [('default', F)]
    for c in (('raw_strains', 'sync') if ctx.tier == 'quick' else ('raw_strains', 'sync', 'raw_strains+sync')):
        configs.append((c, ctx.facts(c)))
    cg = callgraph.of(F)

    for cname, G in configs:
        tag = '' if cname == 'default' else '[%s]' % cname
        inv = unsafeops.inventory(G)
        user = [o for o in inv if o['user'] and not o.get('exp')]
        gen = len(inv) - len(user)
        handled = 0
        for o in user:
            fn = o['fn']
            ctx.saw(fn)
            where = fn.where(o['line'])
            kind, detail = o['kind'], o['detail']
            key_base = '%s%s' % (tag, fn.path)
            forwarders = transmute_forwarders(G)
            if kind == 'unsafe-call' and (detail.endswith('StrainsVec::transmute_into_vec') or detail in forwarders):
                t = o['term']
                k0 = forwarders.get(detail, 1) - 1
                a0 = t['args'][k0]
                # inside an `unsafe fn` that hands its own parameter on, the obligation is its callers' (judged at their call sites)
                if fn.path in forwarders and a0.get('k') in ('copy', 'move') and 'proj' not in a0['p'] and \
                        a0['p']['l'] in strainsvec_aliases(fn, forwarders[fn.path]):
                    ctx.ok('C11-R1', key_base + ':transmute_into_vec', 'unsafe fn %s forwards its parameter; the non-zero state is owed by every caller' % fn.path.split('::')[-1], where)
                    handled += 1
                    continue
                state, seen = typestate_at(fn, o['bb'], a0['p']['l'])
                ctx.require(state == 'non-zero', 'C11-R1', key_base + ':transmute_into_vec',
                            'receiver is in state non-zero on every path (calls on it: %s)' % ', '.join(seen), where,
                            bad='transmute_into_vec() reached with the StrainsVec possibly containing zero entries (calls on it: %s): '
                                'a zero-count entry would be reinterpreted as a negative f64' % ', '.join(seen))
                handled += 1
            elif kind == 'unsafe-call' and detail.endswith('StrainsEntry::new_value'):
                t = o['term']
                P = prov.prov_of(fn)
                arg = P.call_args(o['bb'])[0]
                facts = arms.bool_facts(fn, o['bb'])
                pos = nz = gt0 = False
                for c, lab in facts:
                    if lab != 'true':
                        continue
                    c = prov.strip(c, names={'likely', 'unlikely'})
                    if c[0] == 'call' and c[1].get('name') == 'is_sign_positive' and c[2][0] == arg:
                        pos = True
                    if c[0] == 'binop' and c[1] == 'Gt':
                        l, r = c[2], c[3]
                        if l[0] == 'call' and l[1].get('name') == 'to_bits' and l[2][0] == arg and prov.const_val(r) == '0':
                            nz = True
                        if l == arg and prov.const_val(r) in ('0.0', '0'):
                            gt0 = True
                    if c[0] == 'binop' and c[1] == 'Ne':
                        l, r = c[2], c[3]
                        if l[0] == 'call' and l[1].get('name') == 'to_bits' and l[2][0] == arg and prov.const_val(r) == '0':
                            nz = True
                ctx.require((pos and nz) or gt0, 'C11-R2', key_base + ':new_value',
                            'new_value(v) is dominated by `v.to_bits() > 0 && v.is_sign_positive()` (or `v > 0.0`) on the same v', where,
                            bad='StrainsEntry::new_value(v) is not guarded by sign-positive AND non-zero-bits tests on v (facts on the '
                                'path: %s): a negative / zero value would be stored as `value` and later read as a zero count'
                                % [(lab, prov.show(c, maxdepth=4)) for c, lab in facts])
                handled += 1
            elif kind == 'union-field':
                inside = fn.path.startswith('util::strains_vec::inner::entry::')
                ctx.require(inside, 'C11-R3', key_base + ':' + detail.split('.')[-1],
                            'union field access inside mod entry (%s)' % detail, where,
                            bad='access to %s outside util::strains_vec::inner::entry' % detail)
                handled += 1
            elif kind == 'transmute' and fn.name == 'extend_lifetime':
                rv = o['stmt']['rv']
                same = erase_regions(rv['from']['s']) == erase_regions(rv['to']['s'])
                ctx.require(same, 'C11-R4', key_base + ':lifetime-only', 'transmute changes lifetimes only: %s' % detail, where,
                            bad='extend_lifetime transmutes between different types: %s' % detail)
                if cname == 'default':
                    r4_owner(ctx, F, cg, fn, where)
                handled += 1
            elif kind == 'transmute' and fn.path == SV + '::transmute_into_vec':
                ent = G.adts.get('util::strains_vec::inner::entry::StrainsEntry')
                fields = [(f['name'], f['ty']['s']) for f in ent['variants'][0]['fields']] if ent else []
                good = ent and ent['kind'] == 'union' and sorted(t for _, t in fields) == ['f64', 'u64']
                ctx.require(bool(good), 'C11-R8', key_base + ':layout', 'StrainsEntry is a union of exactly f64 and u64 (8 bytes, align 8)', where,
                            bad='StrainsEntry is no longer a union of f64 and u64: %s' % fields)
                ctx.assumed('C11-R8', key_base + ':vec-layout', 'Vec<StrainsEntry> and Vec<f64> have the same layout (not guaranteed by the language, '
                            'true for all current std implementations); recorded as assumed', where)
                handled += 1
            elif kind == 'unsafe-call' and detail == 'std::slice::from_raw_parts' and fn.name == 'point_split':
                if cname == 'default':
                    r5_point_split(ctx, F, cg, fn, o, where)
                else:
                    ctx.ok('C11-R5', key_base + ':from_raw_parts', 'same body as default configuration (C10-R2)', where)
                handled += 1
            elif kind == 'unsafe-call' and detail == 'std::slice::from_raw_parts' and fn.name == 'copy_slice':
                ctx.assumed('C11-R7', key_base + ':from_raw_parts', 'count <= slice.len() in into_vec::copy_slice needs counting reasoning '
                            '(count is incremented once per iterator step over the same slice); recorded as ASSUMED, not discharged', where)
                handled += 1
            elif kind == 'unsafe-call' and detail.endswith('::new_unchecked'):
                P = prov.prov_of(fn)
                arg = prov.strip(P.call_args(o['bb'])[0])
                good = False
                why = prov.show(arg, maxdepth=4)
                def _pos_clamp(v_):
                    v_ = prov.strip(v_)
                    if v_[0] == 'call' and v_[1].get('name') == 'clamp' and len(v_[2]) == 3:
                        lo_, hi_ = prov.const_val(v_[2][1]), prov.const_val(v_[2][2])
                        try:
                            return (float(lo_) > 0.0 and float(hi_) >= float(lo_)), 'to_bits(clamp(_, %s, %s))' % (lo_, hi_)
                        except (TypeError, ValueError):
                            return False, 'clamp with non-constant bounds'
                    return None, None
                if arg[0] == 'call' and arg[1].get('name') == 'to_bits':
                    inner = prov.strip(arg[2][0])
                    g_, w_ = _pos_clamp(inner)
                    if g_ is not None:
                        good, why = g_, w_
                    elif inner[0] == 'param' and not fn.is_pub:
                        # the conversion sits in a private helper: the clamp is owed by every caller
                        sites = G.callers().get(fn.path, [])
                        res = []
                        for cfn, cbb, ct in sites:
                            cargs = prov.prov_of(cfn).call_args(cbb)
                            g2, w2 = _pos_clamp(cargs[inner[1] - 1]) if inner[1] <= len(cargs) else (False, '?')
                            res.append((bool(g2), '%s passes %s' % (cfn.path.split('::')[-1], w2 or prov.show(prov.strip(cargs[inner[1] - 1]), maxdepth=3)[:80])))
                        # handed on as a function value (`opt.map(helper)`): the argument is whatever the combinator supplies
                        for ofn in G.fns:
                            for obi, ot in ofn.calls():
                                for oa in ot['args']:
                                    if oa.get('k') == 'const' and (oa.get('fn') or {}).get('path') == fn.path:
                                        res.append((False, '%s hands it to %s as a function value (argument not clamped)' % (ofn.path.split('::')[-1], ot['func'].get('name'))))
                        good = bool(res) and all(r_[0] for r_ in res)
                        why = 'helper parameter; callers: ' + '; '.join(r_[1] for r_ in res)
                ctx.require(good, 'C11-R6', key_base + ':new_unchecked', 'NonZeroU64::new_unchecked(%s): lower clamp bound is a positive '
                            'constant, so the bit pattern cannot be 0 (clamp propagates NaN, whose bits are non-zero)' % why, where,
                            bad='NonZeroU64::new_unchecked(%s): the argument is not to_bits(clamp(_, lo, hi)) with constant lo > 0' % why)
                handled += 1
            else:
                ctx.violation('C11-R0', key_base + ':' + kind + ':' + detail.split('::')[-1],
                              'unsafe operation with no rule: %s %s in %s — no obligation can be discharged for it' % (kind, detail, fn.path), where)
        ctx.ok('C11-R0', tag + 'inventory', '%d operations needing unsafe in MIR; %d inside user-written unsafe blocks / unsafe fns (all matched to a '
               'rule: %d), %d compiler-generated (Box deref lowering, derives, format_args; accepted by rustc without `unsafe`)'
               % (len(inv), len(user), handled, gen))
        nblocks = sum(1 for u in G.unsafe_blocks if u['user'])
        nfns = sum(1 for fn in G.fns if fn.is_unsafe)
        floor = 15 if 'raw_strains' not in cname else 6
        ctx.floor('C11-R0', nblocks, floor, '%suser-written unsafe blocks' % tag)
        ctx.note('%s: %d user unsafe blocks, %d unsafe fns' % (cname, nblocks, nfns))
        # expected-zero kinds
        impls = [i for i in G.impls if i.get('unsafe') and (not i.get('exp') or (i.get('trait') or '').endswith(('::Send', '::Sync')))]
        for i in impls:
            ctx.violation('C11-R9', '%sunsafe-impl:%s' % (tag, i['id']), 'unsafe impl %s for %s' % (i.get('trait'), i['self']['s']),
                          '%s:%s' % (i['loc'][0], i['loc'][1]))
        banned = []
        for fn in G.fns:
            for bi, t in fn.calls():
                p = callee_path(t)
                if re.search(r'::(set_len|get_unchecked|get_unchecked_mut|unreachable_unchecked|assume_init|assume_init_ref|'
                             r'from_utf8_unchecked|unwrap_unchecked|offset|add|sub|read|write|copy_nonoverlapping|zeroed|uninit)$', p) \
                        and t['func'].get('unsafe') and not t.get('exp'):
                    if unsafeops.in_user_unsafe(G, fn, t.get('ln', 0)):
                        banned.append((fn, p, t.get('ln')))
        for fn, p, ln in banned:
            ctx.violation('C11-R9', '%s%s:%s' % (tag, fn.path, p.split('::')[-1]), 'unchecked operation %s has no rule' % p, fn.where(ln))
        ctx.ok('C11-R9', tag + 'expected-zero', 'no unsafe impl, set_len, get_unchecked*, unreachable_unchecked, raw read/write/offset in user code')

    # controls (fixture)
    fx = ctx.fixture()
    finv = [o for o in unsafeops.inventory(fx) if o['user']]
    kinds = {(o['fn'].path, o['kind']) for o in finv}
    ctx.control('C11-R0', ('c01::cast_away_const', 'raw-deref') in kinds, 'raw pointer deref in user unsafe block is inventoried')
    ctx.control('C11-R0', ('c01::transmute_mut', 'transmute') in kinds, 'transmute in user unsafe block is inventoried')
    ctx.control('C11-R9', any(i.get('unsafe') and not i.get('exp') for i in fx.impls), 'unsafe impl Send is found')
    ctx.control('C11-R0', ('c11::unchecked', 'unsafe-call') in kinds, 'get_unchecked call is inventoried')
    # typestate control
    for name, want in (('c11::bad_typestate', 'may-contain-zero'), ('c11::good_typestate', 'non-zero')):
        f = fx.fn(name)
        got = None
        if f:
            for bi, t in f.calls():
                if t['func'].get('name') == 'transmute_into_vec':
                    got, _ = typestate_at(f, bi, t['args'][0]['p']['l'])
        ctx.control('C11-R1', got == want, '%s -> %s' % (name, want))

    # gradual types are not Clone/Copy
    n = 0
    for a in F.adts.values():
        if re.search(r'(Gradual(Difficulty|Performance))$', a['path']):
            n += 1
            tr = a['traits']
            ctx.require(not tr.get('Clone') and not tr.get('Copy'), 'C11-R4', 'not-clone:' + a['path'].split('::')[-1],
                        '%s implements neither Clone nor Copy' % a['path'], '%s:%s' % (a['loc'][0], a['loc'][1]),
                        bad='%s is Clone/Copy: a copy would carry references into the original\'s owner' % a['path'])
    ctx.floor('C11-R4', n, 10, 'gradual calculator types')
    ctx.assume('the repository\'s `# Safety` contracts are the intended ones; Rust aliasing rules')
    ctx.not_decided('behavioural equivalence of the compact strain list with a plain list under every operation sequence '
                    '(needs value reasoning); count <= len in copy_slice (assumed)')


def r4_owner(ctx, F, cg, ext_fn, where):
    """the transmuted value and its owner end up in the same struct built by the only caller; the owner is never
    written / mutably borrowed / moved out of by anything reachable from the struct's post-construction API"""
    callers = F.callers().get(ext_fn.path, [])
    key = ext_fn.path
    if len(callers) != 1:
        ctx.violation('C11-R4', key + ':single-caller', 'extend_lifetime has %d callers; exactly one (the owning struct\'s constructor) expected' % len(callers), where)
        return
    cfn, cbb, ct = callers[0]
    ctx.saw(cfn)
    S = cfn.self_adt
    # a constructor: `new`, or a private second step of it (an associated function without self that returns the struct and is called by constructors only)
    def _is_ctor(f_, depth=0):
        if not f_.self_adt or f_.kind != 'AssocFn':
            return False
        if f_.name == 'new':
            return True
        ins = f_.j.get('inputs') or []
        takes_self = bool(ins) and f_.self_adt.split('::')[-1] in str(ins[0].get('s', '')) and ins[0].get('k') in ('ref', 'refmut')
        outs = str((f_.j.get('output') or {}).get('s', ''))
        if takes_self or f_.self_adt.split('::')[-1] not in outs or str(f_.j.get('vis')).startswith('Public') or depth > 2:
            return False
        cs = F.callers().get(f_.path, [])
        return bool(cs) and all(_is_ctor(c[0], depth + 1) for c in cs)
    if not S or not _is_ctor(cfn):
        ctx.violation('C11-R4', key + ':caller', 'extend_lifetime is called from %s, not from a constructor `new`' % cfn.path, where)
        return
    P = prov.prov_of(cfn)
    rv = P.return_value()
    lits = [x for x in prov.walk(rv) if x[0] == 'agg' and x[2] == S]
    if len(lits) != 1:
        ctx.violation('C11-R4', key + ':literal', 'cannot identify the %s literal in %s' % (S, cfn.path), where)
        return
    lit = lits[0]
    # a field of scalar type (a length taken of the extended slice, a flag) cannot carry the borrow: only the others can be the referrer
    _fty = {x['name']: x['ty'] for a_ in [F.adts.get(S)] if a_ for x in a_['variants'][0]['fields']}
    _scalar = lambda f_: (_fty.get(f_) or {}).get('k') in ('uint', 'int', 'float', 'bool', 'char')
    referrers = [f for f, v in lit[4].items()
                 if not _scalar(f) and any(n[0] == 'call' and prov.callee(n) == ext_fn.path for n in prov.walk(v))]
    if len(referrers) != 1:
        ctx.violation('C11-R4', key + ':referrer', 'expected one field of %s fed by extend_lifetime, found %s' % (S, referrers), where)
        return
    ref_field = referrers[0]
    # owner fields: other fields whose value occurs inside the transmuted value's provenance
    ref_tree_nodes = list(prov.walk(lit[4][ref_field]))
    owners = []
    for f, v in lit[4].items():
        if f == ref_field:
            continue
        core = prov.strip(v)
        if core[0] == 'const':
            continue
        # the owner itself, a part of a returned struct, or (in a second-step constructor) a parameter moved into the literal
        if core[0] in ('call', 'field', 'variant') and any(n == core for n in ref_tree_nodes):
            owners.append(f)
        elif core[0] == 'param' and cfn.name != 'new':
            ext_args = [n[2][0] for n in ref_tree_nodes if n[0] == 'call' and prov.callee(n) == ext_fn.path and n[2]]
            if any(x == core for a_ in ext_args for x in prov.walk(a_, limit=200)):
                owners.append(f)
    ctx.require(bool(owners), 'C11-R4', key + ':same-struct', '%s { %s: extend_lifetime(..), %s: <owner> } — referrer and owner are stored '
                'in the same struct value' % (S.split('::')[-1], ref_field, ', '.join(owners)), cfn.where(),
                bad='the value passed through extend_lifetime in %s does not borrow from any other field of the same %s literal' % (cfn.path, S))
    # every borrow source of the extended value is an owner: a local function on the way to the transmuted value whose signature ties an input
    # lifetime to its output (`fn f<'a>(x: &'a X, ..) -> Vec<Obj<'a>>`) lets the result borrow from that argument — which must then live in S too
    import re as _re
    owner_cores = [prov.strip(lit[4][f]) for f in owners]
    srcs = []          # (producer fn, input index, input type, referent tree)

    def lifetimes(t):
        return set(_re.findall(r"'[a-z_][a-z0-9_]*", t or '')) - {"'static"}

    def trace(v, via, depth=0):
        """v is (a view of) something the extended value borrows from: follow views to their referents"""
        v = prov.strip(v, names={'clone'})
        if depth > 8:
            srcs.append(via + (v,))
            return
        if v[0] == 'call':
            g = F.fn(v[1].get('path') or '') if v[1].get('local') else None
            if g is not None and g.j.get('inputs'):
                outl = lifetimes((g.j.get('output') or {}).get('s'))
                tied = [i for i, inp in enumerate(g.j['inputs']) if i < len(v[2]) and (lifetimes(inp.get('s')) & outl or ("'_" in outl and inp.get('k') in ('ref', 'refmut')))]
                if outl and tied:
                    for i in tied:
                        trace(v[2][i], (g, i, g.j['inputs'][i].get('s')), depth + 1)
                    return
                srcs.append(via + (v,))          # an owned result: this is the referent
                return
            if g is None and not v[1].get('local'):
                # std adaptor (iter_mut, into_boxed_slice, deref_mut ..): a view of / container made from its arguments
                args = [x for x in v[2] if prov.strip(x)[0] not in ('const',) and not (prov.strip(x)[0] == 'agg' and prov.strip(x)[1] == 'closure')]
                if args:
                    for x in args:
                        trace(x, via, depth + 1)
                    return
        srcs.append(via + (v,))

    ext_calls = [n for n in ref_tree_nodes if n[0] == 'call' and prov.callee(n) == ext_fn.path]
    for n in ext_calls[:1]:
        trace(n[2][0], (ext_fn, 0, 'the transmuted value'))
    nsrc = 0
    seen_keys = set()
    for g, i, ty, ref in srcs:
        if prov.strip(ref)[0] == 'const':
            continue
        k2 = '%s:borrow-source:%s:%d' % (key, g.name, i + 1)
        if g is ext_fn:
            # the value handed to extend_lifetime is (a view of) the referent itself: it must be an owner
            if any(x == c for x in prov.walk(ref, limit=400) for c in owner_cores):
                nsrc += 1
            continue
        nsrc += 1
        held = any(x == c for x in prov.walk(ref, limit=400) for c in owner_cores)
        if k2 in seen_keys and held:
            continue
        seen_keys.add(k2)
        ctx.require(held, 'C11-R4', k2,
                    '%s argument %d (%s) — a borrow source of the lifetime-extended value — lives in a field of %s' % (g.name, i + 1, ty, S.split('::')[-1]), cfn.where(),
                    bad='%s: the value passed through extend_lifetime is produced by %s, whose result borrows from argument %d (%s) for its output lifetime; that argument refers to `%s`, '
                        'a local of %s and not a field of the returned %s: the references dangle as soon as the constructor returns' % (
                            cfn.path, g.path, i + 1, ty, prov.show(ref, maxdepth=3)[:80], cfn.name, S.split('::')[-1]))
    ctx.floor('C11-R4', nsrc, 1, 'borrow sources of the lifetime-extended value (%s)' % key.split('::')[-1])
    # inside the constructor: once the lifetime has been extended the owner is frozen — only the move into the struct literal may touch it
    # (seed C11-7: `osu_objects.truncate(..)` re-allocating the owner between extend_lifetime and `Ok(Self { .. })`)
    ext_blocks = [bi for bi, t in cfn.calls() if (t['func'].get('path') or '') == ext_fn.path]
    lit_sites = [(bi, si, s_) for bi, si, s_ in cfn.assigns() if s_['rv']['k'] == 'agg' and s_['rv'].get('adt') == S]
    if ext_blocks and lit_sites:
        lbi, lsi, ls = lit_sites[-1]
        after = set()
        for eb in ext_blocks:
            for sb in cfn.cfg.succ[eb]:
                after |= set(cfn.cfg.reachable_from(sb))
        for of in owners:
            if of not in ls['rv'].get('fields', []):
                continue
            op = ls['rv']['ops'][ls['rv']['fields'].index(of)]
            if op.get('k') not in ('move', 'copy') or 'proj' in op.get('p', {}):
                continue
            # the literal's operand is usually a temporary filled by `tmp = move owner`: the chain of plain moves leads to the owner local
            chain = [op['p']['l']]
            handover = {(lbi, lsi)}
            grew = True
            while grew and len(chain) < 6:
                grew = False
                defs = [(bi, si, s_) for bi, si, s_ in cfn.assigns() if s_['p']['l'] == chain[-1] and 'proj' not in s_['p']]
                if len(defs) == 1 and defs[0][2]['rv']['k'] == 'use' and defs[0][2]['rv']['op'].get('k') == 'move' and 'proj' not in defs[0][2]['rv']['op']['p']:
                    handover.add((defs[0][0], defs[0][1]))
                    chain.append(defs[0][2]['rv']['op']['p']['l'])
                    grew = True
            Ls = set(chain)
            touched = []
            for bi, si, s_ in cfn.assigns():
                if bi not in after or (bi, si) in handover:
                    continue
                rv_ = s_['rv']
                if rv_['k'] == 'ref' and rv_.get('bk') == 'mut' and rv_['p']['l'] in Ls:
                    touched.append(('&mut', s_.get('ln')))
                elif rv_['k'] in ('rawptr', 'addr') and rv_.get('p', {}).get('l') in Ls and rv_.get('bk', rv_.get('mt')) in ('mut',):
                    touched.append(('&raw mut', s_.get('ln')))
                elif s_['p']['l'] in Ls:
                    touched.append(('write', s_.get('ln')))
                elif rv_['k'] == 'use' and rv_['op'].get('k') == 'move' and rv_['op']['p']['l'] in Ls and 'proj' not in rv_['op']['p']:
                    touched.append(('move', s_.get('ln')))
            for bi, t in cfn.calls():
                if bi in after:
                    for a_ in t['args']:
                        if a_.get('k') == 'move' and a_['p']['l'] in Ls and 'proj' not in a_['p']:
                            touched.append(('moved into %s' % (t['func'].get('name')), t.get('ln')))
            ctx.require(not touched, 'C11-R4', key + ':frozen-after-extend:' + of, 'in %s the owner `%s` is only moved into the %s literal once extend_lifetime has run' % (
                cfn.path, of, S.split('::')[-1]), cfn.where(),
                bad='%s: after extend_lifetime has erased the borrow, the owner `%s` is still touched (%s): a re-allocation or a moved-out element leaves the '
                    'lifetime-extended references dangling, and the borrow checker can no longer see it' % (cfn.path, of, ', '.join('%s at line %s' % x for x in touched)))
    # post-construction API of S: methods with a self parameter
    api = [f for f in F.fns if f.self_adt == S and f.kind == 'AssocFn' and f.j.get('inputs') and S in f.j['inputs'][0]['s']]
    api_paths = {f.path for f in api}
    reach = cg.reachable_from(api_paths)
    for of in owners:
        oty = None
        for fld in F.adts[S]['variants'][0]['fields']:
            if fld['name'] == of:
                oty = fld['ty']
        # direct accesses to S.owner
        bad = []
        for a in fieldidx.accesses(F, S, of):
            if a['fn'].path == cfn.path:
                continue
            if a['kind'] in ('assign', 'mutborrow', 'move') and (a['last'] or a['kind'] != 'move'):
                bad.append((a['fn'].path, a['kind'], a['line']))
        # inner owner type: its fields may only be mutated by functions not reachable from the API
        inner_adt = oty.get('adt') if oty else None
        if inner_adt and inner_adt in F.adts:
            for fld in F.adts[inner_adt]['variants'][0]['fields']:
                for a in fieldidx.accesses(F, inner_adt, fld['name']):
                    if a['kind'] in ('assign', 'mutborrow', 'move') and a['fn'].path in reach:
                        bad.append((a['fn'].path, a['kind'] + ' of %s.%s' % (inner_adt.split('::')[-1], fld['name']), a['line']))
            # &mut self methods of the inner owner type must not be reachable from the API either
            for m in F.fns:
                if m.self_adt == inner_adt and m.j.get('inputs') and m.j['inputs'][0]['k'] == 'refmut' and m.path in reach:
                    bad.append((m.path, '&mut self method reachable from the iterator API', m.loc[1]))
        for b in bad:
            ctx.violation('C11-R4', '%s:owner:%s:%s' % (key, of, b[0]), 'owner `%s.%s` of the lifetime-extended references is subject to `%s` in %s '
                          '(line %s): the referents may move or be freed while still referenced' % (S.split('::')[-1], of, b[1], b[0], b[2]), where)
        if not bad:
            ctx.ok('C11-R4', '%s:owner:%s' % (key, of), 'no assignment to, &mut borrow of, or move out of %s.%s (type %s) outside %s; none of the '
                   'owner type\'s mutating methods is reachable from the %d post-construction methods of %s' % (
                       S.split('::')[-1], of, oty['s'] if oty else '?', cfn.path, len(api), S.split('::')[-1]), cfn.where())
        # heap stability
        heap = oty and (oty['s'].startswith(('std::boxed::Box<', 'std::vec::Vec<')) or heap_stable(F, inner_adt))
        ctx.require(bool(heap), 'C11-R4', '%s:heap:%s' % (key, of), 'owner %s keeps its elements behind a heap allocation (moving the struct does not '
                    'move them)' % (oty['s'] if oty else '?'), cfn.where(),
                    bad='owner field %s: %s stores the referents inline; moving the calculator would move them' % (of, oty['s'] if oty else '?'))


def heap_stable(F, adt):
    a = F.adts.get(adt) if adt else None
    if not a:
        return False
    fields = a['variants'][0]['fields']
    return any(f['ty']['s'].startswith(('std::boxed::Box<', 'std::vec::Vec<')) for f in fields)


def r5_point_split(ctx, F, cg, fn, o, where):
    BS = 'model::beatmap::decode::BeatmapState'
    key = fn.path
    # phases of point_split that were split off into private helpers (fill the buffer, hand back pointer and length) are read through
    import inline
    raw_fn = fn
    fi = inline.inlined(F, fn)
    if fi is not fn:
        bbs = [bi for bi, t in fi.calls() if t['func'].get('name') == 'from_raw_parts']
        if len(bbs) == 1:
            fn = fi
            o = dict(o, bb=bbs[0])
    P = prov.prov_of(fn)
    args = P.call_args(o['bb'])
    ptr = prov.strip(args[0], names=prov.TRANSPARENT_NAMES | {'cast', 'as_ptr'})
    ln = prov.strip(args[1], names=prov.TRANSPARENT_NAMES | {'len'})
    p1 = as_param_path(ptr)
    p2 = as_param_path(ln)
    ctx.require(p1 == (1, ('point_split',)) and p2 == (1, ('point_split',)), 'C11-R5', key + ':ptr-len',
                'from_raw_parts(self.point_split.as_ptr().cast(), self.point_split.len()): pointer and length come from the same vector', where,
                bad='from_raw_parts pointer/length provenance: %s / %s' % (prov.show(args[0], maxdepth=4), prov.show(args[1], maxdepth=4)))
    # no mutation of the vector between as_ptr/len and from_raw_parts
    calls = {bi: t for bi, t in fn.calls()}
    order = fn.cfg.rpo()
    names_seq = [(bi, calls[bi]['func'].get('name')) for bi in order if bi in calls]
    seq = [n for _, n in names_seq]
    try:
        i_ext = seq.index('extend')
        i_raw = seq.index('from_raw_parts')
    except ValueError:
        i_ext = i_raw = -1
    between = seq[i_ext + 1:i_raw] if i_ext >= 0 else []
    ctx.require(i_ext >= 0 and set(between) <= {'as_ptr', 'len', 'cast'}, 'C11-R5', key + ':no-realloc',
                'between extend() and from_raw_parts only as_ptr/len/cast are called on the buffer', where,
                bad='calls between extend() and from_raw_parts: %s' % between)
    # clear() post-dominates the use on every path to return
    clear_bbs = [bi for bi, t in fn.calls() if t['func'].get('name') == 'clear' and
                 as_param_path(prov.strip(P.call_args(bi)[0])) == (1, ('point_split',))]
    ext_bbs = [bi for bi, n in names_seq if n == 'extend']
    good = bool(clear_bbs) and bool(ext_bbs) and fn.cfg.must_pass_through(ext_bbs[0], clear_bbs) and \
        not fn.cfg.dominates(clear_bbs[0], o['bb']) if clear_bbs and ext_bbs else False
    # the must_pass_through starts at the extend block itself; require that clear comes after the closure call
    ctx.require(bool(clear_bbs) and bool(ext_bbs) and fn.cfg.must_pass_through(o['bb'], clear_bbs), 'C11-R5', key + ':clear',
                'every path from the from_raw_parts use to a return passes self.point_split.clear()', where,
                bad='a path from the borrowed-pointer slice to the return of point_split skips point_split.clear(): stale *const str '
                    'entries would be reinterpreted as &str on the next line')
    # the buffer is touched by nobody else
    def only_from_point_split(g, depth=0):
        sites = F.callers().get(g.path, [])
        return bool(sites) and depth < 3 and all(c.path == raw_fn.path or only_from_point_split(c, depth + 1) for c, _, _ in sites)
    others = [a for a in fieldidx.accesses(F, BS, 'point_split')
              if a['fn'].path != fn.path and a['kind'] not in ('agg-init', 'drop') and not only_from_point_split(a['fn'])]
    ctx.require(not others, 'C11-R5', key + ':confined', 'BeatmapState.point_split is accessed only inside point_split() (plus construction and drop)', where,
                bad='BeatmapState.point_split is also accessed by %s' % sorted({a['fn'].path for a in others}))
    # no re-entrancy: point_split is not reachable from the closures handed to it
    closures = set()
    for cfn, cbb, ct in F.callers().get(raw_fn.path, []):
        for a in ct['args']:
            if a['k'] in ('copy', 'move') and 'proj' not in a['p']:
                ty = cfn.locals[a['p']['l']]
                if ty.get('k') == 'closure':
                    closures.add(ty['closure'])
    reach = cg.reachable_from(closures)
    ncall = len(F.callers().get(fn.path, []))
    ctx.require(fn.path not in reach and ncall > 0, 'C11-R5', key + ':no-reentry',
                'none of the %d closures passed to point_split (from %d call sites) can reach point_split again, so the buffer is not '
                'extended while the borrowed slice is live' % (len(closures), ncall), where,
                bad='point_split is reachable from a closure passed to it (re-entrancy would reallocate the scratch buffer under the live slice)')
