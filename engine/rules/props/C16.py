"""C16 — strain output consistent with the star rating."""
import arms
import floatloops as fl
import prov
from common import MODES, CAP, as_param_path
from props import C07

EXPLANATION = (
    "R1: for each of the 9 types implementing StrainSkill the constant by which `process` really advances the section end "
    "(resolved + evaluated: trait default 400 or an inherent shadow such as catch's 750) equals the published "
    "SECTION_LEN of the *Strains type of its mode, and Strains::section_len maps each variant to its own mode's constant. "
    "R2: into_current_strain_peaks / into_difficulty_value / cloned_difficulty_value of every skill obtain their peaks "
    "through get_current_strain_peaks(self.peaks, self.current_section_peak), which pushes the open section; in each "
    "strains() every field of the returned *Strains is into_current_strain_peaks().into_vec() of a skill computed by "
    "DifficultyValues::calculate(difficulty parameter, converted map) — the same call as in difficulty(). R3: strains() "
    "sees the same preprocessed map as difficulty() (sibling rule). R4 (recorded): which difficulty_value each skill "
    "resolves to. R5: strains() and difficulty() reach the same set of Difficulty::get_* settings. R6: within a mode all StrainSkill::process bodies are "
    "the same code (resolved callees / constants / shape), so every skill opens and closes sections at the same boundaries. R7: in every process body the section operations (peak saved, section opened, section end advanced, zeros pushed) are control-dependent on the difficulty objects, constants and the section-end accumulator only — never on the skill's own strain state, which differs between the skills of a mode (non-interference: same objects => same number of sections). R9: difficulty() and strains() hand the shared callees (DifficultyValues::calculate ..) the same numeric expressions. R8: every function that feeds two or more skills feeds them under the same dominating conditions (a skill skipped for some settings stops sectioning). Finiteness / non-negativity of peaks and run-length re-expansion are NOT decided.")

TRAIT = 'any::difficulty::skills::StrainSkill'


def mode_of(path):
    for m in MODES:
        if path.startswith(m + '::'):
            return m
    return None


def section_step(fn):
    """evaluated constant by which the section-end accumulator advances in `process`"""
    P = prov.prov_of(fn)
    for L in fl.analyse(fn):
        if not L.float_only or not L.accs:
            continue
        for a in L.accs:
            for (b, i, s, rr) in a['updates']:
                rv = s['rv']
                if rv['k'] == 'binop' and rv['op'] == 'Add':
                    for o in (rv['a'], rv['b']):
                        v = P.operand(o, b, i)
                        v = prov.strip(v, names={'from', 'into'})
                        if v[0] == 'const' and v[1].get('val') is not None:
                            return float(v[1]['val']), v[1].get('rdef') or v[1].get('def'), v[1].get('trait_default', False), a['place']
    return None, None, None, None


def r1(ctx, F):
    pub = {}
    for c in F.consts:
        if c.get('name') == 'SECTION_LEN' and (c.get('impl_self') or '').endswith('Strains'):
            for m in MODES:
                if c['impl_self'].startswith(m + '::'):
                    pub[m] = (float(c['val']), c['path'])
    for m in MODES:
        if m not in pub:
            ctx.violation('C16-R1', 'anchor-missing:%sStrains::SECTION_LEN' % CAP[m], 'published constant not found')
    n = 0
    for f in F.fns:
        if f.impl_trait == TRAIT and f.name == 'process':
            m = mode_of(f.self_adt or '')
            if m is None or m not in pub:
                continue
            ctx.saw(f)
            n += 1
            step, cdef, is_default, place = section_step(f)
            if step is None:
                # the section walk may have been moved into a helper (`advance_sections(.., section_length)`): look at the inlined body
                import inline
                step, cdef, is_default, place = section_step(inline.inlined(F, f))
            skill = f.self_adt.split('::')[-1]
            if step is None:
                ctx.violation('C16-R1', '%s:step' % f.self_adt, 'cannot identify the section-length step of %s::process' % skill, f.where())
                continue
            ctx.require(step == pub[m][0], 'C16-R1', '%s:section-length' % f.self_adt,
                        '%s::process advances sections by %s (%s%s) = %s' % (skill, step, cdef, ', trait default' if is_default else '', pub[m][1]), f.where(),
                        bad='%s::process advances its sections by %s (%s%s) but %s publishes %s: exported strains are spaced differently from what the '
                            'documentation says' % (skill, step, cdef, ', trait default' if is_default else '', pub[m][1], pub[m][0]))
    ctx.floor('C16-R1', n, 9, 'StrainSkill::process implementations')
    sl = F.method('any::strains::Strains', 'section_len', inherent_only=True)
    if sl is None:
        ctx.violation('C16-R1', 'anchor-missing:Strains::section_len', 'not found')
        return
    ctx.saw(sl)
    cond, vals = arms.arm_return_values(sl)
    seen = 0
    for label, v in vals.items():
        for variant in label.split('|'):
            mode = variant.lower()
            if mode not in MODES:
                continue
            seen += 1
            cv = prov.strip(v) if v is not None else None
            val = float(cv[1]['val']) if cv is not None and cv[0] == 'const' and cv[1].get('val') else None
            cdef = cv[1].get('def', '') if cv is not None and cv[0] == 'const' else ''
            ctx.require(val == pub.get(mode, (None,))[0] and cdef.startswith(mode + '::'), 'C16-R1', 'section_len:' + variant,
                        'Strains::%s -> %s = %s' % (variant, cdef, val), sl.where(),
                        bad='Strains::section_len returns %s (%s) for the %s variant; expected %s' % (val, cdef, variant, pub.get(mode)))
    ctx.floor('C16-R1', seen, 4, 'Strains::section_len arms')


def r2(ctx, F):
    n = 0
    gcsp = [f for f in F.fns if f.in_trait == TRAIT and f.name == 'get_current_strain_peaks']
    if len(gcsp) != 1:
        ctx.violation('C16-R2', 'anchor-missing:get_current_strain_peaks', 'trait default not found')
    else:
        g = gcsp[0]
        ctx.saw(g)
        rv = prov.prov_of(g).return_value()
        pushes = [(bi, t) for bi, t in g.calls() if t['func'].get('name') == 'push']
        good = False
        if len(pushes) == 1:
            a = prov.prov_of(g).call_args(pushes[0][0])
            good = as_param_path(a[0]) == (1, ()) and as_param_path(a[1]) == (2, ()) and as_param_path(rv) == (1, ()) and \
                g.cfg.must_pass_through(0, {pushes[0][0]})      # unconditionally: a skipped section shifts that skill against its siblings
        ctx.require(good, 'C16-R2', 'get_current_strain_peaks', 'pushes current_section_peak onto strain_peaks on every path and returns it', g.where(),
                    bad='StrainSkill::get_current_strain_peaks does not append the open section on every path (all skills of a mode must report the same number of sections): %s' % prov.show(rv, maxdepth=4))
    for f in F.fns:
        if f.impl_trait == TRAIT and f.name in ('into_current_strain_peaks', 'into_difficulty_value', 'cloned_difficulty_value'):
            ctx.saw(f)
            n += 1
            rv = prov.prov_of(f).return_value()
            if f.name != 'into_current_strain_peaks':
                # "same peaks as into_current_strain_peaks(self)": read through the sibling method
                rv = prov.inline_all(F, rv, depth=1, _seen=(f.path,), only=lambda f_: f_.get('name') == 'into_current_strain_peaks')
            calls = [x for x in prov.walk(rv, limit=300) if x[0] == 'call' and x[1].get('name') == 'get_current_strain_peaks']
            good = False
            why = prov.show(rv, maxdepth=4)
            if len(calls) == 1:
                a = calls[0][2]
                p0 = as_param_path(a[0])
                p1 = as_param_path(a[1])
                good = p0 is not None and p1 is not None and p0[0] == 1 and p1[0] == 1 and len(p0[1]) == 1 and len(p1[1]) == 1 and p0[1] != p1[1]
                # the f64 argument must be the field process() maintains as current section peak
                if good:
                    skill_adt = f.self_adt
                    proc = F.method(skill_adt, 'process', trait=TRAIT)
                    peak_field = None
                    if proc is not None:
                        P = prov.prov_of(proc)
                        for bi, si, s in proc.assigns():
                            pl = s['p']
                            pr = [e for e in pl.get('proj', []) if isinstance(e, dict) and 'f' in e]
                            if pl['l'] == 1 and len(pr) == 1:
                                v = P.rvalue(s['rv'], bi, si)
                                if v[0] == 'call' and v[1].get('name') == 'max':
                                    peak_field = pr[0]['f']
                    if peak_field is not None and p1[1][0] != peak_field:
                        good = False
                        why = 'passes self.%s as the open section peak, but process() maintains the peak in self.%s' % (p1[1][0], peak_field)
            if not calls:
                # the open section may also be closed in place: `self.save_current_peak(); self.<peaks>` — the peaks after save_current_peak, which
                # must push the field process() maintains as the running peak onto that same list
                good, why = closed_in_place(F, f, rv, why)
            top = prov.strip(rv, names=set())
            if f.name != 'into_current_strain_peaks':
                good = good and top[0] == 'call' and top[1].get('name') == 'difficulty_value'
            ctx.require(good, 'C16-R2', '%s::%s' % (f.self_adt, f.name), '%s closes the open section via get_current_strain_peaks(self.peaks, self.current_peak)' % f.name,
                        f.where(), bad='%s::%s: %s' % (f.self_adt.split('::')[-1], f.name, why))
    ctx.floor('C16-R2', n, 27, 'peak-closing methods (9 skills x 3)')
    # strains(): every exported field
    nfields = 0
    for mode in MODES:
        fn = F.fn('%s::strains::strains' % mode)
        dfn = F.fn('%s::difficulty::difficulty' % mode)
        if fn is None or dfn is None:
            ctx.violation('C16-R2', 'anchor-missing:%s:strains' % mode, '%s::strains::strains / difficulty::difficulty not found' % mode)
            continue
        ctx.saw(fn)
        rv = prov.prov_of(fn).return_value()
        sadt = '%s::strains::%sStrains' % (mode, CAP[mode])
        # a private constructor of the result type (`CatchStrains::of_converted(difficulty, &map)`) is read through
        import combin as _cb
        rv = _cb.expand(F, prov.inline_all(F, rv, depth=2, _seen=(fn.path,), only=lambda f_: (f_.get('impl_adt') or '') == sadt and not f_.get('trait')))
        lits = [x for x in prov.walk(rv) if x[0] == 'agg' and x[2] == sadt]
        if len(lits) != 1:
            ctx.violation('C16-R2', '%s:strains:shape' % mode, 'cannot identify the %s literal' % sadt, fn.where())
            continue
        dv_calls_strains = set()
        for fld, v in lits[0][4].items():
            nfields += 1
            # free helper functions (`fn peaks_vec(skill) -> Vec<f64>`) are read through; methods of skills / calculators are not
            v = prov.inline_all(F, v, depth=2, _seen=(fn.path,), only=lambda f_: not f_.get('impl_adt') and not f_.get('trait') and
                                '{closure' not in (f_.get('path') or '') and (f_.get('path') or '').startswith(('any::difficulty::', mode + '::strains::', 'util::')))
            s = prov.strip(v, names=set())
            good = s[0] == 'call' and s[1].get('name') == 'into_vec' and s[1].get('impl_adt', '').endswith('StrainsVec')
            inner = prov.strip(s[2][0], names=set()) if good else None
            good = good and inner[0] == 'call' and inner[1].get('name') == 'into_current_strain_peaks'
            src = None
            if good:
                for x in prov.walk(inner[2][0], limit=300):
                    if x[0] == 'call' and x[1].get('name') == 'calculate' and (x[1].get('impl_adt') or '').startswith(mode + '::difficulty'):
                        src = x
                        break
                good = src is not None
            if good:
                a = src[2]
                import entries as _e
                conv = _e.from_convert_ref(F, a[1])
                good = as_param_path(a[0]) == (1, ()) and conv
                dv_calls_strains.add(src[1].get('path'))
            ctx.require(good, 'C16-R2', '%s:strains:%s' % (mode, fld), '%sStrains.%s = skill.into_current_strain_peaks().into_vec() of DifficultyValues::calculate(difficulty, converted map)' % (CAP[mode], fld),
                        fn.where(), bad='%sStrains.%s is `%s`' % (CAP[mode], fld, prov.show(s, maxdepth=5)[:300]))
        # difficulty() uses the same DifficultyValues::calculate with the same two slots
        # the call may sit in difficulty() itself, in a closure it maps over the conversion result, or in a private second-phase helper
        import entries as _e
        cands = [dfn] + list(F.all_closures_of(dfn))
        for g in list(cands):
            for _, t in g.calls():
                h = F.fn(t['func'].get('path') or '') if t['func'].get('local') and not t['func'].get('trait') else None
                if h is not None and h not in cands and h.path.startswith(mode + '::difficulty') and h.name != 'calculate':
                    cands.append(h)
        dcalls = [(g, bi, t) for g in cands for bi, t in g.calls()
                  if t['func'].get('name') == 'calculate' and (t['func'].get('impl_adt') or '').startswith(mode + '::difficulty')]
        same = len(dcalls) == 1 and (not dv_calls_strains or dcalls[0][2]['func'].get('path') in dv_calls_strains)
        if same:
            g, bi, t = dcalls[0]
            a = prov.prov_of(g).call_args(bi)
            dpp = as_param_path(a[0])
            is_diff = dpp is not None and dpp[1] == () and (g is dfn and dpp[0] == 1 or 'Difficulty' in ((g.j.get('inputs') or [{}] * dpp[0])[dpp[0] - 1].get('s') or '')
                                                           or g.kind == 'Closure')
            mpp = as_param_path(a[1])
            map_ok = _e.from_convert_ref(F, a[1]) or (mpp is not None and mpp[1] == () and g is not dfn and not _e.always_converted(F, g, mpp[0]))
            same = bool(is_diff) and map_ok
        ctx.require(same, 'C16-R2', '%s:same-calculate' % mode, 'difficulty() and strains() both run %s::difficulty::DifficultyValues::calculate(difficulty, converted map)' % mode,
                    dfn.where(), bad='%s::difficulty::difficulty does not compute its skills with the same DifficultyValues::calculate(difficulty, converted map) call as strains()' % mode)
    ctx.floor('C16-R2', nfields, 11, 'exported strain vectors')


def r4(ctx, F):
    for f in F.fns:
        if f.impl_trait == TRAIT and f.name == 'difficulty_value':
            calls = [t['func'].get('path') for _, t in f.calls() if t['func'].get('local')]
            consts = []
            for bi, t in f.calls():
                for a in t['args']:
                    if a['k'] == 'const' and a.get('val') and a.get('ty') == 'f64':
                        consts.append('%s (%s)' % (a['val'], a.get('rdef') or a.get('def')))
            ctx.note('aggregation of %s: %s with %s' % (f.self_adt.split('::')[-1], calls, consts))
    # judged as far as: Movement and Strain resolve to the generic decay-weighted sum
    for adt, want in (('catch::difficulty::skills::movement::Movement', '0.94'), ('mania::difficulty::skills::strain::Strain', '0.9')):
        f = F.method(adt, 'difficulty_value', trait=TRAIT)
        if f is None:
            ctx.violation('C16-R4', 'anchor-missing:' + adt, 'difficulty_value not found')
            continue
        cs = [(bi, t) for bi, t in f.calls() if t['func'].get('path') == 'any::difficulty::skills::difficulty_value']
        good = len(cs) == 1
        w = None
        if good:
            a = cs[0][1]['args'][1]
            w = a.get('val')
            good = w == want
        ctx.require(good, 'C16-R4', adt.split('::')[-1] + ':aggregation', '%s aggregates with skills::difficulty_value(peaks, %s)' % (adt.split('::')[-1], w), f.where(),
                    bad='%s::difficulty_value no longer is the documented decay-weighted sum with weight %s (found weight %s, calls %s)' % (
                        adt.split('::')[-1], want, w, [t['func'].get('path') for _, t in f.calls()]))


def run(ctx):
    F = ctx.facts('default')
    r1(ctx, F)
    r2(ctx, F)
    C07.r2_r4(ctx, F, r2=None, r4='C16-R3', methods=['difficulty', 'strains'])
    r4(ctx, F)
    r6_same_sectioning(ctx, F)
    r7_sections_by_time_only(ctx, F)
    r8_skills_fed_alike(ctx, F)
    from props import C02 as _c02
    _c02.r9_strains_pair(ctx, F, 'C16-R9')
    # ---- R5: strains() and difficulty() consult the same Difficulty settings
    import entries
    for mode in MODES:
        a = entries.difficulty_getters(F, ['%s::difficulty::difficulty' % mode])
        b = entries.difficulty_getters(F, ['%s::strains::strains' % mode])
        if not a or not b:
            ctx.violation('C16-R5', 'anchor-missing:' + mode, 'strains / difficulty entry of %s not found' % mode)
            continue
        diff = set(a) ^ set(b)
        ctx.require(not diff, 'C16-R5', mode + ':settings', '%s strains() and difficulty() consult the same Difficulty settings %s' % (mode, sorted(a)),
                    bad='%s: strains() and difficulty() consult different Difficulty settings (%s only on one side): the strains no longer explain the stars for that setting'
                        % (mode, sorted(diff)))
    ctx.not_decided('finiteness and non-negativity of the peaks; equal section counts across skills; re-expansion of zero runs by '
                    'StrainsVec::into_vec; the numeric re-aggregation identity')


def _peak_field(F, skill_adt):
    proc = F.method(skill_adt, 'process', trait=TRAIT)
    if proc is None:
        return None
    P = prov.prov_of(proc)
    for bi, si, s in proc.assigns():
        pl = s['p']
        pr = [e for e in pl.get('proj', []) if isinstance(e, dict) and 'f' in e]
        if pl['l'] == 1 and len(pr) == 1:
            v = P.rvalue(s['rv'], bi, si)
            if v[0] == 'call' and v[1].get('name') == 'max':
                return pr[0]['f']
    return None


def closed_in_place(F, f, rv, why):
    muts = [x for x in prov.walk(rv, limit=300) if x[0] == 'mut' and any(v[0] == 'callref' and v[1].get('name') == 'save_current_peak' for v in x[2])]
    if len(muts) != 1:
        return False, why
    pp = as_param_path(muts[0][1])
    if pp is None or pp[0] != 1 or len(pp[1]) != 1:
        return False, why
    peaks_field = pp[1][0]
    scp = F.method(f.self_adt, 'save_current_peak', trait=TRAIT)
    if scp is None:
        return False, 'save_current_peak of %s not found' % f.self_adt
    P = prov.prov_of(scp)
    pushes = [(bi, t) for bi, t in scp.calls() if t['func'].get('name') == 'push' and (t['func'].get('impl_adt') or '').endswith('StrainsVec')]
    others = [t['func'].get('name') for bi, t in scp.calls() if (bi, t) not in pushes and t['func'].get('name') not in ('deref', 'deref_mut')]
    if len(pushes) != 1 or others:
        return False, 'save_current_peak does not consist of exactly one push onto the peaks (%d pushes, other calls %s)' % (len(pushes), others)
    a = P.call_args(pushes[0][0])
    p0, p1 = as_param_path(a[0]), as_param_path(a[1])
    want = _peak_field(F, f.self_adt)
    ok = p0 == (1, (peaks_field,)) and p1 is not None and p1[0] == 1 and len(p1[1]) == 1 and (want is None or p1[1][0] == want)
    return ok, why if ok else 'save_current_peak pushes `%s` onto `%s`, expected self.%s onto self.%s' % (prov.show(a[1], maxdepth=3), prov.show(a[0], maxdepth=3), want, peaks_field)


# ---- R6: all skills of a mode advance their sections with the same code
def r6_same_sectioning(ctx, F):
    import re
    import fingerprint as fp

    def norm(items, adt):
        out = []
        for it in items:
            it = it.replace(adt, 'SKILL')
            it = re.sub(r'<impl any::difficulty::skills::Strain(Decay)?Skill for [^>]*>', '<impl SKILLTRAIT>', it)
            it = re.sub(r'(osu|taiko|catch|mania)::difficulty::skills::\w+::_::<impl SKILLTRAIT>::', 'SKILL::', it)
            it = re.sub(r'(osu|taiko|catch|mania)::difficulty::skills::\w+::\w+::', 'SKILL::', it)
            out.append(it)
        return out

    import inline
    by_mode = {}
    for f in F.fns:
        if f.impl_trait == TRAIT and f.name == 'process':
            m = mode_of(f.self_adt or '')
            if m:
                f = inline.inlined(F, f)            # helpers the section walk may have been moved into are read through
                items = norm(fp.fingerprint(f), f.self_adt)
                # only the sectioning part: everything before the skill-specific strain evaluation
                cut = [i for i, it in enumerate(items) if it.startswith('call:SKILL::strain_value_at')]
                by_mode.setdefault(m, []).append((f, items[:cut[0]] if cut else items))
    n = 0
    for m, lst in sorted(by_mode.items()):
        ref_f, ref = lst[0]
        for f, v in lst:
            n += 1
            d = fp.diff(ref, v)
            ctx.require(d is None, 'C16-R6', '%s:%s' % (m, f.self_adt.split('::')[-1]),
                        '%s::process advances and closes sections with the same code as %s (all %d %s skills report the same number of sections)' % (
                            f.self_adt.split('::')[-1], ref_f.self_adt.split('::')[-1], len(lst), m), f.where(),
                        bad='%s::process differs from %s::process (element %s: `%s` vs `%s`): skills of one mode may report different numbers of sections' % (
                            f.self_adt.split('::')[-1], ref_f.self_adt.split('::')[-1], d[0] if d else '', d[2] if d else '', d[1] if d else ''))
        # the section loop saves one peak per boundary: save_current_peak and start_new_section_from are called inside the loop
        names = [t['func'].get('name') for _, t in ref_f.calls()]
        ctx.require('save_current_peak' in names and 'start_new_section_from' in names, 'C16-R6', m + ':loop-calls',
                    'section loop calls save_current_peak + start_new_section_from', ref_f.where(),
                    bad='%s::process no longer saves the peak / starts a new section at section boundaries' % ref_f.self_adt.split('::')[-1])
    ctx.floor('C16-R6', n, 9, 'process bodies compared')


# ---- R7: how many sections a skill opens is decided by time alone
def _root_param(v):
    for _ in range(60):
        if v[0] in ('field', 'variant', 'index', 'mut', 'update', 'cast', 'unop') and len(v) > 1 and isinstance(v[1], tuple):
            v = v[1] if v[0] != 'cast' else v[2]
            continue
        if v[0] == 'cast':
            v = v[2]
            continue
        break
    return v[1] if v[0] == 'param' else None


def skill_data_leaves(v, end_field, _seen=None, _d=0):
    """what a condition depends on besides the difficulty objects, constants and the section-end accumulator: fields of the skill (self) other
    than `end_field`, and calls that receive the skill"""
    if _seen is None:
        _seen = set()
    out = set()
    if id(v) in _seen or _d > 80:
        return out
    _seen.add(id(v))
    k = v[0]
    if k == 'field':
        rp = _root_param(v)
        if rp == 1:
            # the outermost field name along the chain from self
            names = []
            x = v
            while x[0] in ('field', 'variant', 'index', 'mut', 'update'):
                if x[0] == 'field':
                    names.append(x[2])
                x = x[1]
            if names and names[-1] not in (end_field if isinstance(end_field, (set, frozenset)) else {end_field}):
                out.add('self.' + str(names[-1]))
            # the value may have been replaced by a call taking &mut self: look inside `mut` wrappers
            x = v
            while x[0] in ('field', 'variant', 'index'):
                x = x[1]
            if x[0] in ('mut', 'update'):
                out |= skill_data_leaves(x[1], end_field, _seen, _d + 1)
            return out
        if rp in (2, 3):
            return out
    if k == 'param':
        if v[1] == 1:
            out.add('self')
        return out
    if k == 'call':
        for a in v[2]:
            if _root_param(a) == 1 and a[0] in ('param', 'mut', 'update'):
                out.add('%s(self, ..)' % (v[1].get('name') or '?'))
            else:
                out |= skill_data_leaves(a, end_field, _seen, _d + 1)
        return out
    if k == 'mut':
        return skill_data_leaves(v[1], end_field, _seen, _d + 1)
    for x in prov.children(v):
        out |= skill_data_leaves(x, end_field, _seen, _d + 1)
    return out


def r7_sections_by_time_only(ctx, F):
    import inline
    n = 0
    for f0 in F.fns:
        if not (f0.impl_trait == TRAIT and f0.name == 'process' and mode_of(f0.self_adt or '')):
            continue
        f = inline.inlined(F, f0)
        step, _, _, place = section_step(f)
        if place is None:
            continue                   # reported by R1
        P = prov.prov_of(f)
        # time-only state of the skill: the greatest set of self fields every write of which (in process) stores a value that depends on the difficulty
        # objects, constants and fields of the set only — the section-end accumulator qualifies, the running peak (fed by strain_value_at) does not
        writes = {}
        for bi, si, s_ in f.assigns():
            fl_ = [e.get('f') for e in s_['p'].get('proj', []) if isinstance(e, dict) and 'f' in e]
            if s_['p']['l'] == 1 and fl_:
                writes.setdefault(fl_[0], []).append(P.rvalue(s_['rv'], bi, si))
        for bi, t in f.calls():
            # a field handed out by &mut (self.peaks.push(..)) is not time-only state
            for a in t['args']:
                if a.get('k') in ('copy', 'move'):
                    pass
        allowed = set(writes)
        acc = place.split('.')[-1].rstrip(')')
        if not acc.startswith('_'):
            allowed.add(acc)
        changed = True
        while changed:
            changed = False
            for fld in sorted(allowed):
                if any(skill_data_leaves(v, frozenset(allowed)) for v in writes.get(fld, [])):
                    allowed.discard(fld)
                    changed = True
        end_field = frozenset(allowed)
        acc_fields = {fld for fld in allowed}
        effects = []
        for bi, t in f.calls():
            nm = t['func'].get('name') or ''
            if nm in ('save_current_peak', 'start_new_section_from') or (nm.startswith(('push', 'extend', 'resize')) and (t['func'].get('impl_adt') or '').endswith('StrainsVec')):
                effects.append((bi, nm, t.get('ln')))
        for bi, si, s in f.assigns():
            fl_ = [e.get('f') for e in s['p'].get('proj', []) if isinstance(e, dict) and 'f' in e]
            if s['p']['l'] == 1 and fl_ and fl_[-1] in acc_fields:
                effects.append((bi, 'write of ' + fl_[-1], s.get('ln')))
        skill = f0.self_adt.split('::')[-1]
        bad = {}
        for bi, what, ln in effects:
            for c, lab in arms.bool_facts(f, bi):
                leaves = skill_data_leaves(c, end_field)
                if leaves:
                    bad.setdefault((what, ln), set()).update(leaves)
        n += 1
        ctx.require(not bad, 'C16-R7', '%s:%s' % (mode_of(f0.self_adt), skill),
                    '%s::process: the %d section operations (peak saved / section opened / section end advanced) are conditioned on object times and the section end only' % (skill, len(effects)), f0.where(),
                    bad='%s::process: %s — how many sections are recorded now depends on the strain state of the skill itself, so two skills of the mode fed the same objects can report '
                        'different numbers of sections (their peaks no longer line up)' % (skill, '; '.join('`%s` (line %s) is conditioned on %s' % (w, ln, sorted(lv)) for (w, ln), lv in sorted(bad.items(), key=str))))
    ctx.floor('C16-R7', n, 9, 'StrainSkill::process implementations')


# ---- R8: whoever feeds several skills feeds them under the same conditions (seeds C16-7 / C03-7: `if !relax { self.speed.process(..) }`)
def r8_skills_fed_alike(ctx, F):
    """`process` does two jobs: it evaluates the object's strain AND keeps the skill's section clock.  A skill that is skipped for some settings ("its rating is
    zeroed anyway") stops sectioning: strains() then hands out lists of different lengths for the skills of one mode, and counts kept by the skipped skill
    differ between the paths that share the shortcut and those that do not.  Decided per feeding function: the dominating boolean facts of every skill
    `process` call site, minus those common to all sites of the function, must be empty."""
    import arms
    nfn = nsites = 0
    for fn in F.fns:
        if fn.j.get('cfg_test'):
            continue
        sites = []
        for bi, t in fn.calls():
            if t['func'].get('name') != 'process' or not t['args']:
                continue
            cp = t['func'].get('path') or ''
            if '::skills::' not in cp and 'StrainSkill' not in cp:
                continue
            facts = set()
            for c, lab in arms.bool_facts(fn, bi):
                facts.add('%s = %s' % (prov.show(prov.strip(c, names={'likely', 'unlikely'}), maxdepth=6), lab))
            short = cp.split(' for ')[-1].split('>::')[0] if ' for ' in cp else cp
            sites.append((short, facts, t.get('ln')))
        if len(sites) < 2:
            continue
        nfn += 1
        nsites += len(sites)
        ctx.saw(fn)
        common = set.intersection(*[x[1] for x in sites])
        odd = [(sh, sorted(f - common), ln) for sh, f, ln in sites if f - common]
        ctx.require(not odd, 'C16-R8', 'fed-alike:' + fn.path, '%s feeds %d skills, all under the same conditions' % (fn.path, len(sites)), fn.where(),
                    bad='%s feeds %s only when %s while the other skills of the mode are fed regardless: the skipped skill stops sectioning, so its strain list (and every '
                        'count it keeps) no longer lines up with its siblings' % (fn.path, ', '.join(o[0].split('::')[-1] for o in odd), '; '.join(' && '.join(o[1]) for o in odd)))
    ctx.floor('C16-R8', nfn, 3, 'functions feeding two or more skills')
    ctx.floor('C16-R8', nsites, 10, 'skill feed sites in them')
