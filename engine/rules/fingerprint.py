"""Configuration-independent function fingerprints (C10-R2)."""
import re

ALIASES = [
    (re.compile(r"std::cell::Ref(Mut)?\b"), 'GUARD'),
    (re.compile(r"util::sync::inner::(RefWrap|Ref)\b"), 'GUARD'),
    (re.compile(r"std::sync::(poison::)?(rwlock::)?RwLock(Read|Write)Guard\b"), 'GUARD'),
    (re.compile(r"<'[a-z_]+(, [A-Za-z, ]+)?>|<'_(, [A-Za-z, ]+)?>"), '<..>'),
    (re.compile(r"::<'[a-z_]+(, [A-Za-z]+)*>"), ''),
]


def norm(s):
    for rx, rep in ALIASES:
        s = rx.sub(rep, s)
    return s


def const_sig(o):
    if o.get('k') != 'const':
        return None
    if 'fn' in o:
        return 'fn:' + norm(o['fn'].get('path') or '')
    if 'val' in o:
        return 'c:%s' % o['val']
    if 'def' in o:
        return 'd:' + norm(o['def'])
    if 'str' in o:
        return 's:' + o['str'][:40]
    return None


def fingerprint(fn):
    out = []
    for b in fn.blocks:
        if b['cleanup']:
            continue
        for s in b['s']:
            if s['k'] != 'assign':
                continue
            rv = s['rv']
            k = rv['k']
            item = k
            if k == 'binop' or k == 'unop':
                item += ':' + rv['op']
            elif k == 'cast':
                item += ':' + rv['ck']
            elif k == 'agg':
                item += ':' + norm(rv.get('adt') or rv.get('closure') or rv.get('ak')) + ':' + str(rv.get('variant'))
            ops = []
            for key in ('op', 'a', 'b'):
                o = rv.get(key)
                if isinstance(o, dict):
                    c = const_sig(o)
                    if c:
                        ops.append(c)
            for o in rv.get('ops', []) or []:
                c = const_sig(o)
                if c:
                    ops.append(c)
            out.append(item + ('(' + ','.join(ops) + ')' if ops else ''))
        t = b['t']
        k = t['k']
        if k == 'call':
            f = t['func']
            cs = [c for c in (const_sig(a) for a in t['args']) if c]
            out.append('call:' + norm(f.get('path') or f.get('ty', 'indirect')) + ('(' + ','.join(cs) + ')' if cs else ''))
        elif k == 'switch':
            out.append('switch:' + ','.join(v for v, _ in t['targets']))
        elif k == 'assert':
            out.append('assert:' + t['kind'])
        elif k == 'drop':
            pass   # drop elaboration depends on local types
        elif k in ('return', 'unreachable'):
            out.append(k)
    return out


def table(F):
    return {fn.path: fingerprint(fn) for fn in F.fns}


def diff(fa, fb):
    """first differing element for reporting"""
    for i, (x, y) in enumerate(zip(fa, fb)):
        if x != y:
            return i, x, y
    if len(fa) != len(fb):
        i = min(len(fa), len(fb))
        return i, fa[i] if i < len(fa) else '<end>', fb[i] if i < len(fb) else '<end>'
    return None
