"""Semantic expansion of Option/Result combinators and closure calls in provenance trees.

`expand(F, v)` rewrites
  Option::map_or(o, d, f)        -> phi(d, f(inner(o)))
  Option::map_or_else(o, g, f)   -> phi(g(), f(inner(o)))
  Option::unwrap_or(o, d)        -> phi(inner(o), d)
  Option::unwrap_or_else(o, g)   -> phi(inner(o), g())
  Option::unwrap_or_default(o)   -> phi(inner(o), default)
  Option::unwrap / expect        -> inner(o)
  Option::map(o, f)              -> Some{0: f(inner(o))}
  Option::filter / copied / ...  -> o
  Result: map/map_err/ok/unwrap_or... analogous (Ok payload)
where f(args) is the closure's return value with parameters and captured variables substituted
(closures are ordinary bodies in the fact file), or a call node for function items.
"""
import prov

OPTIONISH = ('std::option::Option', 'std::result::Result')


def inner(o):
    o2 = prov.strip(o, names={'copied', 'cloned', 'as_ref', 'as_mut', 'as_deref', 'clone', 'take'})
    v = prov.project_variant(o2, 'Some')
    if v[0] == 'unknown':
        v = prov.project_variant(o2, 'Ok')
    return prov.project_field(v, '0')


def apply_fn(F, f, args, depth):
    """value of calling function value `f` (closure aggregate or fn item constant) with args"""
    f = prov.strip(f, names={'clone'})
    if f[0] == 'agg' and f[1] == 'closure':
        cfn = F.fn(f[2])
        if cfn is not None and depth > 0:
            rv = prov.prov_of(cfn).return_value()
            params = {1: f}
            for i, a in enumerate(args):
                params[i + 2] = a
            out = prov.subst(rv, params)
            return expand(F, out, depth - 1)
        return ('call', {'path': f[2], 'name': 'closure', 'local': True}, [f] + list(args), None)
    if f[0] == 'const' and 'fn' in f[1]:
        return ('call', f[1]['fn'], list(args), None)
    return ('call', {'path': 'indirect', 'name': 'indirect'}, [f] + list(args), None)


def expand(F, v, depth=4, _memo=None):
    if _memo is None:
        _memo = {}
    key = id(v)
    if key in _memo:
        return _memo[key]
    k = v[0]
    r = v
    if k == 'call':
        f = v[1]
        name = f.get('name')
        path = f.get('path') or ''
        args = [expand(F, a, depth, _memo) for a in v[2]]
        is_opt = path.startswith(OPTIONISH)
        if is_opt and name == 'map_or' and len(args) == 3:
            r = prov.phi([args[1], apply_fn(F, args[2], [inner(args[0])], depth)])
        elif is_opt and name == 'map_or_else' and len(args) == 3:
            r = prov.phi([apply_fn(F, args[1], [], depth), apply_fn(F, args[2], [inner(args[0])], depth)])
        elif is_opt and name == 'unwrap_or' and len(args) == 2:
            r = prov.phi([inner(args[0]), args[1]])
        elif is_opt and name == 'unwrap_or_else' and len(args) == 2:
            r = prov.phi([inner(args[0]), apply_fn(F, args[1], [], depth)])
        elif is_opt and name == 'unwrap_or_default' and len(args) == 1:
            r = prov.phi([inner(args[0]), ('const', {'k': 'const', 'ty': 'default', 'val': 'default'})])
        elif is_opt and name in ('unwrap', 'expect', 'unwrap_unchecked') and args:
            r = inner(args[0])
        elif is_opt and name == 'map' and len(args) == 2:
            r = ('agg', 'adt', 'std::option::Option', 'Some', {'0': apply_fn(F, args[1], [inner(args[0])], depth)})
        elif is_opt and name in ('and_then',) and len(args) == 2:
            r = apply_fn(F, args[1], [inner(args[0])], depth)
        elif is_opt and name in ('filter', 'copied', 'cloned', 'as_ref', 'as_mut', 'take', 'or') and args:
            r = args[0] if name != 'or' else prov.phi(args)
        elif is_opt and name == 'or_else' and len(args) == 2:
            r = prov.phi([args[0], apply_fn(F, args[1], [], depth)])
        elif name in ('call', 'call_once', 'call_mut') and (f.get('trait') or f.get('path') or '').startswith(('std::ops::Fn', 'core::ops::function::Fn', 'std::ops::function::Fn')) \
                and len(args) == 2 and args[1][0] == 'agg' and args[1][1] == 'tuple':
            items = args[1][-1]
            r = apply_fn(F, args[0], list(items.values() if isinstance(items, dict) else items), depth)
        elif is_opt and name in ('then', 'then_some'):
            r = ('call', f, args, v[3])
        else:
            r = ('call', f, args, v[3])
    elif k == 'phi':
        r = prov.phi([expand(F, x, depth, _memo) for x in v[1]])
    elif k == 'agg':
        r = ('agg', v[1], v[2], v[3], {fl: expand(F, x, depth, _memo) for fl, x in v[4].items()})
    elif k == 'field':
        r = prov.project_field(expand(F, v[1], depth, _memo), v[2])
    elif k == 'variant':
        r = prov.project_variant(expand(F, v[1], depth, _memo), v[2])
    elif k == 'binop':
        r = ('binop', v[1], expand(F, v[2], depth, _memo), expand(F, v[3], depth, _memo))
    elif k == 'unop':
        r = ('unop', v[1], expand(F, v[2], depth, _memo))
    elif k == 'cast':
        r = ('cast', v[1], expand(F, v[2], depth, _memo), v[3])
    elif k == 'update':
        r = ('update', expand(F, v[1], depth, _memo), {p: expand(F, x, depth, _memo) for p, x in v[2].items()})
    elif k == 'mut':
        r = ('mut', expand(F, v[1], depth, _memo), v[2], v[3] if len(v) > 3 else ())
    elif k == 'index':
        r = ('index', expand(F, v[1], depth, _memo), v[2])
    _memo[key] = r
    return r


MIN_NAMES = {'min'}
MAX_NAMES = {'max'}


def unclamped_occurrences(v, is_source, clamp_names=MIN_NAMES, _under=False, _out=None, _seen=None, bound_pred=None):
    """walk the value tree; collect occurrences of source nodes that are NOT below a call of one of
    `clamp_names` (cmp::min / Ord::min / u32::min ...).  Returns (n_clamped, [unclamped nodes])."""
    if _out is None:
        _out = {'clamped': 0, 'unclamped': [], 'bounds': []}
    if _seen is None:
        _seen = set()
    key = (id(v), _under)
    if key in _seen:
        return _out
    _seen.add(key)
    if is_source(v):
        if _under:
            _out['clamped'] += 1
        else:
            _out['unclamped'].append(v)
        return _out
    k = v[0]
    if k == 'call' and v[1].get('name') in clamp_names and len(v[2]) == 2:
        # record the other operand (the bound) for sources among the direct operands
        for i, a in enumerate(v[2]):
            if any(is_source(n) for n in prov.walk(a, limit=400)):
                _out['bounds'].append(v[2][1 - i])
        for a in v[2]:
            unclamped_occurrences(a, is_source, clamp_names, True, _out, _seen)
        return _out
    for c in prov.children(v):
        unclamped_occurrences(c, is_source, clamp_names, _under, _out, _seen)
    return _out
