//! E3 — type-level witnesses. Run with `cargo +nightly test --doc [--features sync]` (stable ignores
//! the error codes). Compiling twins are `no_run`: nothing is executed, rustc's type checker decides. Each compile_fail witness has a compiling twin that differs only in the offending
//! line, so a witness cannot pass because of a typo.
#![allow(dead_code)]

/// Value types are Send + Sync in every configuration (twin of the !Send witnesses below).
/// ```no_run
/// fn ss<T: Send + Sync>() {}
/// ss::<rosu_pp::Beatmap>();
/// ss::<rosu_pp::Difficulty>();
/// ss::<rosu_pp::GameMods>();
/// ss::<rosu_pp::Performance<'static>>();
/// ss::<rosu_pp::any::DifficultyAttributes>();
/// ss::<rosu_pp::any::PerformanceAttributes>();
/// ss::<rosu_pp::any::Strains>();
/// ss::<rosu_pp::any::ScoreState>();
/// ss::<rosu_pp::osu::OsuDifficultyAttributes>();
/// ss::<rosu_pp::taiko::TaikoPerformanceAttributes>();
/// ss::<rosu_pp::catch::CatchStrains>();
/// ss::<rosu_pp::mania::ManiaScoreState>();
/// ```
pub struct ValueTypesSendSync;

/// osu / catch / mania gradual calculators are Send in every configuration.
/// ```no_run
/// fn s<T: Send>() {}
/// s::<rosu_pp::osu::OsuGradualDifficulty>();
/// s::<rosu_pp::osu::OsuGradualPerformance>();
/// s::<rosu_pp::catch::CatchGradualDifficulty>();
/// s::<rosu_pp::catch::CatchGradualPerformance>();
/// s::<rosu_pp::mania::ManiaGradualDifficulty>();
/// s::<rosu_pp::mania::ManiaGradualPerformance>();
/// ```
pub struct GradualSend;

/// Without `sync` the taiko gradual calculator is NOT Send (Rc<RefCell<..>> inside) ...
#[cfg_attr(not(feature = "sync"), doc = "```compile_fail,E0277")]
#[cfg_attr(feature = "sync", doc = "```no_run")]
/// fn s<T: Send>() {}
/// s::<rosu_pp::taiko::TaikoGradualDifficulty>();
/// ```
/// ... and neither are the wrappers that may contain it.
#[cfg_attr(not(feature = "sync"), doc = "```compile_fail,E0277")]
#[cfg_attr(feature = "sync", doc = "```no_run")]
/// fn s<T: Send>() {}
/// s::<rosu_pp::GradualDifficulty>();
/// ```
#[cfg_attr(not(feature = "sync"), doc = "```compile_fail,E0277")]
#[cfg_attr(feature = "sync", doc = "```no_run")]
/// fn s<T: Send>() {}
/// s::<rosu_pp::taiko::TaikoGradualPerformance>();
/// ```
/// Twin: the same call shape compiles for a type that is Send in every configuration.
/// ```no_run
/// fn s<T: Send>() {}
/// s::<rosu_pp::osu::OsuGradualDifficulty>();
/// ```
pub struct TaikoGradualSendOnlyWithSync;

/// Gradual calculators are not Clone (a copy would carry references into the original's owner).
/// ```compile_fail,E0599
/// let map = rosu_pp::Beatmap::from_bytes(&[]).unwrap();
/// let g = rosu_pp::osu::OsuGradualDifficulty::new(rosu_pp::Difficulty::new(), &map).unwrap();
/// let _h = g.clone();
/// ```
/// ```compile_fail,E0599
/// let map = rosu_pp::Beatmap::from_bytes(&[]).unwrap();
/// let g = rosu_pp::taiko::TaikoGradualDifficulty::new(rosu_pp::Difficulty::new(), &map).unwrap();
/// let _h = g.clone();
/// ```
/// Twin: the same program without the clone compiles.
/// ```no_run
/// let map = rosu_pp::Beatmap::from_bytes(&[]).unwrap();
/// let g = rosu_pp::osu::OsuGradualDifficulty::new(rosu_pp::Difficulty::new(), &map).unwrap();
/// let _h = g;
/// ```
pub struct GradualNotClone;

/// A calculation cannot mutate the map it was handed by reference: `calculate` takes `&Beatmap`.
/// ```compile_fail,E0596
/// let map = rosu_pp::Beatmap::from_bytes(&[]).unwrap();
/// let r: &rosu_pp::Beatmap = &map;
/// r.hit_objects.clear();
/// ```
/// ```no_run
/// let mut map = rosu_pp::Beatmap::from_bytes(&[]).unwrap();
/// let r: &mut rosu_pp::Beatmap = &mut map;
/// r.hit_objects.clear();
/// let _ = rosu_pp::Difficulty::new().calculate(&map);
/// ```
pub struct MapImmutableBehindRef;
