//! Positive controls: one seeded instance per expected-zero rule. Every check run analyses this
//! crate with the same driver and the same rule code and fails (as a broken check) if a rule
//! does not find its seeded instance here.
#![allow(dead_code, unused, static_mut_refs, invalid_reference_casting, clippy::all)]

pub mod c01 {
    use std::cell::Cell;
    use std::collections::{HashMap, HashSet};
    use std::sync::OnceLock;

    pub fn uses_time() -> u64 {
        std::time::Instant::now().elapsed().as_secs()
    }

    pub fn uses_env() -> bool {
        std::env::var("X").is_ok()
    }

    pub fn uses_thread_id() -> bool {
        let _ = std::thread::current().id();
        true
    }

    pub fn uses_fs() -> bool {
        std::fs::read("x").is_ok()
    }

    static CACHE: OnceLock<f64> = OnceLock::new();

    pub fn memo(x: f64) -> f64 {
        *CACHE.get_or_init(|| x)
    }

    static mut COUNTER: u32 = 0;

    pub fn bump() -> u32 {
        unsafe {
            COUNTER += 1;
            COUNTER
        }
    }

    thread_local! {
        static SCRATCH: Cell<u32> = Cell::new(0);
    }

    pub fn tls() -> u32 {
        SCRATCH.with(|c| {
            c.set(c.get() + 1);
            c.get()
        })
    }

    pub fn hash_values(x: u64) -> u64 {
        use std::hash::{BuildHasher, Hash, Hasher};
        let s = std::collections::hash_map::RandomState::new();
        let mut h = s.build_hasher();
        x.hash(&mut h);
        h.finish()
    }

    // R2: order-sensitive hash iteration
    pub fn hash_order(m: HashMap<u64, f64>) -> Option<(u64, f64)> {
        m.into_iter().max_by(|a, b| a.1.total_cmp(&b.1))
    }

    pub fn hash_for_loop(m: &HashSet<u32>) -> u32 {
        let mut last = 0;
        for x in m {
            last = *x;
        }
        last
    }

    pub fn hash_first(m: &HashMap<u32, u32>) -> Option<u32> {
        m.keys().copied().next()
    }

    // R2 negative controls (must NOT be flagged)
    pub fn hash_count(m: &HashMap<u32, u32>) -> usize {
        m.values().filter(|v| **v > 3).count()
    }

    pub fn hash_lookup(m: &mut HashMap<u32, u32>, k: u32) -> u32 {
        *m.entry(k).or_default() += 1;
        m.len() as u32 + m.get(&k).copied().unwrap_or(0)
    }

    // R3: address observation
    pub fn addr_cmp(a: &f64, b: &f64) -> bool {
        (a as *const f64 as usize) < (b as *const f64 as usize)
    }

    pub fn ptr_order(a: *const u8, b: *const u8) -> bool {
        a < b
    }

    pub fn ptr_fmt(a: &u32) -> String {
        format!("{:p}", a)
    }

    // R4: interior mutability inside a map-like type, and const->mut cast
    pub struct HitObjectLike {
        pub start_time: f64,
        pub calls: Cell<u32>,
    }

    pub struct BeatmapLike {
        pub objects: Vec<HitObjectLike>,
        pub boxed: Box<std::sync::atomic::AtomicU32>,
    }

    pub fn cast_away_const(x: &u32) {
        let p = x as *const u32 as *mut u32;
        unsafe { *p = 1 };
    }

    pub fn cast_mut_method(x: &u32) {
        let p = (x as *const u32).cast_mut();
        unsafe { *p = 1 };
    }

    pub fn transmute_mut(x: &u32) -> &mut u32 {
        #[allow(mutable_transmutes)]
        unsafe {
            std::mem::transmute::<&u32, &mut u32>(x)
        }
    }

    // R5: PRNG seeded from something that is not an input
    pub struct Random(pub u32);
    impl Random {
        pub fn new(seed: i32) -> Self {
            Self(seed as u32)
        }
    }

    pub fn seeded_from_addr(x: &u32) -> Random {
        Random::new(x as *const u32 as usize as i32)
    }

    pub fn seeded_from_input(x: &u32) -> Random {
        Random::new(*x as i32 + 1337)
    }
}

pub mod c20 {
    use std::rc::Rc;
    pub struct Handle(pub *mut u8);
    unsafe impl Send for Handle {}
    unsafe impl Sync for Handle {}

    pub fn spawns() {
        std::thread::spawn(|| {}).join().ok();
    }

    pub struct NotSend {
        pub rc: Rc<u32>,
    }
}

pub mod util {
    pub mod strains_vec {
        pub mod inner {
            pub struct StrainsVec {
                pub inner: Vec<f64>,
            }
            impl StrainsVec {
                pub fn push(&mut self, v: f64) {
                    self.inner.push(v);
                }
                pub fn len(&self) -> usize {
                    self.inner.len()
                }
                pub fn retain_non_zero(&mut self) {
                    self.inner.retain(|v| *v != 0.0);
                }
                pub fn sort_desc(&mut self) {
                    self.inner.sort_by(|a, b| b.total_cmp(a));
                }
                pub fn retain_non_zero_and_sort(&mut self) {
                    self.retain_non_zero();
                    self.sort_desc();
                }
                pub unsafe fn transmute_into_vec(self) -> Vec<f64> {
                    self.inner
                }
            }
        }
    }
    pub mod sync {
        pub use inner::*;
        pub mod inner {
            use std::{cell::RefCell, rc::Rc};
            pub struct RefCount<T>(pub Rc<RefCell<T>>);
            pub type Ref<'a, T> = std::cell::Ref<'a, T>;
            pub type RefMut<'a, T> = std::cell::RefMut<'a, T>;
            impl<T> RefCount<T> {
                pub fn new(inner: T) -> Self {
                    Self(Rc::new(RefCell::new(inner)))
                }
                pub fn get(&self) -> Ref<'_, T> {
                    self.0.borrow()
                }
                pub fn get_mut(&self) -> RefMut<'_, T> {
                    self.0.borrow_mut()
                }
            }
        }
    }
}

pub mod c05 {
    use crate::util::sync::RefCount;

    pub struct Obj {
        pub v: u32,
        pub idx: usize,
    }

    // R2 positive: write guard requested while a read guard of the same type is live
    pub fn conflict_direct(a: &RefCount<Obj>, b: &RefCount<Obj>) -> u32 {
        let r = a.get();
        let mut w = b.get_mut();
        w.v += r.v;
        w.v
    }

    fn reads(o: &RefCount<Obj>) -> u32 {
        o.get().v
    }

    // R2 positive: callee acquires a read guard while the caller holds a write guard
    pub fn conflict_call(a: &RefCount<Obj>, b: &RefCount<Obj>) -> u32 {
        let mut w = a.get_mut();
        w.v = reads(b);
        w.v
    }

    // R2 positive: closure handed to an adaptor acquires W while R is live
    pub fn conflict_closure(a: &RefCount<Obj>, all: &[RefCount<Obj>]) {
        let r = a.get();
        all.iter().for_each(|o| o.get_mut().v = r.v);
    }

    // R2 negative: sequential scopes
    pub fn ok_sequential(a: &RefCount<Obj>, b: &RefCount<Obj>) -> u32 {
        let v = a.get().v;
        b.get_mut().v = v;
        let x = {
            let r = a.get();
            r.v
        };
        let mut w = a.get_mut();
        w.v = x;
        w.v
    }

    // R1 positive: f32 accumulator without progress guard
    pub fn f32_stall(start: i32, end: i32, spacing: f32) -> usize {
        let end = end as f32;
        let mut time = start as f32;
        let mut count = 0;
        while time <= end {
            time += spacing;
            count += 1;
        }
        count
    }

    // R1 negative: same loop with a progress guard
    pub fn f32_guarded(start: i32, end: i32, spacing: f32) -> usize {
        let end = end as f32;
        let mut time = start as f32;
        let mut count = 0;
        while time <= end {
            let next = time + spacing;
            if next <= time {
                break;
            }
            time = next;
            count += 1;
        }
        count
    }

    // R1 negative: f64 accumulator, and integer-bounded float loop
    pub fn f64_acc(end: f64, step: f64) -> usize {
        let mut t = step;
        let mut n = 0;
        while t < end {
            t += step;
            n += 1;
        }
        n
    }

    // R1 positive: shrink loop whose start value is not known to be finite
    pub fn shrink_unknown(mut x: f32) -> f32 {
        while x > 100.0 {
            x /= 2.0;
        }
        x
    }

    // R1 negative: shrink loop from an integer
    pub fn shrink_int(n: i32) -> f32 {
        let mut x = n as f32;
        while x > 100.0 {
            x /= 2.0;
        }
        x
    }
}

pub mod c11 {
    pub fn unchecked(v: &[u32], i: usize) -> u32 {
        unsafe { *v.get_unchecked(i) }
    }

    pub use crate::util::strains_vec::inner::StrainsVec;

    pub fn bad_typestate(mut peaks: StrainsVec, extra: f64) -> Vec<f64> {
        peaks.retain_non_zero_and_sort();
        if extra >= 0.0 {
            peaks.push(extra);
        }
        unsafe { peaks.transmute_into_vec() }
    }

    pub fn good_typestate(peaks: StrainsVec) -> Vec<f64> {
        let mut peaks = peaks;
        let _n = peaks.len();
        peaks.retain_non_zero();
        peaks.sort_desc();
        unsafe { peaks.transmute_into_vec() }
    }
}

pub mod c06 {
    pub fn unwraps(s: &str) -> i32 {
        s.parse::<i32>().unwrap()
    }

    pub fn panics(x: u32) -> u32 {
        if x > 3 {
            panic!("too large");
        }
        x
    }

    pub fn raw_unbounded(s: &str) -> Result<f64, std::num::ParseFloatError> {
        let v = s.trim().parse::<f64>()?;
        Ok(v * 2.0)
    }

    pub fn raw_bounded(s: &str) -> Result<f64, ()> {
        let v = s.trim().parse::<f64>().map_err(|_| ())?;
        if v < -1000.0 {
            return Err(());
        } else if v > 1000.0 {
            return Err(());
        }
        Ok(v.abs())
    }
}

pub mod c10 {
    /// run-length style list whose element count lives in a separate field that `retain_non_zero` does not maintain
    pub struct CompactVec {
        pub inner: Vec<f64>,
        pub len: usize,
    }
    impl CompactVec {
        pub fn push(&mut self, v: f64) {
            self.inner.push(v);
            self.len += 1;
        }
        pub fn len(&self) -> usize {
            self.len
        }
        pub fn retain_non_zero(&mut self) {
            self.inner.retain(|v| *v != 0.0);
        }
        pub fn retain_and_sort(&mut self) {
            self.retain_non_zero();
            self.inner.sort_by(|a, b| b.total_cmp(a));
        }
        pub fn into_vec(self) -> Vec<f64> {
            let mut out = Vec::with_capacity(self.len);
            out.extend(self.inner);
            out
        }
    }

    pub fn len_after_retain(mut peaks: CompactVec) -> usize {
        peaks.retain_and_sort();
        peaks.len().min(10)
    }

    pub fn len_before_retain(mut peaks: CompactVec) -> usize {
        let n = peaks.len();
        peaks.retain_and_sort();
        n + peaks.into_vec().len()
    }

    /// the shrunk list lives in a field: the stale count is observed by the NEXT call
    pub struct Carry {
        pub sorted: CompactVec,
    }
    impl Carry {
        pub fn step(&mut self, fresh: &[f64]) -> usize {
            let seen = self.sorted.len();
            for v in fresh.iter().skip(seen) {
                self.sorted.push(*v);
            }
            self.sorted.retain_and_sort();
            seen
        }
    }
}

// ---- C08-R5 control: the representation of the mods is looked at outside `model::mods`
pub mod model {
    pub mod mods {
        pub enum GameMods {
            Lazer(u64),
            Intermode(u32),
            Legacy(u32),
        }

        impl GameMods {
            /// inside the module: allowed
            pub fn rx(&self) -> bool {
                match self {
                    Self::Lazer(m) => m & 128 != 0,
                    Self::Intermode(m) | Self::Legacy(m) => m & 128 != 0,
                }
            }
        }
    }
}

pub mod c08 {
    use crate::model::mods::GameMods;

    /// must be reported: a calculator that branches on the representation itself
    pub fn peeks_at_representation(mods: &GameMods) -> bool {
        if let GameMods::Legacy(bits) = mods {
            return bits & 8192 != 0;
        }

        mods.rx()
    }

    /// negative control: asks through the accessor only
    pub fn asks_the_accessor(mods: &GameMods) -> bool {
        mods.rx()
    }
}
