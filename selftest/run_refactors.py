#!/usr/bin/env python3
"""False-alarm guard: behaviour-preserving edits must not be reported by any check."""
import concurrent.futures
import os
import re
import shutil
import subprocess
import sys

HERE = os.path.dirname(os.path.abspath(__file__))
VERIF = os.path.dirname(HERE)
sys.path.insert(0, HERE)
import run as mrun  # noqa: E402
from refactors import REFACTORS  # noqa: E402

ALL = ['C01', 'C02', 'C03', 'C04', 'C05', 'C06', 'C07', 'C08', 'C10', 'C11', 'C12', 'C14', 'C15', 'C16', 'C17', 'C18', 'C19', 'C20']


def run_one(rf):
    t, err = mrun.make_scratch(rf)
    if t is None:
        return dict(id=rf['id'], status='skipped', why=err)
    try:
        env = dict(os.environ, RPP_REPO=t, RPP_CACHE=os.path.join(t, '.cache'))
        alarms = []
        for p in (rf.get('props') or ALL):
            r = subprocess.run([os.path.join(VERIF, 'check'), p, '--tier', 'quick', '--no-evidence'], env=env, stdout=subprocess.PIPE,
                               stderr=subprocess.STDOUT, text=True, cwd=VERIF, timeout=900)
            if 'could not compile' in r.stdout or 'cargo check failed' in r.stdout:
                return dict(id=rf['id'], status='broken-refactor', why=r.stdout[-500:])
            for rule, key in re.findall(r'rule=(\S+) instance=(.*)', r.stdout):
                alarms.append('%s %s [%s]' % (p, rule, key[:100]))
        return dict(id=rf['id'], status='FALSE-ALARM' if alarms else 'silent', why='; '.join(alarms))
    finally:
        shutil.rmtree(t, ignore_errors=True)


if __name__ == '__main__':
    argv = sys.argv[1:]
    only_props = None
    if '--props' in argv:                      # --props C02,C03: run only these checks on every selected refactor (a guard run for newly added rules)
        i = argv.index('--props')
        only_props = argv[i + 1].split(',')
        argv = argv[:i] + argv[i + 2:]
    ids = argv
    rs = [r for r in REFACTORS if not ids or r['id'] in ids]
    if only_props:
        # a refactor registered for some properties only (a seed kept as the guard of OTHER properties) is not judged by the rest
        rs = [dict(r, props=[p for p in only_props if not r.get('props') or p in r['props']]) for r in rs]
        rs = [r for r in rs if r['props']]
    with concurrent.futures.ThreadPoolExecutor(max_workers=6) as ex:
        res = list(ex.map(run_one, rs))
    bad = 0
    for r in res:
        print('%-24s %-16s %s' % (r['id'], r['status'], r.get('why', '')[:400]))
        bad += r['status'] in ('FALSE-ALARM', 'broken-refactor')
    print('%d refactors: %d silent, %d false alarms / broken' % (len(res), sum(r['status'] == 'silent' for r in res), bad))
    sys.exit(1 if bad else 0)
