"""Behaviour-preserving edits: no check may report a violation on any of them (false-alarm guard).
Same format as mutants.py; `props` lists the checks to run (default: all)."""

R = []


def r(id, *edits, props=None, diff=None):
    R.append(dict(id=id, edits=list(edits), props=props, diff=diff))


# cmp::min -> Ord::min method form; closure -> explicit match
r('rf-min-method',
  ('src/mania/performance/mod.rs', "        let misses = self.misses.map_or(0, |n| cmp::min(n, n_objects));", "        let misses = match self.misses {\n            Some(n) => n.min(n_objects),\n            None => 0,\n        };"),
  ('src/catch/performance/mod.rs', "            cmp::min(combo, max_possible_combo)\n", "            combo.min(max_possible_combo)\n"),
  props=['C12'])
# struct update -> field assignment in a Difficulty setter, and the other way round in a Performance setter
r('rf-setter-style',
  ('src/any/difficulty/mod.rs', "    pub const fn hardrock_offsets(mut self, hardrock_offsets: bool) -> Self {\n        self.hardrock_offsets = Some(hardrock_offsets);\n\n        self\n    }",
   "    pub fn hardrock_offsets(self, hardrock_offsets: bool) -> Self {\n        Self {\n            hardrock_offsets: Some(hardrock_offsets),\n            ..self\n        }\n    }"),
  ('src/catch/performance/mod.rs', "    pub fn cs(mut self, cs: f32, with_mods: bool) -> Self {\n        self.difficulty = self.difficulty.cs(cs, with_mods);\n\n        self\n    }",
   "    pub fn cs(self, cs: f32, with_mods: bool) -> Self {\n        let difficulty = self.difficulty.cs(cs, with_mods);\n\n        Self { difficulty, ..self }\n    }"),
  props=['C18', 'C08', 'C12', 'C07'])
# extract the preprocessing into a helper used by all three mania entries
r('rf-extract-preprocess',
  ('src/mania/difficulty/mod.rs',
   "    let mut map = map.convert_ref(GameMode::Mania, difficulty.get_mods())?;\n\n    if difficulty.get_mods().ho() {\n        convert::apply_hold_off_to_beatmap(map.to_mut());\n    }\n\n    if difficulty.get_mods().invert() {\n        convert::apply_invert_to_beatmap(map.to_mut());\n    }\n\n    if let Some(seed) = difficulty.get_mods().random_seed() {\n        convert::apply_random_to_beatmap(map.to_mut(), seed);\n    }\n\n    let n_objects",
   "    let mut map = map.convert_ref(GameMode::Mania, difficulty.get_mods())?;\n    preprocess(difficulty, &mut map);\n\n    let n_objects"),
  ('src/mania/difficulty/mod.rs', "pub struct DifficultyValues {",
   "pub fn preprocess(difficulty: &Difficulty, map: &mut std::borrow::Cow<'_, Beatmap>) {\n    if difficulty.get_mods().ho() {\n        convert::apply_hold_off_to_beatmap(map.to_mut());\n    }\n\n    if difficulty.get_mods().invert() {\n        convert::apply_invert_to_beatmap(map.to_mut());\n    }\n\n    if let Some(seed) = difficulty.get_mods().random_seed() {\n        convert::apply_random_to_beatmap(map.to_mut(), seed);\n    }\n}\n\npub struct DifficultyValues {"),
  ('src/mania/strains.rs',
   "    if difficulty.get_mods().ho() {\n        convert::apply_hold_off_to_beatmap(map.to_mut());\n    }\n\n    if difficulty.get_mods().invert() {\n        convert::apply_invert_to_beatmap(map.to_mut());\n    }\n\n    if let Some(seed) = difficulty.get_mods().random_seed() {\n        convert::apply_random_to_beatmap(map.to_mut(), seed);\n    }\n",
   "    crate::mania::difficulty::preprocess(difficulty, &mut map);\n    let _ = convert::apply_random_to_beatmap;\n"),
  ('src/mania/difficulty/gradual.rs',
   "        if difficulty.get_mods().ho() {\n            convert::apply_hold_off_to_beatmap(map.to_mut());\n        }\n\n        if difficulty.get_mods().invert() {\n            convert::apply_invert_to_beatmap(map.to_mut());\n        }\n\n        if let Some(seed) = difficulty.get_mods().random_seed() {\n            convert::apply_random_to_beatmap(map.to_mut(), seed);\n        }\n",
   "        super::preprocess(&difficulty, &mut map);\n        let _ = convert::apply_random_to_beatmap;\n"),
  props=['C02', 'C07', 'C16', 'C14'])
# next/last via a local constant; len via method call syntax variations
r('rf-next-const',
  ('src/taiko/performance/gradual.rs', "        self.nth(state, 0)", "        const FIRST: usize = 0;\n\n        self.nth(state, FIRST)"),
  ('src/catch/performance/gradual.rs', "        self.nth(state, usize::MAX)", "        let all = usize::MAX;\n        self.nth(state, all)"),
  props=['C15', 'C03'])
# nth chain: bind intermediate values, reorder state/difficulty steps
r('rf-nth-bindings',
  ('src/mania/performance/gradual.rs',
   "        let performance = self\n            .difficulty\n            .nth(n)?\n            .performance()\n            .state(state)\n            .difficulty(self.difficulty.difficulty.clone())\n            .passed_objects(self.difficulty.idx as u32)\n            .calculate()\n            .expect(\"no conversion required\");",
   "        let attrs = self.difficulty.nth(n)?;\n        let settings = self.difficulty.difficulty.clone();\n        let idx = self.difficulty.idx as u32;\n        let calc = attrs.performance().difficulty(settings).state(state).passed_objects(idx);\n        let performance = calc.calculate().expect(\"no conversion required\");"),
  props=['C03', 'C15'])
# decoder: clamp through a helper closure-free function; sort call order swapped
r('rf-decode-order',
  ('src/model/beatmap/decode.rs', "        sorter.sort(&mut state.hit_objects);\n        sorter.sort(&mut state.hit_sounds);", "        sorter.sort(&mut state.hit_sounds);\n        sorter.sort(&mut state.hit_objects);"),
  ('src/model/beatmap/decode.rs', "        overall_difficulty = overall_difficulty.clamp(0.0, 10.0);\n        approach_rate = approach_rate.clamp(0.0, 10.0);", "        approach_rate = approach_rate.clamp(0.0, 10.0);\n        overall_difficulty = overall_difficulty.clamp(0.0, 10.0);"),
  props=['C06', 'C19'])
# convert_ref / convert_mut: both rewritten with match guards in the same order
r('rf-convert-both',
  ('src/model/beatmap/mod.rs',
   "        if self.mode == mode {\n            return Ok(Cow::Borrowed(self));\n        } else if self.is_convert {\n            return Err(ConvertError::AlreadyConverted);\n        } else if self.mode != GameMode::Osu {",
   "        if self.mode == mode {\n            return Ok(Cow::Borrowed(self));\n        }\n\n        if self.is_convert {\n            return Err(ConvertError::AlreadyConverted);\n        }\n\n        if self.mode != GameMode::Osu {"),
  props=['C07', 'C14'])
# banana shower: progress guard written the other way round
r('rf-guard-form',
  ('src/catch/object/banana_shower.rs', "                if next <= time {\n                    break;\n                }", "                if !(next > time) {\n                    break;\n                }"),
  props=['C05'])
# taiko convert: swap the order of the two lock-step removals / splices
r('rf-lockstep-order',
  ('src/taiko/convert.rs', "                        map.hit_objects.remove(idx);\n                        map.hit_sounds.remove(idx);", "                        map.hit_sounds.remove(idx);\n                        map.hit_objects.remove(idx);"),
  props=['C19', 'C06'])
# strains(): bind the skill before exporting
r('rf-strains-binding',
  ('src/mania/strains.rs', "    Ok(ManiaStrains {\n        strains: values.strain.into_current_strain_peaks().into_vec(),\n    })",
   "    let peaks = values.strain.into_current_strain_peaks();\n    let strains = peaks.into_vec();\n\n    Ok(ManiaStrains { strains })"),
  props=['C16', 'C07'])
# push(): positivity test written with explicit nesting instead of &&
r('rf-push-nested',
  ('src/util/strains_vec.rs', "            if likely(value.to_bits() > 0 && value.is_sign_positive()) {\n                // SAFETY: we just checked whether it's positive\n                self.inner.push(unsafe { StrainsEntry::new_value(value) });\n            } else if",
   "            let positive = value.is_sign_positive();\n            let non_zero = value.to_bits() > 0;\n\n            if likely(positive && non_zero) {\n                // SAFETY: we just checked whether it's positive\n                self.inner.push(unsafe { StrainsEntry::new_value(value) });\n            } else if"),
  props=['C11', 'C10'])
# builder: hit_windows() result bound under another name, ar/od computed after cs/hp swapped
r('rf-build-order',
  ('src/model/beatmap/attributes.rs', "        let hit_windows = self.hit_windows();\n        let HitWindows {\n            ar,\n            od_great,\n            od_ok: _,\n            od_meh: _,\n        } = hit_windows;",
   "        let windows = self.hit_windows();\n        let hit_windows = windows;\n        let ar = hit_windows.ar;\n        let od_great = hit_windows.od_great;"),
  props=['C17'])
# Performance enum: if-let instead of match for a two-way method
r('rf-dispatch-iflet',
  ('src/any/performance/mod.rs', "        match self {\n            Self::Osu(_) | Self::Taiko(_) | Self::Catch(_) => self,\n            Self::Mania(m) => Self::Mania(m.n320(n_geki)),\n        }",
   "        if let Self::Mania(m) = self {\n            Self::Mania(m.n320(n_geki))\n        } else {\n            self\n        }"),
  props=['C18', 'C07'])
# has-mod: reorder arms of the generated match
r('rf-hasmod-arm-order',
  ('src/model/mods.rs',
   "                    match self {\n                        Self::Lazer(ref mods) => {\n                            mods.contains_intermode(GameModIntermode::$name)\n                        },\n                        Self::Intermode(ref mods) => {\n                            mods.contains(GameModIntermode::$name)\n                        },\n                        Self::Legacy(_mods) => {\n                            impl_has_mod!(LEGACY $is_legacy $name _mods)\n                        },\n                    }",
   "                    match self {\n                        Self::Legacy(_mods) => {\n                            impl_has_mod!(LEGACY $is_legacy $name _mods)\n                        },\n                        Self::Intermode(ref mods) => {\n                            mods.contains(GameModIntermode::$name)\n                        },\n                        Self::Lazer(ref mods) => {\n                            mods.contains_intermode(GameModIntermode::$name)\n                        },\n                    }"),
  props=['C08'])
# a harmless private rename + moved function
r('rf-private-rename',
  ('src/mania/convert/mod.rs', "fn cmp_by_start_time(a: &HitObject, b: &HitObject) -> Ordering {", "fn by_time(a: &HitObject, b: &HitObject) -> Ordering {"),
  ('src/mania/convert/mod.rs', "    map.hit_objects.sort_by(cmp_by_start_time);\n    sort::osu_legacy(&mut map.hit_objects);", "    map.hit_objects.sort_by(by_time);\n    sort::osu_legacy(&mut map.hit_objects);"),
  ('src/mania/convert/mod.rs', "    map.hit_sounds.clear();\n    map.hit_objects.sort_by(cmp_by_start_time);\n}\n\npub(super) fn apply_invert", "    map.hit_sounds.clear();\n    map.hit_objects.sort_by(by_time);\n}\n\npub(super) fn apply_invert"),
  ('src/mania/convert/mod.rs', "    map.hit_objects = new_objects;\n    map.hit_sounds.clear();\n    map.hit_objects.sort_by(cmp_by_start_time);", "    map.hit_objects = new_objects;\n    map.hit_sounds.clear();\n    map.hit_objects.sort_by(by_time);"),
  props=['C19', 'C01'])

# control point insertion moved into a correct generic helper with a key function
r('rf-ctl-helper',
  ('src/model/beatmap/decode.rs',
   "    fn add(self, state: &mut BeatmapState) {\n        match state\n            .timing_points\n            .binary_search_by(|probe| probe.time.total_cmp(&self.time))\n        {\n            Err(i) => state.timing_points.insert(i, self),\n            Ok(i) => state.timing_points[i] = self,\n        }\n    }",
   "    fn add(self, state: &mut BeatmapState) {\n        insert_by_time(&mut state.timing_points, self, |point| point.time);\n    }"),
  ('src/model/beatmap/decode.rs', "// osu!taiko conversion mutates the list of effect points",
   "fn insert_by_time<P>(points: &mut Vec<P>, point: P, time: fn(&P) -> f64) {\n    let point_time = time(&point);\n\n    match points.binary_search_by(|probe| time(probe).total_cmp(&point_time)) {\n        Err(i) => points.insert(i, point),\n        Ok(i) => points[i] = point,\n    }\n}\n\n// osu!taiko conversion mutates the list of effect points"),
  props=['C06', 'C19'])


# the five mode-independent clamps applied where the value is parsed; the mode-dependent one (cs) stays where the mode is final
r('rf-clamp-while-parsing',
  ('src/model/beatmap/decode.rs', "        hp_drain_rate = hp_drain_rate.clamp(0.0, 10.0);\n", ""),
  ('src/model/beatmap/decode.rs', "        overall_difficulty = overall_difficulty.clamp(0.0, 10.0);\n        approach_rate = approach_rate.clamp(0.0, 10.0);\n\n        slider_multiplier = slider_multiplier.clamp(0.4, 3.6);\n        slider_tick_rate = slider_tick_rate.clamp(0.5, 8.0);\n", ""),
  ('src/model/beatmap/decode.rs', "            mut hp_drain_rate,\n            mut circle_size,\n            mut overall_difficulty,\n            mut approach_rate,\n            mut slider_multiplier,\n            mut slider_tick_rate,\n",
   "            hp_drain_rate,\n            mut circle_size,\n            overall_difficulty,\n            approach_rate,\n            slider_multiplier,\n            slider_tick_rate,\n"),
  ('src/model/beatmap/decode.rs', "            DifficultyKey::HPDrainRate => state.difficulty.hp_drain_rate = value.parse_num()?,",
   "            DifficultyKey::HPDrainRate => state.difficulty.hp_drain_rate = value.parse_num::<f32>()?.clamp(0.0, 10.0),"),
  ('src/model/beatmap/decode.rs', "                state.difficulty.overall_difficulty = value.parse_num()?;", "                state.difficulty.overall_difficulty = value.parse_num::<f32>()?.clamp(0.0, 10.0);"),
  ('src/model/beatmap/decode.rs', "                state.difficulty.approach_rate = value.parse_num()?;", "                state.difficulty.approach_rate = value.parse_num::<f32>()?.clamp(0.0, 10.0);"),
  ('src/model/beatmap/decode.rs', "                state.difficulty.slider_multiplier = f64::parse(value)?;", "                state.difficulty.slider_multiplier = f64::parse(value)?.clamp(0.4, 3.6);"),
  ('src/model/beatmap/decode.rs', "            DifficultyKey::SliderTickRate => state.difficulty.slider_tick_rate = f64::parse(value)?,",
   "            DifficultyKey::SliderTickRate => state.difficulty.slider_tick_rate = f64::parse(value)?.clamp(0.5, 8.0),"),
  props=['C06', 'C05'])
# the guards of convert_ref as one tuple match (same order of tests, same outcomes)
r('rf-convert-ref-tuple-match',
  ('src/model/beatmap/mod.rs', "        if self.mode == mode {\n            return Ok(Cow::Borrowed(self));\n        } else if self.is_convert {\n            return Err(ConvertError::AlreadyConverted);\n        } else if self.mode != GameMode::Osu {\n            return Err(ConvertError::Convert {\n                from: self.mode,\n                to: mode,\n            });\n        }\n\n        let mut map = self.to_owned();",
   "        match (self.mode, mode) {\n            (from, to) if from == to => return Ok(Cow::Borrowed(self)),\n            _ if self.is_convert => return Err(ConvertError::AlreadyConverted),\n            (GameMode::Osu, _) => {}\n            (from, to) => return Err(ConvertError::Convert { from, to }),\n        }\n\n        let mut map = self.to_owned();"),
  props=['C07', 'C14', 'C19', 'C04', 'C02'])

# catch nth rewritten with an absolute target index, the bound check on n kept in front of the addition
r('rf-nth-absolute-target',
  ('src/catch/difficulty/gradual.rs',
   "        let skip_iter = self.diff_objects.iter().skip(self.idx.saturating_sub(1));\n\n        let mut take = cmp::min(n, self.len().saturating_sub(1));\n\n        // The first palpable object has no difficulty object\n        if self.idx == 0 && take > 0 {\n            take -= 1;\n            self.attrs.add_object_count(self.count[self.idx]);\n            self.idx += 1;\n        }\n\n        for curr in skip_iter.take(take) {\n            self.movement.process(curr, &self.diff_objects);\n\n            self.attrs.add_object_count(self.count[self.idx]);\n            self.idx += 1;\n        }\n\n        self.next()",
   "        let target = self.idx + n;\n\n        for idx in self.idx..target {\n            if let Some(curr) = idx.checked_sub(1).map(|i| &self.diff_objects[i]) {\n                self.movement.process(curr, &self.diff_objects);\n            }\n\n            self.attrs.add_object_count(self.count[idx]);\n        }\n\n        self.idx = target;\n        let _ = cmp::min(0, 0);\n\n        self.next()"),
  props=['C15', 'C02', 'C05', 'C03'])

# hit_windows de-duplicated through ModsDependentKind::resolve (the correct version of seed C17-1: each slot keeps its own clock rate)
r('rf-resolve-helper',
  ('src/model/beatmap/attributes.rs', '        let ar_clock_rate = if self.ar.with_mods() { 1.0 } else { clock_rate };\n        let od_clock_rate = if self.od.with_mods() { 1.0 } else { clock_rate };\n\n        let mod_mult = |val: f32| {\n            if mods.hr() {\n                (val * 1.4).min(10.0)\n            } else if mods.ez() {\n                val * 0.5\n            } else {\n                val\n            }\n        };\n\n        let raw_ar = if self.ar.with_mods() {\n            self.ar.value(mods, GameMods::ar)\n        } else {\n            mod_mult(self.ar.value(mods, GameMods::ar))\n        };\n\n        let preempt = difficulty_range(f64::from(raw_ar), AR_WINDOWS) / ar_clock_rate;', '        let (raw_ar, ar_clock_rate) = self.ar.resolve(mods, GameMods::ar, clock_rate);\n        let (raw_od, od_clock_rate) = self.od.resolve(mods, GameMods::od, clock_rate);\n        let preempt = difficulty_range(raw_ar, AR_WINDOWS) / ar_clock_rate;'),
  ('src/model/beatmap/attributes.rs', '                let raw_od = if self.od.with_mods() {\n                    self.od.value(mods, GameMods::od)\n                } else {\n                    mod_mult(self.od.value(mods, GameMods::od))\n                };\n\n                let great = difficulty_range(f64::from(raw_od), OSU_GREAT) / od_clock_rate;\n                let ok = difficulty_range(f64::from(raw_od), OSU_OK) / od_clock_rate;\n                let meh = difficulty_range(f64::from(raw_od), OSU_MEH) / od_clock_rate;\n', '                let great = difficulty_range(raw_od, OSU_GREAT) / od_clock_rate;\n                let ok = difficulty_range(raw_od, OSU_OK) / od_clock_rate;\n                let meh = difficulty_range(raw_od, OSU_MEH) / od_clock_rate;\n'),
  ('src/model/beatmap/attributes.rs', '                let raw_od = if self.od.with_mods() {\n                    self.od.value(mods, GameMods::od)\n                } else {\n                    mod_mult(self.od.value(mods, GameMods::od))\n                };\n\n                let great = difficulty_range(f64::from(raw_od), TAIKO_GREAT) / od_clock_rate;\n                let ok = difficulty_range(f64::from(raw_od), TAIKO_OK) / od_clock_rate;\n', '                let great = difficulty_range(raw_od, TAIKO_GREAT) / od_clock_rate;\n                let ok = difficulty_range(raw_od, TAIKO_OK) / od_clock_rate;\n'),
  ('src/model/beatmap/attributes.rs', '            ModsDependentKind::Custom(inner) => inner.value,\n        }\n    }\n', '            ModsDependentKind::Custom(inner) => inner.value,\n        }\n    }\n\n    fn resolve(\n        &self,\n        mods: &GameMods,\n        mods_fn: impl Fn(&GameMods) -> Option<f64>,\n        clock_rate: f64,\n    ) -> (f64, f64) {\n        let value = self.value(mods, mods_fn);\n\n        if self.with_mods() {\n            (f64::from(value), 1.0)\n        } else if mods.hr() {\n            (f64::from((value * 1.4).min(10.0)), clock_rate)\n        } else if mods.ez() {\n            (f64::from(value * 0.5), clock_rate)\n        } else {\n            (f64::from(value), clock_rate)\n        }\n    }\n'),
  props=['C17', 'C08', 'C18'])


# ---- refactors written by independent sub-agents (three per property area; they saw the property text and a scratch worktree only).
# Each was required to be behaviour-preserving, to build in all four feature sets and to leave the suite unchanged; every check runs on each.
for _area in ('ADD', 'C01', 'C02', 'C03', 'C04', 'C05', 'C06', 'C07', 'C08', 'C10', 'C11', 'C12', 'C14', 'C15', 'C16', 'C17', 'C18', 'C19', 'C20'):
    for _i in (1, 2, 3, 4, 5, 6, 7, 8, 9, 10, 11, 12, 13, 14, 15, 16, 17, 18, 19, 20, 21):          # r1-r3: first round, r4-r6: second, r7-r9: third (each told what the earlier ones had done)
        import os as _os
        if _os.path.exists(_os.path.join(_os.path.dirname(_os.path.dirname(_os.path.abspath(__file__))), 'selftest/refactor_diffs/%s-r%d.diff' % (_area, _i))):
            r('agent-%s-r%d' % (_area, _i), diff='selftest/refactor_diffs/%s-r%d.diff' % (_area, _i))


# the same remainder written from the other side: (n_objects - misses) - (hits without misses)
r('rf-remainder-other-side',
  ('src/mania/performance/mod.rs', "                                        let remaining = n_objects - curr.total_hits();",
   "                                        let remaining = n_remaining - (curr.total_hits() - misses);"),
  ('src/osu/performance/mod.rs', "            let remaining = n_objects.saturating_sub(n300 + n100 + n50 + misses);",
   "            let remaining = n_remaining.saturating_sub(n300 + n100 + n50);"),
  props=['C12'])


# the helper extraction of seed C05-3 with the guard kept (correct version): start_column() tests the flag AND the free column
r('rf-start-column-helper',
  ('src/mania/convert/pattern_generator/path_object.rs', "        if self.convert_type.contains(PatternType::FORCE_NOT_STACK) {\n            self.find_available_column(column, None, &[self.prev_pattern])",
   "        if self.convert_type.contains(PatternType::FORCE_NOT_STACK) && self.prev_has_free_column() {\n            self.find_available_column(column, None, &[self.prev_pattern])"),
  diff='selftest/seed_diffs/C05-3.diff', props=['C05', 'C19', 'C01'])


# the whole refactor of seed C01-3 (shared clamp_combo helper, catch generate_state rebuilt around tuples) with its one slip repaired
r('rf-clamp-combo-helper',
  ('src/catch/performance/mod.rs', "            misses,\n        };\n\n        self.combo = Some(max_combo);", "            misses,\n        };\n\n        self.combo = Some(state.max_combo);"),
  diff='selftest/seed_diffs/C01-3.diff', props=['C12', 'C01', 'C18', 'C04', 'C03'])


# the refactor of seed C11-3 (ModsDependent::clamped, f64_to_non_zero_u64 helper, into_difficulty as one struct literal) with the clamp kept
r('rf-inspect-literal-clamped',
  ('src/any/difficulty/inspect.rs', "            clock_rate: clock_rate.map(f64_to_non_zero_u64),", "            clock_rate: clock_rate.map(|rate| f64_to_non_zero_u64(rate.clamp(0.01, 100.0))),"),
  diff='selftest/seed_diffs/C11-3.diff', props=['C11', 'C18', 'C08', 'C14'])

# the compact retain maintains its count (after it every entry is a value): len() may then be asked after the retain (C10-R6 discharges itself)
r('rf-retain-maintains-count',
  ('src/util/strains_vec.rs', "            self.inner.retain(|e| likely(e.is_value()));\n", "            self.inner.retain(|e| likely(e.is_value()));\n            self.len = self.inner.len();\n"),
  ('src/any/difficulty/skills.rs', "    peaks.retain_non_zero_and_sort();\n", "    peaks.retain_non_zero_and_sort();\n    debug_assert!(peaks.len() < usize::MAX);\n"),
  props=['C10', 'C11', 'C16'])

# the ManiaDifficultySetup refactor of seed C18-4 with the builder calls in the right order (.difficulty first, then the pinned key count)
r('rf-mania-setup-funnel-order',
  ('src/mania/difficulty/mod.rs', "            .cs(map.cs, true)\n            .difficulty(difficulty)\n", "            .difficulty(difficulty)\n            .cs(map.cs, true)\n"),
  diff='selftest/seed_diffs/C18-4.diff', props=['C18', 'C08', 'C17', 'C07', 'C02', 'C16'])

# next() feeds the osu skills through the container's process(), like the bulk step of nth() does
r('rf-next-uses-container-process',
  ('src/osu/difficulty/gradual.rs', "            self.skills.aim.process(curr, &self.diff_objects);\n            self.skills.aim_no_sliders.process(curr, &self.diff_objects);\n            self.skills.speed.process(curr, &self.diff_objects);\n            self.skills.flashlight.process(curr, &self.diff_objects);\n",
   "            self.skills.process(curr, &self.diff_objects);\n"),
  props=['C15', 'C16', 'C02', 'C03'])

# the merged bookkeeping of seed C14-4, correct: the match yields (duration, is_long) by KIND and one helper updates the counters
r('rf-mania-record-by-kind',
  ('src/mania/object.rs', "                params.max_combo += (duration / 100.0) as u32;\n                params.n_hold_notes += 1;\n\n                Self {\n                    start_time: h.start_time,\n                    end_time: h.start_time + duration,\n                    column,\n                }\n            }\n            HitObjectKind::Spinner",
   "                params.record(duration, true);\n\n                Self {\n                    start_time: h.start_time,\n                    end_time: h.start_time + duration,\n                    column,\n                }\n            }\n            HitObjectKind::Spinner"),
  ('src/mania/object.rs', "            | HitObjectKind::Hold(HoldNote { duration }) => {\n                params.max_combo += (duration / 100.0) as u32;\n                params.n_hold_notes += 1;\n",
   "            | HitObjectKind::Hold(HoldNote { duration }) => {\n                let is_long = true;\n                params.record(duration, is_long);\n"),
  ('src/mania/object.rs', "impl<'a> ObjectParams<'a> {", "impl<'a> ObjectParams<'a> {\n    fn record(&mut self, duration: f64, is_long: bool) {\n        if is_long {\n            self.max_combo += (duration / 100.0) as u32;\n            self.n_hold_notes += 1;\n        }\n    }\n"),
  props=['C14', 'C02', 'C05'])

# the FirstTwoCombos helper of seeds C01-5 / C02-5 / C03-5 / C14-5, correct: nth() asks it with the position reached, like next() does
r('rf-first-combos-helper-by-position',
  ('src/taiko/difficulty/gradual.rs', "self.first_combos.combo_after(skipped)", "self.first_combos.combo_after(self.idx)"),
  diff='selftest/seed_diffs/C02-5.diff', props=['C15', 'C02', 'C03', 'C14', 'C01', 'C11'])

# the shared NthAdvance plan of seed C15-3 with its slip repaired (first-object case keyed on idx == 0): the overshoot guard lives in a helper of another module
r('rf-nth-advance-plan',
  diff='selftest/seed_diffs/C15-3-corrected.diff', props=['C15', 'C02', 'C05', 'C03'])

# seed C14-6 with its slip repaired: the taiko counting closure called by hand right after each next(), before the early exits
r('rf-taiko-count-by-hand',
  diff='selftest/seed_diffs/C14-6-corrected.diff', props=['C14', 'C02', 'C12'])

REFACTORS = R

# seed C16-7 as a guard of C02-R8 / C03-R3: there the one-shot calculation AND the gradual next() go through the same conditional forwarder, so gradual == one-shot
# still holds (only C16 breaks) and neither C02 nor C03 may report it
r('rf-speed-skip-shared-by-both-paths', diff='selftest/seed_diffs/C16-7.diff', props=['C02', 'C03'])
