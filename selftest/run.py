#!/usr/bin/env python3
"""E5 — self-test mutants. Each mutant breaks exactly one rule instance and still compiles; the check of its
property must report a violation of the named rule whose instance key contains the expected text.

usage: selftest/run.py [--prop C07] [--id m-c07-r4] [--jobs 8] [--keep]
The scratch copies live under $TMPDIR (outside /repo and /verif) and are removed immediately."""
import argparse
import concurrent.futures
import json
import os
import re
import shutil
import subprocess
import sys
import tempfile

HERE = os.path.dirname(os.path.abspath(__file__))
VERIF = os.path.dirname(HERE)
sys.path.insert(0, HERE)
from mutants import MUTANTS  # noqa: E402

REPO = os.environ.get('RPP_REPO', '/repo')


def make_scratch(m):
    t = tempfile.mkdtemp(prefix='rppmut.')
    shutil.copytree(os.path.join(REPO, 'src'), os.path.join(t, 'src'))
    for f in ('Cargo.toml', 'Cargo.lock'):
        shutil.copy(os.path.join(REPO, f), os.path.join(t, f))
    if m.get('diff'):
        r = subprocess.run(['patch', '-p1', '-s', '-d', t, '-i', os.path.join(VERIF, m['diff'])], stdout=subprocess.PIPE, stderr=subprocess.STDOUT, text=True)
        if r.returncode != 0:
            shutil.rmtree(t, ignore_errors=True)
            return None, 'diff does not apply: ' + r.stdout[-300:]
    for rel, find, repl in m['edits']:
        p = os.path.join(t, rel)
        s = open(p).read()
        if s.count(find) < 1:
            shutil.rmtree(t, ignore_errors=True)
            return None, 'snippet not found in %s' % rel
        s = s.replace(find, repl, 1)
        open(p, 'w').write(s)
    return t, None


def run_one(m):
    t, err = make_scratch(m)
    if t is None:
        return dict(id=m['id'], status='skipped', why=err)
    try:
        env = dict(os.environ, RPP_REPO=t, RPP_CACHE=os.path.join(t, '.cache'))
        r = subprocess.run([os.path.join(VERIF, 'check'), m['property'], '--tier', 'quick', '--no-evidence'], env=env,
                           stdout=subprocess.PIPE, stderr=subprocess.STDOUT, text=True, cwd=VERIF, timeout=600)
        out = r.stdout
        failed = 'cargo check failed' in out or 'could not compile' in out
        if failed and m.get('expect_build_failure'):
            return dict(id=m['id'], status='caught', how='configuration does not build (C10-R1)')
        if failed:
            return dict(id=m['id'], status='broken-mutant', why='mutant does not compile: ' + out[-600:])
        hits = re.findall(r'rule=(\S+) instance=(.*)', out)
        want_rule = m['rule']
        want_key = m.get('key', '')
        got = [(r_, k) for r_, k in hits if r_ == want_rule and want_key in k]
        if got:
            return dict(id=m['id'], status='caught', how='%s %s' % got[0], others=len(hits) - len(got))
        return dict(id=m['id'], status='MISSED', why='expected %s [%s]; reported: %s' % (want_rule, want_key, hits[:6]), out=out[-800:])
    finally:
        shutil.rmtree(t, ignore_errors=True)


def run(props=None, ids=None, jobs=8):
    ms = [m for m in MUTANTS if (not props or m['property'] in props) and (not ids or m['id'] in ids)]
    with concurrent.futures.ThreadPoolExecutor(max_workers=jobs) as ex:
        return list(ex.map(run_one, ms))


if __name__ == '__main__':
    ap = argparse.ArgumentParser()
    ap.add_argument('--prop', action='append')
    ap.add_argument('--id', action='append')
    ap.add_argument('--jobs', type=int, default=8)
    a = ap.parse_args()
    res = run(a.prop, a.id, a.jobs)
    bad = 0
    for r in res:
        print('%-28s %-14s %s' % (r['id'], r['status'], r.get('how') or r.get('why') or ''))
        if r['status'] in ('MISSED', 'broken-mutant'):
            bad += 1
    print('%d mutants: %d caught, %d missed/broken, %d skipped' % (len(res), sum(r['status'] == 'caught' for r in res), bad,
                                                                     sum(r['status'] == 'skipped' for r in res)))
    sys.exit(1 if bad else 0)
