"""E5 self-test mutants: one broken instance per rule. Each entry: id, property, rule, key (substring of the reported
instance), edits = [(file relative to the repository, snippet to find, replacement)].  A mutant whose snippet is no
longer present is reported as skipped (never as a violation)."""

M = []


def m(id, prop, rule, key, *edits, **kw):
    M.append(dict(id=id, property=prop, rule=rule, key=key, edits=list(edits), **kw))


# ---- C01 ----------------------------------------------------------------------------------------------------
m('c01-r1-static-cache', 'C01', 'C01-R1', 'static', (
    'src/model/beatmap/mod.rs',
    "        bpm::bpm(self.hit_objects.last(), &self.timing_points)",
    "        static CACHE: std::sync::OnceLock<f64> = std::sync::OnceLock::new();\n"
    "        *CACHE.get_or_init(|| bpm::bpm(self.hit_objects.last(), &self.timing_points))"))
m('c01-r1-time', 'C01', 'C01-R1', 'time', (
    'src/util/random/osu.rs', "impl Random {", "impl Random {\n    #[allow(unused)]\n    pub fn reseed() -> u32 { std::time::Instant::now().elapsed().subsec_nanos() }\n"))
m('c01-r2-hash-order', 'C01', 'C01-R2', 'bpm', (
    'src/model/beatmap/bpm.rs',
    "        .durations\n        .iter()",
    "        .indices\n        .iter()\n        .map(|(k, v)| (f64::from_bits(*k), bpm_points.durations[*v].1))\n        .collect::<Vec<_>>()\n        .iter()"))
m('c01-r3-addr-tiebreak', 'C01', 'C01-R3', 'cmp_by_start_time', (
    'src/mania/convert/mod.rs',
    "    a.start_time.total_cmp(&b.start_time)\n}",
    "    a.start_time\n        .total_cmp(&b.start_time)\n        .then_with(|| (a as *const HitObject as usize).cmp(&(b as *const HitObject as usize)))\n}"))
m('c01-r4-cell-in-map', 'C01', 'C01-R4', 'deep', (
    'src/model/beatmap/mod.rs', "pub struct Beatmap {", "pub struct Beatmap {\n    #[doc(hidden)]\n    pub probe: std::cell::Cell<u32>,"),
    ('src/model/beatmap/mod.rs', "            version: LATEST_FORMAT_VERSION,\n            is_convert: false,", "            version: LATEST_FORMAT_VERSION,\n            probe: std::cell::Cell::new(0),\n            is_convert: false,"),
    ('src/model/beatmap/decode.rs', "            version: state.version,\n            is_convert: false,", "            version: state.version,\n            probe: std::cell::Cell::new(0),\n            is_convert: false,"))
m('c01-r5-seed-addr', 'C01', 'C01-R3', 'convert', (
    'src/catch/convert.rs', "Random::new(RNG_SEED)", "Random::new(RNG_SEED ^ (map as *const Beatmap as usize as i32))"))

# ---- C02 / C07 ----------------------------------------------------------------------------------------------
m('c02-r1-gradual-no-invert', 'C02', 'C02-R1b', 'mania:gradual_difficulty', (
    'src/mania/difficulty/gradual.rs',
    "        if difficulty.get_mods().invert() {\n            convert::apply_invert_to_beatmap(map.to_mut());\n        }\n", ""))
m('c07-r1-swap-guards', 'C07', 'C07-R1', 'convert_ref~convert_mut', (
    'src/model/beatmap/mod.rs',
    "    pub fn convert_mut(&mut self, mode: GameMode, mods: &GameMods) -> Result<(), ConvertError> {\n        if self.mode == mode {\n            return Ok(());\n        } else if self.is_convert {\n            return Err(ConvertError::AlreadyConverted);\n        } else if self.mode != GameMode::Osu {\n            return Err(ConvertError::Convert {\n                from: self.mode,\n                to: mode,\n            });\n        }",
    "    pub fn convert_mut(&mut self, mode: GameMode, mods: &GameMods) -> Result<(), ConvertError> {\n        if self.is_convert {\n            return Err(ConvertError::AlreadyConverted);\n        } else if self.mode == mode {\n            return Ok(());\n        } else if self.mode != GameMode::Osu {\n            return Err(ConvertError::Convert {\n                from: self.mode,\n                to: mode,\n            });\n        }"))
m('c07-r2-unconverted', 'C07', 'C07-R2', 'catch:strains', (
    'src/catch/strains.rs',
    "    let DifficultyValues { movement, .. } = DifficultyValues::calculate(difficulty, &map);",
    "    let _ = &map;\n    let DifficultyValues { movement, .. } = DifficultyValues::calculate(difficulty, map_);"),
    ('src/catch/strains.rs', "pub fn strains(difficulty: &Difficulty, map: &Beatmap)", "pub fn strains(difficulty: &Difficulty, map_: &Beatmap)"),
    ('src/catch/strains.rs', "    let map = map.convert_ref(GameMode::Catch", "    let map = map_.convert_ref(GameMode::Catch"))
m('c07-r2-wrong-mode', 'C07', 'C07-R2', 'taiko:strains', (
    'src/taiko/strains.rs', "map.convert_ref(GameMode::Taiko, difficulty.get_mods())", "map.convert_ref(GameMode::Osu, difficulty.get_mods())"))
m('c07-r3-wrong-arm', 'C07', 'C07-R3', 'calculate:Catch', (
    'src/any/difficulty/mod.rs',
    "            GameMode::Catch => DifficultyAttributes::Catch(\n                Catch::difficulty(self, map).expect(\"no conversion required\"),\n            ),\n            GameMode::Mania => DifficultyAttributes::Mania(\n                Mania::difficulty(self, map).expect(\"no conversion required\"),\n            ),",
    "            GameMode::Mania => DifficultyAttributes::Catch(\n                Catch::difficulty(self, map).expect(\"no conversion required\"),\n            ),\n            GameMode::Catch => DifficultyAttributes::Mania(\n                Mania::difficulty(self, map).expect(\"no conversion required\"),\n            ),"))
m('c07-r4-strains-no-random', 'C07', 'C07-R4', 'taiko:strains', (
    'src/taiko/strains.rs',
    "    if let Some(seed) = difficulty.get_mods().random_seed() {\n        convert::apply_random_to_beatmap(map.to_mut(), seed);\n    }\n", "    let _ = &mut map;\n    let _ = convert::apply_random_to_beatmap;\n"))
m('c07-r5-default-difficulty', 'C07', 'C07-R5', 'catch:difficulty', (
    'src/catch/performance/mod.rs',
    "            map_or_attrs: MapOrAttrs::Map(map),\n            difficulty,\n            acc,\n            combo,\n            fruits: n300,",
    "            map_or_attrs: MapOrAttrs::Map(map),\n            difficulty: { let _ = difficulty; Difficulty::new() },\n            acc,\n            combo,\n            fruits: n300,"))
m('c07-r5-swapped-results', 'C07', 'C07-R5', 'catch:', (
    'src/catch/performance/mod.rs', "            fruits: n300,\n            droplets: n100,", "            fruits: n100,\n            droplets: n300,"))

m('c02-r2-gradual-hr-offsets', 'C02', 'C02-R2', 'catch:-get_hardrock_offsets', (
    'src/catch/difficulty/gradual.rs', "        let hr_offsets = difficulty.get_hardrock_offsets();", "        let hr_offsets = difficulty.get_mods().hr();"))
m('c16-r5-strains-extra-setting', 'C16', 'C16-R5', 'mania:settings', (
    'src/mania/strains.rs', "    let values = DifficultyValues::calculate(difficulty, &map);", "    let _scale = if difficulty.get_lazer() { 1.0 } else { 1.0 };\n    let values = DifficultyValues::calculate(difficulty, &map);"))

m('c02-r4-roundtrip', 'C02', 'C02-R4', 'ManiaDifficultyObject.end_time', (
    'src/mania/difficulty/gradual.rs', "impl ExactSizeIterator for ManiaGradualDifficulty {",
    "#[allow(unused)]\nfn long_note_ticks(diff_obj: &ManiaDifficultyObject, clock_rate: f64) -> u32 {\n    ((diff_obj.end_time * clock_rate - diff_obj.start_time * clock_rate) / 100.0) as u32\n}\n\nimpl ExactSizeIterator for ManiaGradualDifficulty {"))
m('c02-r3-second-formula', 'C02', 'C02-R3', 'mania NoteState', (
    'src/mania/difficulty/gradual.rs', "                NoteState {\n                    curr_combo: count_params.max_combo(),", "                NoteState {\n                    curr_combo: count_params.max_combo().min(u32::MAX - 1) + h.is_circle() as u32 * 0 + 1 - 1,"), allow_miss=True)

# ---- C03 / C04 ----------------------------------------------------------------------------------------------
m('c03-r2-drop-state', 'C03', 'C03-R2', 'taiko:nth:state', (
    'src/taiko/performance/gradual.rs', "            .state(state)\n", "            .state(TaikoScoreState { misses: state.misses, ..Default::default() })\n"))
m('c03-r2-drop-difficulty', 'C03', 'C03-R2', 'mania:nth:setting:lazer', (
    'src/mania/performance/gradual.rs', "            .difficulty(self.difficulty.difficulty.clone())\n", "            .mods(self.difficulty.difficulty.get_mods().clone())\n"))
m('c03-r2-wrong-n', 'C03', 'C03-R2', 'catch:nth:inner', (
    'src/catch/performance/gradual.rs', "            .nth(n)?", "            .nth(n.saturating_sub(0).min(usize::MAX - 1))?"))
m('c04-r1-default-difficulty', 'C04', 'C04-R1', 'mania:generate_state', (
    'src/mania/performance/mod.rs',
    "                let attrs = self.difficulty.calculate_for_mode::<Mania>(map)?;\n\n                self.map_or_attrs.insert_attrs(attrs)",
    "                let attrs = Difficulty::new().calculate_for_mode::<Mania>(map)?;\n\n                self.map_or_attrs.insert_attrs(attrs)"))
m('c04-r2-rescale', 'C04', 'C04-R2', 'taiko', (
    'src/taiko/performance/calculator.rs', "            difficulty: self.attrs,", "            difficulty: TaikoDifficultyAttributes { stars: self.attrs.stars * 1.0000001, ..self.attrs },"))
m('c04-r3-lossy-into', 'C04', 'C04-R3', 'MapOrAttrs', (
    'src/util/map_or_attrs.rs', "                    Self::Attrs(attrs.difficulty)", "                    Self::Attrs({ let mut d = attrs.difficulty; d.stars += 0.0; d })"))

m('c02-r5-truncated-lookahead', 'C02', 'C02-R5', 'osu:lookahead', (
    'src/osu/difficulty/mod.rs', "        let osu_object_iter = osu_objects.iter_mut().map(Pin::new);",
    "        let osu_object_iter = osu_objects.iter_mut().take(take).map(Pin::new);"))
m('c04-r3-map-early-convert', 'C04', 'C04-R3', 'map-into', (
    'src/any/performance/into.rs',
    "            impl<'a> IntoModePerformance<'a, mode!()> for Beatmap {\n                fn into_performance(self) -> <mode!() as IGameMode>::Performance<'a> {\n",
    "            impl<'a> IntoModePerformance<'a, mode!()> for Beatmap {\n                fn into_performance(mut self) -> <mode!() as IGameMode>::Performance<'a> {\n                    let _ = self.convert_mut(GameMode::$mode, &crate::GameMods::DEFAULT);\n"))

# ---- C05 / C10-R3 -------------------------------------------------------------------------------------------
m('c05-r1-no-guard', 'C05', 'C05-R1', 'BananaShower::new:time', (
    'src/catch/object/banana_shower.rs',
    "                if next <= time {\n                    break;\n                }\n", ""))
m('c05-r1-f32-tiny', 'C05', 'C05-R1', 'JuiceStream', (
    'src/catch/object/juice_stream.rs', "                    let mut t = time_between_tiny;\n\n                    while t < since_last_tick {",
    "                    let mut t = time_between_tiny as f32;\n                    let since_last_tick_ = since_last_tick as f32;\n                    let step = time_between_tiny as f32;\n\n                    while t < since_last_tick_ {"),
    ('src/catch/object/juice_stream.rs', "                        t += time_between_tiny;", "                        t += step;"))
m('c05-r2-guard-overlap', 'C05', 'C05-R2', 'process_and_assign', (
    'src/taiko/difficulty/color/preprocessor.rs',
    "                {\n                    let mut mono_pattern = mono_pattern.get_mut();\n                    mono_pattern.parent = Some(RefCount::downgrade(&repeating_hit_pattern));\n                    mono_pattern.idx = i;\n                }\n\n                let mono_streaks",
    "                let mut mono_pattern_w = mono_pattern.get_mut();\n                mono_pattern_w.parent = Some(RefCount::downgrade(&repeating_hit_pattern));\n                mono_pattern_w.idx = i;\n\n                let mono_streaks"))

# ---- C06 ----------------------------------------------------------------------------------------------------
m('c06-r1-raw-parse', 'C06', 'C06-R1', 'raw-parse', (
    'src/model/beatmap/decode.rs', "        let start_time = f64::parse(start_time)?;\n        let hit_object_type",
    "        let start_time = start_time.trim().parse::<f64>().map_err(ParseNumberError::InvalidFloat)?;\n        let hit_object_type"))
m('c06-r2-no-clamp', 'C06', 'C06-R2', 'beatmap:slider_multiplier', (
    'src/model/beatmap/decode.rs', "        slider_multiplier = slider_multiplier.clamp(0.4, 3.6);", "        slider_multiplier = slider_multiplier.max(0.4);"))
m('c06-r3-one-sort', 'C06', 'C06-R3', 'tandem-sort', (
    'src/model/beatmap/decode.rs', "        sorter.sort(&mut state.hit_objects);\n        sorter.sort(&mut state.hit_sounds);",
    "        sorter.sort(&mut state.hit_objects);\n        let _ = &mut state.hit_sounds;"))
m('c06-r4-direct-push', 'C06', 'C06-R4', 'effect_points', (
    'src/model/beatmap/decode.rs', "        self.add(&mut state.effect_points);", "        state.effect_points.push(self);"))
m('c06-r5-unwrap', 'C06', 'C06-R5', 'unwrap', (
    'src/model/beatmap/decode.rs', "            let repeats = repeat_count.parse_num::<i32>()?;", "            let repeats = repeat_count.parse_num::<i32>().unwrap();"))
m('c06-r6-trim', 'C06', 'C06-R6', 'from_str', (
    'src/model/beatmap/mod.rs', "        rosu_map::from_str(s)", "        rosu_map::from_str(s.trim_start_matches('\\u{feff}'))"))

# ---- C08 ----------------------------------------------------------------------------------------------------
m('c08-r1-keys', 'C08', 'C08-R1', 'mania_keys:Lazer:SixKeys', (
    'src/model/mods.rs',
    "                } else if mods.contains_intermode(GameModIntermode::SixKeys) {\n                    Some(6.0)",
    "                } else if mods.contains_intermode(GameModIntermode::SixKeys) {\n                    Some(5.0)"))
m('c08-r1-legacy-false', 'C08', 'C08-R1', 'has:hr', (
    'src/model/mods.rs', "    hr: + HardRock [\"HardRock\"],", "    hr: - HardRock [\"HardRock\"],"))
m('c08-r1-mismatch', 'C08', 'C08-R1', 'has:ez', (
    'src/model/mods.rs',
    "                        Self::Intermode(ref mods) => {\n                            mods.contains(GameModIntermode::$name)\n                        },",
    "                        Self::Intermode(ref mods) => {\n                            if stringify!($name) == \"Easy\" { mods.contains(GameModIntermode::HardRock) } else { mods.contains(GameModIntermode::$name) }\n                        },"),
  allow_miss=True)
m('c08-r2-direct-rate', 'C08', 'C08-R2', 'clock_rate-caller', (
    'src/catch/difficulty/mod.rs', "        let clock_rate = difficulty.get_clock_rate();", "        let clock_rate = difficulty.get_mods().clock_rate();"))

# ---- C10 ----------------------------------------------------------------------------------------------------
m('c10-r1-rename-raw', 'C10', 'C10-R1', '', (
    'src/util/strains_vec.rs', "        pub fn sum(&self) -> f64 {\n            self.inner.iter().copied().sum()",
    "        pub fn total(&self) -> f64 {\n            self.inner.iter().copied().sum()"), expect_build_failure=True)
m('c10-r2-cfg-elsewhere', 'C10', 'C10-R2', 'differs', (
    'src/taiko/difficulty/mod.rs', "        stamina_peak /= if is_convert || is_relax { 1.5 } else { 1.0 };",
    "        stamina_peak /= if is_convert || is_relax { 1.5 } else { 1.0 };\n        if cfg!(feature = \"sync\") {\n            stamina_peak *= 1.0000001;\n        }"))

m('c10-r4-raw-push', 'C10', 'C10-R4', 'push:raw_strains', (
    'src/util/strains_vec.rs', "            if value.to_bits() > 0 && value.is_sign_positive() {\n                self.inner.push(value);\n            } else {\n                self.inner.push(0.0);\n            }",
    "            self.inner.push(value);"))

# ---- C11 ----------------------------------------------------------------------------------------------------
m('c11-r1-no-retain', 'C11', 'C11-R1', 'difficulty_value:transmute_into_vec', (
    'src/any/difficulty/skills.rs', "    peaks.retain_non_zero_and_sort();\n", "    peaks.sort_desc();\n"))
m('c11-r2-half-guard', 'C11', 'C11-R2', 'push:new_value', (
    'src/util/strains_vec.rs', "            if likely(value.to_bits() > 0 && value.is_sign_positive()) {", "            if likely(value.to_bits() > 0) {"))
m('c11-r4-mutate-owner', 'C11', 'C11-R4', 'owner', (
    'src/osu/difficulty/gradual.rs',
    "    fn nth(&mut self, n: usize) -> Option<Self::Item> {",
    "    fn nth(&mut self, n: usize) -> Option<Self::Item> {\n        if n == usize::MAX - 7 {\n            self.osu_objects = OsuObjects::new(Box::default());\n        }"))
m('c11-r4-clone', 'C11', 'C11-R4', 'not-clone', (
    'src/taiko/difficulty/gradual.rs', "#[derive(Copy, Clone, Debug)]\nenum FirstTwoCombos {",
    "impl Clone for TaikoGradualDifficulty {\n    fn clone(&self) -> Self {\n        unimplemented!()\n    }\n}\n\n#[derive(Copy, Clone, Debug)]\nenum FirstTwoCombos {"))
m('c11-r5-early-return', 'C11', 'C11-R5', 'point_split:clear', (
    'src/model/beatmap/decode.rs', "        let res = f(self, point_split);\n        self.point_split.clear();\n\n        res",
    "        let res = f(self, point_split);\n        if self.point_split.len() > 4096 {\n            return res;\n        }\n        self.point_split.clear();\n\n        res"))
m('c11-r6-zero-clamp', 'C11', 'C11-R6', 'clock_rate:new_unchecked', (
    'src/any/difficulty/mod.rs', "        let clock_rate = clock_rate.clamp(0.01, 100.0).to_bits();", "        let clock_rate = clock_rate.clamp(0.0, 100.0).to_bits();"))
m('c11-r0-new-unsafe', 'C11', 'C11-R0', 'get_unchecked', (
    'src/util/sort/tandem.rs', "impl TandemSorter {", "impl TandemSorter {\n    #[allow(unused)]\n    fn first(&self) -> usize { unsafe { *self.indices.get_unchecked(0) } }\n"))

# ---- C12 ----------------------------------------------------------------------------------------------------
m('c12-r1-default-state', 'C12', 'C12-R1', 'catch:calculate', (
    'src/catch/performance/mod.rs', "        let state = self.generate_state()?;\n\n        let attrs = match self.map_or_attrs {\n            MapOrAttrs::Attrs(attrs) => attrs,",
    "        let state = self.generate_state()?;\n        let state = CatchScoreState { max_combo: state.max_combo.saturating_add(0), ..state };\n\n        let attrs = match self.map_or_attrs {\n            MapOrAttrs::Attrs(attrs) => attrs,"))
m('c12-r2-no-min', 'C12', 'C12-R2', 'mania:misses', (
    'src/mania/performance/mod.rs', "        let misses = self.misses.map_or(0, |n| cmp::min(n, n_objects));", "        let misses = self.misses.map_or(0, |n| n + 0 * n_objects);"))
m('c12-r3-no-clamp', 'C12', 'C12-R3', 'catch:max_combo', (
    'src/catch/performance/mod.rs', "            cmp::min(combo, max_possible_combo)\n", "            combo + 0 * max_possible_combo\n"))
m('c12-r4-wrong-field', 'C12', 'C12-R4', 'mania:n200', (
    'src/any/score_state.rs', "            n_geki: state.n320,\n            n_katu: state.n200,", "            n_geki: state.n320,\n            n_katu: state.n100,"))
m('c12-r5-swapped-state', 'C12', 'C12-R5', 'osu:n', (
    'src/osu/performance/mod.rs', "        self.n100 = Some(n100);\n        self.n50 = Some(n50);\n        self.misses = Some(misses);\n\n        self\n    }",
    "        self.n100 = Some(n50);\n        self.n50 = Some(n100);\n        self.misses = Some(misses);\n\n        self\n    }"))

# ---- C14 ----------------------------------------------------------------------------------------------------
m('c14-r1-false', 'C14', 'C14-R1', 'taiko', (
    'src/taiko/difficulty/gradual.rs', "            is_convert: map.is_convert,\n            ..Default::default()", "            is_convert: false,\n            ..Default::default()"))
m('c14-r2-forget', 'C14', 'C14-R2', 'catch', (
    'src/catch/convert.rs', "    map.mode = GameMode::Catch;\n    map.is_convert = true;", "    map.mode = GameMode::Catch;"))

m('c14-r3-spinner-as-circle', 'C14', 'C14-R3', 'increment_combo', (
    'src/osu/difficulty/gradual.rs', "            OsuObjectKind::Spinner { .. } => attrs.n_spinners += 1,", "            OsuObjectKind::Spinner { .. } => attrs.n_circles += 1,"))
m('c14-r3-sibling-combo', 'C14', 'C14-R3', 'siblings', (
    'src/osu/convert.rs', "                    attrs.max_combo += slider.nested_objects.len() as u32;", "                    attrs.max_combo += (slider.nested_objects.len() as u32).saturating_sub(1);"))

# ---- C15 ----------------------------------------------------------------------------------------------------
m('c15-r1-last', 'C15', 'C15-R1', 'ManiaGradualPerformance::last', (
    'src/mania/performance/gradual.rs', "        self.nth(state, usize::MAX)", "        self.nth(state, usize::MAX - 1)"))
m('c15-r1-next', 'C15', 'C15-R1', 'GradualPerformance::next', (
    'src/any/performance/gradual.rs', "        self.nth(state, 0)", "        self.nth(state, 1)"))
m('c15-r2-wrong-method', 'C15', 'C15-R2', 'GradualDifficulty::nth:Mania', (
    'src/any/difficulty/gradual.rs', "            GradualDifficulty::Mania(gradual) => gradual.nth(n).map(DifficultyAttributes::Mania),\n        }\n    }\n}\n\nimpl ExactSizeIterator",
    "            GradualDifficulty::Mania(gradual) => { let _ = n; gradual.next().map(DifficultyAttributes::Mania) }\n        }\n    }\n}\n\nimpl ExactSizeIterator"))
m('c15-r3-size-hint', 'C15', 'C15-R3', 'osu:size_hint', (
    'src/osu/difficulty/gradual.rs', "        (len, Some(len))", "        (len, None)"))

m('c15-r4-len-empty', 'C15', 'C15-R4', 'osu:len-empty', (
    'src/osu/difficulty/gradual.rs', "        if self.osu_objects.is_empty() {\n            // No hit objects means no attributes\n            0\n        } else {\n            self.diff_objects.len() + 1 - self.idx\n        }",
    "        self.diff_objects.len() + 1 - self.idx"))
m('c15-r5-nth-clamp', 'C15', 'C15-R5', 'catch:nth-beyond', (
    'src/catch/difficulty/gradual.rs', "        if n >= self.len() {\n            while self.next().is_some() {}\n\n            return None;\n        }\n\n", ""))
m('c15-r6-len-collection', 'C15', 'C15-R6', 'mania:len-collection', (
    'src/mania/difficulty/gradual.rs', "            self.diff_objects.len() + 1 - self.idx\n        }", "            self.note_states.len() - self.idx\n        }"))

# ---- C16 ----------------------------------------------------------------------------------------------------
m('c16-r1-rename-shadow', 'C16', 'C16-R1', 'Movement:section-length', (
    'src/catch/difficulty/skills/movement.rs', "    const SECTION_LENGTH: f64 = 750.0;", "    #[allow(unused)]\n    const SECTION_LEN: f64 = 750.0;"))
m('c16-r1-published', 'C16', 'C16-R1', 'section', (
    'src/taiko/strains.rs', "    pub const SECTION_LEN: f64 = 400.0;", "    pub const SECTION_LEN: f64 = 500.0;"))
m('c16-r2-no-open-section', 'C16', 'C16-R2', 'into_current_strain_peaks', (
    'src/util/macros.rs',
    "            fn into_current_strain_peaks(self) -> StrainsVec {\n                Self::get_current_strain_peaks(\n                    self.strain_skill_strain_peaks,\n                    self.strain_skill_current_section_peak,\n                )\n            }",
    "            fn into_current_strain_peaks(self) -> StrainsVec {\n                self.strain_skill_strain_peaks\n            }"))
m('c16-r3-strains-no-holdoff', 'C16', 'C16-R3', 'mania:strains', (
    'src/mania/strains.rs', "    if difficulty.get_mods().ho() {\n        convert::apply_hold_off_to_beatmap(map.to_mut());\n    }\n", ""))

m('c16-r6-own-sectioning', 'C16', 'C16-R6', 'osu:Flashlight', (
    'src/osu/difficulty/skills/flashlight.rs', "impl Flashlight {", "impl Flashlight {\n    #[allow(unused)]\n    const SECTION_LENGTH: i32 = 200;\n"), allow_miss=True)

# ---- C17 ----------------------------------------------------------------------------------------------------
m('c17-r1-second-hit-windows', 'C17', 'C17-R1', 'build', (
    'src/model/beatmap/attributes.rs', "        let hit_windows = self.hit_windows();\n        let HitWindows {",
    "        let hit_windows = Self { clock_rate: Some(clock_rate * 1.0000001), ..self.clone() }.hit_windows();\n        let HitWindows {"))
m('c17-r2-wrong-window', 'C17', 'C17-R2', 'osu:ok_hit_window', (
    'src/osu/difficulty/mod.rs', "            ok_hit_window: map_attrs.hit_windows.od_ok.unwrap_or(0.0),", "            ok_hit_window: map_attrs.hit_windows.od_meh.unwrap_or(0.0),"))
m('c17-r3-wrong-getter', 'C17', 'C17-R3', 'difficulty:cs', (
    'src/model/beatmap/attributes.rs', "            cs: difficulty\n                .get_cs()", "            cs: difficulty\n                .get_hp()"))
m('c17-r4-od-into-ar', 'C17', 'C17-R4', 'od', (
    'src/model/beatmap/attributes.rs', "        self.od = ModsDependentKind::Custom(ModsDependent {\n            value: od,", "        self.ar = ModsDependentKind::Custom(ModsDependent {\n            value: od,"))

# ---- C18 ----------------------------------------------------------------------------------------------------
m('c18-r1-wrong-setter', 'C18', 'C18-R1', 'catch:cs', (
    'src/catch/performance/mod.rs', "        self.difficulty = self.difficulty.cs(cs, with_mods);", "        self.difficulty = self.difficulty.ar(cs, with_mods);"))
m('c18-r1-negated-flag', 'C18', 'C18-R1', 'osu:ar', (
    'src/osu/performance/mod.rs', "        self.difficulty = self.difficulty.ar(ar, with_mods);", "        self.difficulty = self.difficulty.ar(ar, !with_mods);"))
m('c18-r2-noop-arm', 'C18', 'C18-R2', 'od:Taiko', (
    'src/any/performance/mod.rs', "            Self::Taiko(t) => Self::Taiko(t.od(od, with_mods)),", "            Self::Taiko(_) => self,"), allow_skip=True)
m('c18-r3-wrong-clamp', 'C18', 'C18-R3', 'hp:doc', (
    'src/any/difficulty/mod.rs', "                value: hp.clamp(-20.0, 20.0),", "                value: hp.clamp(-10.0, 10.0),"))
m('c18-r4-skip-lazer', 'C18', 'C18-R4', 'into:lazer', (
    'src/any/difficulty/inspect.rs', "        if let Some(lazer) = lazer {\n            difficulty = difficulty.lazer(lazer);\n        }\n", "        let _ = lazer;\n"))
m('c18-r5-wrong-slot', 'C18', 'C18-R5', 'cs', (
    'src/any/difficulty/mod.rs', "            cs: Some(ModsDependent {\n                value: cs.clamp(-20.0, 20.0),", "            od: Some(ModsDependent {\n                value: cs.clamp(-20.0, 20.0),"))

# ---- C19 ----------------------------------------------------------------------------------------------------
m('c19-r1-clear-sounds', 'C19', 'C19-R1', 'catch-convert', (
    'src/catch/convert.rs', "pub const fn convert(map: &mut Beatmap) {\n    map.mode = GameMode::Catch;", "pub fn convert(map: &mut Beatmap) {\n    map.hit_sounds.clear();\n    map.mode = GameMode::Catch;"))
m('c19-r2-no-sound-remove', 'C19', 'C19-R2', 'taiko:', (
    'src/taiko/convert.rs', "                        map.hit_objects.remove(idx);\n                        map.hit_sounds.remove(idx);", "                        map.hit_objects.remove(idx);"))
m('c19-r3-no-sort', 'C19', 'C19-R3', 'apply_invert_to_beatmap', (
    'src/mania/convert/mod.rs', "    map.hit_objects = new_objects;\n    map.hit_sounds.clear();\n    map.hit_objects.sort_by(cmp_by_start_time);", "    map.hit_objects = new_objects;\n    map.hit_sounds.clear();"))
m('c19-r4-push-effect', 'C19', 'C19-R4', 'effect_points', (
    'src/taiko/convert.rs', "                    effect_point.add(&mut map.effect_points);", "                    map.effect_points.push(effect_point);"))

# ---- C20 ----------------------------------------------------------------------------------------------------
m('c20-r1-thread-local', 'C20', 'C20-R1', 'thread', (
    'src/osu/object.rs', "impl OsuObject {", "thread_local! {\n    static SCRATCH: std::cell::RefCell<Vec<f32>> = std::cell::RefCell::new(Vec::new());\n}\n\n#[allow(unused)]\nfn scratch_len() -> usize { SCRATCH.with(|s| s.borrow().len()) }\n\nimpl OsuObject {"))
m('c20-r2-unsafe-send', 'C20', 'C20-R2', 'unsafe-impl', (
    'src/taiko/difficulty/gradual.rs', "#[derive(Copy, Clone, Debug)]\nenum FirstTwoCombos {", "unsafe impl Send for TaikoGradualDifficulty {}\n\n#[derive(Copy, Clone, Debug)]\nenum FirstTwoCombos {"))
m('c20-r3-rc-field', 'C20', 'C20-R3', 'OsuGradualDifficulty', (
    'src/osu/difficulty/gradual.rs', "struct NotClonable;", "struct NotClonable(std::rc::Rc<()>);"),
    ('src/osu/difficulty/gradual.rs', "            _not_clonable: NotClonable,\n        })", "            _not_clonable: NotClonable(std::rc::Rc::new(())),\n        })"))

MUTANTS = M

m('c15-r7-unbounded-n', 'C15', 'C15-R7', 'CatchGradualDifficulty', (
    'src/catch/difficulty/gradual.rs', "        if n >= self.len() {\n            while self.next().is_some() {}\n\n            return None;\n        }\n\n        let skip_iter",
    "        let target = self.idx + n;\n\n        if target >= self.count.len() {\n            while self.next().is_some() {}\n\n            return None;\n        }\n\n        let skip_iter"))

m('c16-r3-direct-truncate', 'C16', 'C16-R3', 'mania:strains:+<direct mutation of Beatmap.hit_objects>', (
    'src/mania/strains.rs', "    if difficulty.get_mods().ho() {\n        convert::apply_hold_off_to_beatmap(map.to_mut());",
    "    if difficulty.get_mods().ho() {\n        let take = difficulty.get_passed_objects();\n        let m = map.to_mut();\n        if take < m.hit_objects.len() {\n            m.hit_objects.truncate(take);\n        }\n        convert::apply_hold_off_to_beatmap(map.to_mut());"))

m('c17-r5-unguarded-scale', 'C17', 'C17-R5', 'build:hp', (
    'src/model/beatmap/attributes.rs', "        if !self.hp.with_mods() {\n            hp *= mods.od_ar_hp_multiplier() as f32;\n        }", "        hp *= mods.od_ar_hp_multiplier() as f32;"))

m('c08-r2-helper-calls-mods-fn', 'C08', 'C08-R2', 'attr-fn:od', (
    'src/model/beatmap/attributes.rs', "            GameMode::Catch | GameMode::Mania => f64::from(self.od.value(mods, GameMods::od)),",
    "            GameMode::Catch | GameMode::Mania => {\n                fn raw(m: &GameMods, f: impl Fn(&GameMods) -> Option<f64>) -> f64 {\n                    f(m).unwrap_or(5.0)\n                }\n\n                raw(mods, GameMods::od)\n            }"))

# the table-driven form of the Legacy arm (agent refactor C08-r1) with 2K and 3K swapped
m('c08-r1-table-swapped', 'C08', 'C08-R1', 'mania_keys:Legacy:Key2',
  ('src/model/mods.rs', "(GameModsLegacy::Key2, 2.0)", "(GameModsLegacy::Key2, 3.0)"),
  ('src/model/mods.rs', "(GameModsLegacy::Key3, 3.0)", "(GameModsLegacy::Key3, 2.0)"),
  diff='selftest/refactor_diffs/C08-r1.diff')

# misses taken off the object count twice (the idea of seed C12-2, and the same slip in the osu fallback branch)
m('c12-r6-double-miss-mania', 'C12', 'C12-R6', 'mania:remainder-units', (
    'src/mania/performance/mod.rs', "                                        let remaining = n_objects - curr.total_hits();",
    "                                        let remaining = n_remaining.saturating_sub(curr.total_hits());"))
m('c12-r6-double-miss-osu', 'C12', 'C12-R6', 'osu:remainder-units', (
    'src/osu/performance/mod.rs', "            let remaining = n_objects.saturating_sub(n300 + n100 + n50 + misses);",
    "            let remaining = n_remaining.saturating_sub(n300 + n100 + n50 + misses);"))

# the helper of agent refactor C19-r1, but pushing instead of the binary-search add
m('c19-r4-helper-push', 'C19', 'C19-R4', 'effect_points', (
    'src/taiko/convert.rs', "    effect_point.add(effect_points);", "    effect_points.push(effect_point);"),
  diff='selftest/refactor_diffs/C19-r1.diff')

# the shared has_mod look-up of agent refactor C08-r4, answering `true` for mods that have no legacy flag
m('c08-r1-shared-lookup-none-true', 'C08', 'C08-R1', 'has:', (
    'src/model/mods.rs', "                None => false,", "                None => true,"),
  diff='selftest/refactor_diffs/C08-r4.diff')

# the assignment style of agent refactor C17-r4, but the hp override is guarded by the *od* getter
m('c17-r3-guard-of-other-getter', 'C17', 'C17-R3', 'difficulty:hp', (
    'src/model/beatmap/attributes.rs', "        if let Some(hp) = difficulty.get_hp() {\n            self.hp = ModsDependentKind::Custom(hp);\n        }",
    "        if difficulty.get_od().is_some() {\n            self.hp = ModsDependentKind::Custom(difficulty.get_hp().unwrap_or_default());\n        }"),
  diff='selftest/refactor_diffs/C17-r4.diff')

# the install helper of agent refactor C19-r5 without its sort
m('c19-r3-helper-no-sort', 'C19', 'C19-R3', 'mania::convert::', (
    'src/mania/convert/mod.rs', "    map.hit_sounds.clear();\n    map.hit_objects.sort_by(cmp_by_start_time);\n}", "    map.hit_sounds.clear();\n    let _ = cmp_by_start_time;\n}"),
  diff='selftest/refactor_diffs/C19-r5.diff')

# F10 re-introduced: the lazer arm decides DT vs HT by iteration order, the intermode arm delegates to rosu-mods' iteration-order helper
m('c08-r3-iteration-order', 'C08', 'C08-R3', 'GameMods::clock_rate', (
    'src/model/mods.rs', "                mods.iter()\n                    .filter(speeds_up)\n                    .find_map(rate_of)\n                    .or_else(|| mods.iter().find_map(rate_of))\n                    .unwrap_or(1.0)",
    "                let _ = speeds_up;\n                mods.iter().find_map(rate_of).unwrap_or(1.0)"))
m('c08-r3-legacy-clock-rate-helper', 'C08', 'C08-R3', 'legacy_clock_rate', (
    'src/model/mods.rs', "                if mods.contains(GameModIntermode::DoubleTime)\n                    || mods.contains(GameModIntermode::Nightcore)\n                {\n                    1.5\n                } else if mods.contains(GameModIntermode::HalfTime)\n                    || mods.contains(GameModIntermode::Daycore)\n                {\n                    0.75\n                } else {\n                    1.0\n                }",
    "                mods.legacy_clock_rate()"))

# seed C05-3 itself: shared start_column() helper that drops the free-column half of the guard
m('c05-r3-dropped-free-column-guard', 'C05', 'C05-R3', 'start_column', diff='selftest/seed_diffs/C05-3.diff')
# seed C10-3's slip in its smallest form: the raw sum stops at the first zero section
m('c10-r5-sum-take-while', 'C10', 'C10-R5', 'sum:raw_strains', (
    'src/util/strains_vec.rs', "            self.inner.iter().copied().sum()", "            self.inner.iter().copied().take_while(|&a| a > 0.0).sum()"))

# seed C11-3 itself: the unchecked NonZero helper reached without the clamp through Option::map
m('c11-r6-helper-unclamped-caller', 'C11', 'C11-R6', 'f64_to_non_zero_u64', diff='selftest/seed_diffs/C11-3.diff')

# the unsafe forwarder of agent refactor C11-r8, called without establishing the non-zero state first
m('c11-r1-forwarder-without-retain', 'C11', 'C11-R1', 'difficulty_value', (
    'src/any/difficulty/skills.rs', "    peaks.retain_non_zero_and_sort();", "    peaks.sort_desc();"),
  diff='selftest/refactor_diffs/C11-r8.diff')

# the key table of agent refactor C19-r11 (shared search helper fed a membership closure) with a wrong row
m('c08-r1-closure-table-row', 'C08', 'C08-R1', 'mania_keys:', (
    'src/model/mods.rs', "    (GameModIntermode::TwoKeys, 2.0),", "    (GameModIntermode::TwoKeys, 3.0),"),
  diff='selftest/refactor_diffs/C19-r11.diff')
# ... and with the intermode closure testing a fixed mod instead of the table's element
m('c08-r1-closure-ignores-element', 'C08', 'C08-R1', 'mania_keys:Intermode', (
    'src/model/mods.rs', "first_key_mod(|gamemod| mods.contains(gamemod))", "first_key_mod(|_gamemod| mods.contains(GameModIntermode::FourKeys))"),
  diff='selftest/refactor_diffs/C19-r11.diff')
# the paired push helper of agent refactor C06-r12 losing the sound push
m('c06-r3-push-helper-no-sound', 'C06', 'C06-R3', 'push-pair', (
    'src/model/beatmap/decode.rs', "        self.hit_objects.push(hit_object);\n        self.hit_sounds.push(sound);", "        self.hit_objects.push(hit_object);\n        let _ = sound;"),
  diff='selftest/refactor_diffs/C06-r12.diff')
# the sort helper of agent refactor C01-r12 permuting only the objects
m('c06-r3-sort-helper-objects-only', 'C06', 'C06-R3', 'tandem-sort', (
    'src/model/beatmap/decode.rs', "    sorter.sort(hit_objects);\n    sorter.sort(hit_sounds);", "    sorter.sort(hit_objects);\n    let _ = hit_sounds;"),
  diff='selftest/refactor_diffs/C01-r12.diff')
# the reflection helpers of agent refactor C08-r10: intermode arm asks for the wrong mod / lazer helper ties Vertical to Easy
m('c08-r1-reflection-helper-wrong-mod', 'C08', 'C08-R1', 'reflection:Intermode', (
    'src/model/mods.rs', "Reflection::of_hardrock(mods.contains(GameModIntermode::HardRock))", "Reflection::of_hardrock(mods.contains(GameModIntermode::Easy))"),
  diff='selftest/refactor_diffs/C08-r10.diff')
m('c08-r1-reflection-fn-value-wrong-kind', 'C08', 'C08-R1', 'reflection:Lazer', (
    'src/model/mods.rs', "            GameMod::HardRockOsu(_) => Self::Vertical,", "            GameMod::EasyOsu(_) => Self::Vertical,"),
  diff='selftest/refactor_diffs/C08-r10.diff')

# seed C10-4 itself: len() asked after retain_non_zero_and_sort (compact count not maintained, raw body answers Vec::len())
m('c10-r6-len-after-retain', 'C10', 'C10-R6', 'len-after-shrink', diff='selftest/seed_diffs/C10-4.diff')

# seeds C08-4 / C18-4 themselves: a calculator configures the attribute builder around the .difficulty(..) funnel
m('c08-r4-builder-bypasses-funnel', 'C08', 'C08-R4', 'funnel:', diff='selftest/seed_diffs/C08-4.diff')
m('c18-r6-setter-before-funnel', 'C18', 'C18-R6', 'funnel-order:', diff='selftest/seed_diffs/C18-4.diff')
# seed C15-4 itself: the container's process() (used by nth's bulk step only) skips skills under RX / AP, next() feeds them individually
m('c15-r8-bulk-step-skips-skill', 'C15', 'C15-R8', 'osu:skills.', diff='selftest/seed_diffs/C15-4.diff')
# seeds C02-4 / C03-4 themselves (catch): the shared conversion observes the counting mode / the gradual count narrows a shared counter
m('c02-r6-conversion-observes-count-mode', 'C02', 'C02-R6', 'observer:is_done', diff='selftest/seed_diffs/C02-4.diff')
m('c02-r7-gradual-counter-narrowed', 'C02', 'C02-R7', 'tiny_droplets', diff='selftest/seed_diffs/C03-4.diff')
# seed C14-4 itself: the hold-note count is decided by `duration > 0.0` in a merged helper instead of by the object kind
m('c14-r5-hold-by-duration', 'C14', 'C14-R5', 'mania:n_hold_notes', diff='selftest/seed_diffs/C14-4.diff')
# seed C16-4 itself: a bulk zero-section shortcut in process() taken only when the skill's own peak has decayed to 0
# seed C14-6 itself: the taiko counting closure is called by hand behind the `let (Some, Some) = (next(), next()) else return` exit
m('c14-r6-count-behind-early-exit', 'C14', 'C14-R6', 'taiko:count-every-object', diff='selftest/seed_diffs/C14-6.diff')
# the inspect() adaptor moved behind skip(1): the first object is never counted
m('c14-r6-inspect-after-skip', 'C14', 'C14-R6', 'taiko:count-every-object',
  ('src/taiko/difficulty/mod.rs', """            })
            .skip(1);
""", """            });
"""),
  ('src/taiko/difficulty/mod.rs', """            .map(|(h, s)| TaikoObject::new(h, *s))
            .inspect(|h| {""", """            .map(|(h, s)| TaikoObject::new(h, *s))
            .skip(1)
            .inspect(|h| {"""))
m('c16-r7-sections-depend-on-strain', 'C16', 'C16-R7', 'osu:Aim', diff='selftest/seed_diffs/C16-4.diff')
# seed C19-4 itself: next_int_range = min + next_max(max) (span max instead of max - min)
m('c19-r5-range-span', 'C19', 'C19-R5', 'range:next_int_range', diff='selftest/seed_diffs/C19-4.diff')
# seed C05-4 itself: catch width computed from the signed scale (abs dropped): clamp(0.0, half_catcher_width) can see a negative upper bound
m('c05-r4-clamp-upper-bound-signed', 'C05', 'C05-R4', 'clamp:catch::convert::initialize_hyper_dash', diff='selftest/seed_diffs/C05-4.diff')
# seed C11-4 itself: the lifetime-extended difficulty objects also borrow a ScalingFactor that is a local of the constructor
m('c11-r4-borrow-source-local', 'C11', 'C11-R4', 'borrow-source:create_difficulty_objects', diff='selftest/seed_diffs/C11-4.diff')
# seed C07-4 itself: a map handed over by value is converted at construction time with GameMods::DEFAULT
m('c07-r6-early-conversion-default-mods', 'C07', 'C07-R6', 'mods:any::performance::into::', diff='selftest/seed_diffs/C07-4.diff')
# the advance_with helper of agent refactor C03-r15, but next() advances by two objects
m('c15-r1-helper-next-skips', 'C15', 'C15-R1', 'CatchGradualPerformance::next', (
    'src/catch/performance/gradual.rs', "self.advance_with(state, |difficulty| difficulty.nth(0))", "self.advance_with(state, |difficulty| difficulty.nth(1))"),
  diff='selftest/refactor_diffs/C03-r15.diff')
# the result-building helper of agent refactor C04-r13 handed altered attributes
m('c04-r2-helper-embeds-altered', 'C04', 'C04-R2', 'osu:embedded', (
    'src/osu/performance/calculator.rs', "values.into_attributes(self.attrs, pp, self.effective_miss_count)",
    "values.into_attributes(OsuDifficultyAttributes { stars: pp, ..self.attrs }, pp, self.effective_miss_count)"),
  diff='selftest/refactor_diffs/C04-r13.diff')
# the clamp helper of agent refactor C05-r13 with its caller's `> 0.0` guard dropped (a negative / NaN attribute panics in clamp)
m('c05-r4-helper-caller-guard-dropped', 'C05', 'C05-R4', 'clamp:osu::performance::calculator', (
    'src/osu/performance/calculator.rs', "if self.attrs.n_sliders > 0 && self.attrs.aim_difficult_slider_count > 0.0 {", "if self.attrs.n_sliders > 0 {"),
  diff='selftest/refactor_diffs/C05-r13.diff')
# seed C06-4 itself: `if beat_len >= 0.0 { return 1.0 }` lets NaN through to the clamp of the bpm multiplier
m('c06-r2-nan-reaches-clamp', 'C06', 'C06-R2', 'nan:DifficultyPoint::new', diff='selftest/seed_diffs/C06-4.diff')
# the private clamp helper of agent refactor C06-r13 without its clamp
m('c06-r2-helper-without-clamp', 'C06', 'C06-R2', 'TimingPoint:beat_len', (
    'src/model/control_point/timing.rs', "        beat_len.clamp(Self::MIN_BEAT_LEN, Self::MAX_BEAT_LEN)", "        beat_len.max(Self::MIN_BEAT_LEN)"),
  diff='selftest/refactor_diffs/C06-r13.diff')
# the generic dispatch helper of agent refactor C07-r14 instantiated with the wrong mode in the Catch arm
m('c07-r3-generic-helper-wrong-mode', 'C07', 'C07-R3', 'try_mode:Catch', (
    'src/osu/performance/mod.rs', "            GameMode::Catch => self.convert_and_wrap::<CatchPerformance<'map>>(Performance::Catch),",
    "            GameMode::Catch => self.convert_and_wrap::<TaikoPerformance<'map>>(Performance::Taiko),"),
  diff='selftest/refactor_diffs/C07-r14.diff')
# the hit-window carrier of agent refactor C08-r13 (DifficultyValues.hit_windows) filled from a builder that skips .difficulty(..)
m('c17-r2-carrier-skips-funnel', 'C17', 'C17-R2', 'taiko:difficulty:great_hit_window', (
    'src/taiko/difficulty/mod.rs', "        let hit_windows = map.attributes().difficulty(difficulty).hit_windows();",
    "        let hit_windows = map.attributes().mods(difficulty.get_mods().clone()).hit_windows();"),
  diff='selftest/refactor_diffs/C08-r13.diff')
# the per-object delta value of agent refactor C14-r14 counting a spinner as a circle
m('c14-r3-delta-wrong-counter', 'C14', 'C14-R3', 'osu::difficulty::gradual', (
    'src/osu/difficulty/gradual.rs', "            OsuObjectKind::Spinner { .. } => Self {\n                n_spinners: 1,", "            OsuObjectKind::Spinner { .. } => Self {\n                n_circles: 1,"),
  diff='selftest/refactor_diffs/C14-r14.diff')
# the in-place section closing of agent refactor C16-r14 without the save (the open section is lost for export and aggregation)
m('c16-r2-in-place-close-dropped', 'C16', 'C16-R2', 'into_current_strain_peaks', (
    'src/util/macros.rs', "                self.save_current_peak();\n\n                self.strain_skill_strain_peaks\n", "                self.strain_skill_strain_peaks\n"),
  diff='selftest/refactor_diffs/C16-r14.diff')
# the closure-applying builder helper of agent refactor C18-r15 with the hp setter writing the cs slot
m('c18-r5-closure-writes-other-slot', 'C18', 'C18-R5', 'hp', (
    'src/any/difficulty/mod.rs', "self.with(|this| this.hp = Some(hp))", "self.with(|this| this.cs = Some(hp))"),
  diff='selftest/refactor_diffs/C18-r15.diff')
# seed C04-5 itself: TaikoPerformance keeps the accuracy in percent, the conversion from OsuPerformance still copies osu's fraction
m('c07-r5-forwarded-field-other-unit', 'C07', 'C07-R5', 'taiko:acc:representation', diff='selftest/seed_diffs/C04-5.diff')
# seed C10-5 itself: a StrainsVec kept in a field is asked len() by the call after the one that retained it
m('c10-r6-len-after-retain-across-calls', 'C10', 'C10-R6', 'len-after-shrink', diff='selftest/seed_diffs/C10-5.diff')
# seeds C05-5 / C15-5 themselves: nth()'s n >= len() branch jumps the position instead of draining (mania: to another collection's length; taiko: next() stops by a separate cursor)
m('c15-r9-overshoot-jump-wrong-end', 'C15', 'C15-R9', 'mania:overshoot', diff='selftest/seed_diffs/C05-5.diff')
m('c15-r9-overshoot-jump-leaves-cursor', 'C15', 'C15-R9', 'taiko:overshoot', diff='selftest/seed_diffs/C15-5.diff')

# seed C02-5 itself (the same slip was written independently for C01-5, C03-5 and C14-5): a position-keyed helper asked with a step count in nth()
m('c15-r10-position-helper-asked-with-steps', 'C15', 'C15-R10', 'taiko:combo_after', diff='selftest/seed_diffs/C02-5.diff')
# the precomputed total of agent refactor C02-r17 measuring the wrong collection (note_states instead of diff_objects: differs under passed_objects)
m('c15-r6-ctor-total-wrong-collection', 'C15', 'C15-R6', 'mania:len-collection', (
    'src/mania/difficulty/gradual.rs', "            diff_objects.len() + 1\n        };", "            note_states.len()\n        };"),
  diff='selftest/refactor_diffs/C02-r17.diff')
# the bounded inner step of agent refactor C03-r18 with next() advancing by two
m('c15-r1-inner-step-next-skips', 'C15', 'C15-R1', 'TaikoGradualPerformance::next', (
    'src/taiko/performance/gradual.rs', "self.nth_within_bounds(state, 0)", "self.nth_within_bounds(state, 1)"),
  diff='selftest/refactor_diffs/C03-r18.diff')
# the merged NaN guard clause of agent refactor C06-r16 without its is_nan() half: a NaN beat length reaches TimingPoint::new's clamp
m('c06-r2-merged-guard-without-nan-test', 'C06', 'C06-R2', 'nan:TimingPoint::new', (
    'src/model/beatmap/decode.rs', "if unlikely(timing_change && beat_len.is_nan()) {", "if unlikely(timing_change && beat_len.is_infinite()) {"),
  diff='selftest/refactor_diffs/C06-r16.diff')
# the stepwise TryFrom of agent refactor C07-r16 rescaling the accuracy it copies
m('c07-r5-stepwise-tryfrom-rescales-acc', 'C07', 'C07-R5', 'taiko:acc', (
    'src/taiko/performance/mod.rs', "taiko.acc = acc;", "taiko.acc = acc.map(|a| a * 100.0);"),
  diff='selftest/refactor_diffs/C07-r16.diff')
# the per-mode closure dispatch of agent refactor C17-r16 with od() handing the taiko payload back untouched
m('c18-r2-closure-dispatch-drops-od', 'C18', 'C18-R2', 'od:Taiko', (
    'src/any/performance/mod.rs', "            |t| t.od(od, with_mods),", "            |t| t,"),
  diff='selftest/refactor_diffs/C17-r16.diff')
# seeds of round 6 (paths the default suite never takes)
m('c04-r4-slot-moved-out', 'C04', 'C04-R4', 'slot:', diff='selftest/seed_diffs/C01-6.diff')
m('c04-r5-default-attributes-early-exit', 'C04', 'C04-R5', 'entry:any::difficulty::Difficulty::calculate', diff='selftest/seed_diffs/C04-6.diff')
m('c17-r6-default-attributes-early-exit', 'C17', 'C17-R6', 'entry:osu::difficulty::difficulty', diff='selftest/seed_diffs/C17-6.diff')
m('c10-r5-raw-clone-drops-zeros', 'C10', 'C10-R5', 'clone:raw_strains', diff='selftest/seed_diffs/C02-6.diff')
m('c14-r7-fast-path-before-mark', 'C14', 'C14-R7', 'every-path:taiko', diff='selftest/seed_diffs/C14-7.diff')
m('c02-r1b-guard-over-converted-map', 'C02', 'C02-R1b', 'mania:gradual_difficulty:guard:apply_hold_off_to_beatmap', diff='selftest/seed_diffs/C02-7.diff')
m('c08-r5-legacy-fast-path-in-calculator', 'C08', 'C08-R5', 'inspects:osu::performance::calculator::ModFlags::new', diff='selftest/seed_diffs/C08-7.diff')
m('c10-r7-sync-only-shortcut', 'C10', 'C10-R7', '[sync]wrapper:util::sync::inner::position_from', diff='selftest/seed_diffs/C10-7.diff')
m('c16-r8-speed-skipped-with-relax', 'C16', 'C16-R8', 'fed-alike:osu::difficulty::skills::OsuSkills::process', diff='selftest/seed_diffs/C16-7.diff')
m('c15-r11-private-stop-flag', 'C15', 'C15-R11', 'none-from-inner:OsuGradualPerformance', diff='selftest/seed_diffs/C15-7.diff')
m('c11-r4-owner-truncated-after-extend', 'C11', 'C11-R4', 'osu::difficulty::gradual::extend_lifetime:frozen-after-extend:osu_objects', diff='selftest/seed_diffs/C11-7.diff')
m('c06-r3-mania-skips-stable-sort', 'C06', 'C06-R3', 'tandem-sort:every-path', diff='selftest/seed_diffs/C06-7.diff')
m('c12-r7-state-drops-n-geki', 'C12', 'C12-R7', 'state:every-field', diff='selftest/seed_diffs/C12-7.diff')
m('c05-r5-dual-stages-overflow-column-set', 'C05', 'C05-R5', 'column-set-width', diff='selftest/seed_diffs/C05-7.diff')
m('c02-r8-speed-skipped-in-forwarder-only', 'C02', 'C02-R8', 'osu:same-feeding', diff='selftest/seed_diffs/C03-7.diff')
m('c03-r3-speed-skipped-in-forwarder-only', 'C03', 'C03-R3', 'osu:same-feeding', diff='selftest/seed_diffs/C03-7.diff')
m('c02-r9-catcher-width-cap-one-replica', 'C02', 'C02-R9', 'catch:Movement::new:arg0', diff='selftest/seed_diffs/C02-8.diff')
m('c03-r4-catcher-width-cap-misplaced', 'C03', 'C03-R4', 'catch:Movement::new:arg0', diff='selftest/seed_diffs/C03-8.diff')
m('c18-r7-taiko-reads-lazer', 'C18', 'C18-R7', 'lazer:Taiko:unread', diff='selftest/seed_diffs/C18-8.diff')
m('c12-r8-object-count-before-invert', 'C12', 'C12-R8', 'fresh-reads:mania:difficulty', diff='selftest/seed_diffs/C12-8.diff')
m('c14-r8-object-count-before-invert', 'C14', 'C14-R8', 'fresh-reads:mania:difficulty', diff='selftest/seed_diffs/C12-8.diff')
m('c16-r9-strains-rate-from-mods', 'C16', 'C16-R9', 'catch:DifficultyValues::calculate:arg2', diff='selftest/seed_diffs/C16-8.diff')
m('c17-r7-od-accessor-clamped', 'C17', 'C17-R7', 'osu:od-accessor', diff='selftest/seed_diffs/C17-8.diff')
