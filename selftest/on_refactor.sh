#!/bin/bash
# usage: selftest/on_refactor.sh <refactor-or-mutant-id> <CHECK> [extra check args]   — run one check on a scratch copy with that edit applied
ID="$1"; shift
T=$(python3 - "$ID" <<'P'
import sys; sys.path.insert(0,'/verif/selftest')
import run as mrun
from refactors import REFACTORS
from mutants import MUTANTS
c=[r for r in list(REFACTORS)+list(MUTANTS) if r['id']==sys.argv[1]]
t,err=mrun.make_scratch(c[0]); print(t or ('ERR '+str(err)))
P
)
case "$T" in ERR*) echo "$T"; exit 2;; esac
RPP_REPO=$T RPP_CACHE=$T/.cache /verif/check "$@" --no-evidence 2>&1
rm -rf "$T"
